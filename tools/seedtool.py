#!/usr/bin/env python3
"""Seeded-defect bookkeeping.

  seedtool.py verify <src_dir> <variant> <seed_name> <property>
      confirm, in a scratch worktree of /repo HEAD, that patch_<variant>.diff applies,
      the repository's test-suite still passes with it, demo_<variant>.py fails with it
      and passes without it; then store it as /verif/seeded/<seed_name>/.
  seedtool.py run <seed_name> [<property> ...] [--tier quick]
      apply the seed in a scratch worktree and run the named checks (default: the
      seed's own property) against it (YAW_REPO), with evidence/replays redirected
      to a scratch directory; prints DETECTED / MISSED per check.
"""
import json
import os
import shutil
import subprocess
import sys
import tempfile
from pathlib import Path

VERIF = Path(__file__).resolve().parent.parent
SEEDED = VERIF / "seeded"
PY = "/venv/bin/python"


def sh(cmd, **kw):
    return subprocess.run(cmd, shell=isinstance(cmd, str), capture_output=True, text=True, **kw)


def worktree():
    d = Path(tempfile.mkdtemp(prefix="seedwt_", dir="/tmp"))
    d.rmdir()
    r = sh(["git", "-C", "/repo", "worktree", "add", "--detach", str(d), "HEAD"])
    if r.returncode != 0:
        raise SystemExit(r.stderr)
    shutil.copy("/repo/src/yaw/_version.py", d / "src/yaw/_version.py")
    return d


def drop(d):
    sh(["git", "-C", "/repo", "worktree", "remove", "--force", str(d)])
    shutil.rmtree(d, ignore_errors=True)


def verify(src_dir, variant, name, prop):
    src = Path(src_dir)
    patch = src / f"patch_{variant}.diff"
    demo = src / f"demo_{variant}.py"
    meta = json.loads((src / f"meta_{variant}.json").read_text())
    wt = worktree()
    log = {}
    try:
        env = dict(os.environ, PYTHONPATH=str(wt / "src"), YAW_NUM_THREADS="1")
        envd = dict(os.environ, PYTHONPATH=str(wt / "src"))
        r = sh([PY, str(demo)], cwd=wt, env=envd, timeout=300)
        log["demo_clean_rc"] = r.returncode
        r = sh(["git", "apply", str(patch)], cwd=wt)
        log["apply_rc"] = r.returncode
        log["apply_err"] = r.stderr[-500:]
        if r.returncode == 0:
            r = sh([PY, "-m", "pytest", "-q", "-p", "no:cacheprovider", "tests"], cwd=wt, env=env, timeout=900)
            tail = [l for l in r.stdout.splitlines() if "passed" in l or "failed" in l][-1:]
            log["tests"] = tail[0] if tail else r.stdout[-300:]
            log["tests_rc"] = r.returncode
            r = sh([PY, str(demo)], cwd=wt, env=envd, timeout=300)
            log["demo_patched_rc"] = r.returncode
            log["demo_patched_tail"] = (r.stdout + r.stderr)[-400:]
    finally:
        drop(wt)
    ok = log.get("apply_rc") == 0 and log.get("tests_rc") == 0 and log.get("demo_clean_rc") == 0 and log.get("demo_patched_rc", 0) != 0
    print(json.dumps(log, indent=1))
    if not ok:
        print(f"REJECTED {name}")
        return 1
    dst = SEEDED / name
    dst.mkdir(parents=True, exist_ok=True)
    shutil.copy(patch, dst / "patch.diff")
    shutil.copy(demo, dst / "demo.py")
    head = sh(["git", "-C", "/repo", "rev-parse", "--short", "HEAD"]).stdout.strip()
    meta_out = dict(
        property=prop,
        summary=meta.get("summary"),
        needs=meta.get("needs"),
        files=meta.get("files"),
        source="independent sub-agent given only the property text and a scratch worktree",
        confirmed=dict(
            repo_head=head,
            patch_applies=True,
            test_suite_with_patch=log["tests"],
            demo_without_patch_rc=log["demo_clean_rc"],
            demo_with_patch_rc=log["demo_patched_rc"],
            how="tools/seedtool.py verify (scratch worktree of /repo HEAD, removed afterwards)",
        ),
        detected_by=None,
    )
    (dst / "meta.json").write_text(json.dumps(meta_out, indent=1) + "\n")
    print(f"ACCEPTED {name}")
    return 0


def run(name, props, tier):
    seed = SEEDED / name
    meta = json.loads((seed / "meta.json").read_text())
    props = props or [meta["property"]]
    wt = worktree()
    out = Path(tempfile.mkdtemp(prefix="seedrun_", dir="/tmp"))
    results = {}
    try:
        r = sh(["git", "apply", str(seed / "patch.diff")], cwd=wt)
        if r.returncode != 0:
            print("patch does not apply:", r.stderr)
            return 2
        for p in props:
            env = dict(os.environ, YAW_REPO=str(wt), VERIF_EVIDENCE_DIR=str(out / "ev"), VERIF_REPLAY_DIR=str(out / "rp"))
            r = sh([str(VERIF / "check"), p, "--tier", tier], cwd=VERIF, env=env, timeout=7200)
            lines = [l for l in (r.stdout + r.stderr).splitlines() if "condarc" not in l]
            viol = [l for l in lines if l.startswith("VIOLATION") or l.strip().startswith("key=")]
            verdict = "DETECTED" if r.returncode == 1 and any(l.startswith("VIOLATION") for l in lines) else ("MACHINERY" if r.returncode == 2 else "MISSED")
            results[p] = verdict
            print(f"{name} {p} rc={r.returncode} {verdict}")
            for l in viol[:8]:
                print("   ", l)
            if verdict == "MACHINERY":
                print("\n".join(lines[-15:]))
    finally:
        drop(wt)
        shutil.rmtree(out, ignore_errors=True)
    return 0


if __name__ == "__main__":
    cmd = sys.argv[1]
    if cmd == "verify":
        sys.exit(verify(*sys.argv[2:6]))
    if cmd == "run":
        args = sys.argv[2:]
        tier = "quick"
        if "--tier" in args:
            i = args.index("--tier")
            tier = args[i + 1]
            del args[i : i + 2]
        sys.exit(run(args[0], args[1:], tier))
