#!/bin/sh
# run every check of MANIFEST.json in the given tier (default quick); evidence/replays go to $OUT (default: real dirs)
tier=${1:-quick}
cd "$(dirname "$0")/.." || exit 2
for c in C01 C02 C03 C04 C05 C06 C07 C08 C09 C10 C11 C12 C13 C15 C16 C17 C18; do
  start=$(date +%s)
  ./check $c --tier $tier > /tmp/run_all_$c.log 2>&1
  rc=$?
  end=$(date +%s)
  echo "$c tier=$tier rc=$rc wall=$((end-start))s :: $(grep -v condarc /tmp/run_all_$c.log | grep -E 'VIOLATION|MACHINERY|KNOWN-FINDING' | cut -c1-160 | head -3 | tr '\n' ' ')"
done
