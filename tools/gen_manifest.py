#!/usr/bin/env python3
"""Generate MANIFEST.json from the table below (single source of truth)."""
import json
from pathlib import Path

VERIF = Path(__file__).resolve().parent.parent
ALL = [f"C{i:02d}" for i in range(1, 19)]

BASELINE_OFF = (
    "cd /repo && env -u YAW_VERIF /venv/bin/python -m pytest -ra -q -p no:cacheprovider "
    "--timeout=900 --continue-on-collection-errors --junitxml=/tmp/yaw_baseline_off.junit.xml"
)

# property -> (spec modules, technique, level text, level note, design ref)
CHECKS = {
    "C05": dict(
        engine="PoolMap+PoolChunks",
        technique="TLC model checking of spec/PoolMap.tla (feasible completion orders x 4 consumers) + replay of every TLC terminal behaviour through a fake multiprocessing.Pool into the real entry points; thorough: trace validation of the real Pool against PoolMapTrace; TLC model checking of spec/PoolChunks.tla (dispatch in chunks: a chunk is evaluated and pickled as a whole; per-process result buffers) with every terminal behaviour replayed on the Pool stand-in and, thorough tier, on the real multiprocessing.Pool",
        text="TLC enumerates every feasible completion order of a W-worker pool (W up to NT+1, NT up to 4/5 tasks; 6 for pair counting) and checks the consumers' folds are order independent; each of those orders is replayed on the real Catalog(), build_trees, count_pairs, HistData.from_catalog, and random feasible orders on crosscorrelate/autocorrelate, comparing bit-exact digests with the max_workers=1 run. The worlds use closed=left (and right) with every fourth redshift exactly on a bin edge, so the closed side must survive every pickling boundary; every other schedule runs with the progress display on, so results pass through the Indicator wrapper. Exhaustive over schedules for small task counts, which no test can reach because the suite pins one worker. PoolChunks.tla extends the dispatch model to imap_unordered with a chunk size (OwnValue, ExactlyOnce, ChunkContiguous, FeasibleChunkOrder; deviation SharedBuffers is harmless with chunksize 1 and wrong above), which is what the Pool stand-in now implements; a world of 9 densely linked patches gives more than 32 pair jobs per worker.",
        note="Trusts the fake Pool's dispatch rule (in-order, chunksize 1, pickling) - validated against the real multiprocessing.Pool in the thorough tier; tasks of one map are assumed to touch disjoint files.",
        ref="DESIGN.md 3.2, 4 C05",
    ),
    "C06": dict(
        engine="IterUnorderedMPI+CreateMPI+CollectiveIO",
        technique="TLC model checking (safety + liveness under weak fairness) of spec/IterUnorderedMPI.tla, CreateMPI.tla, CollectiveIO.tla on MPISem.tla; trace validation of the real library running on a fake mpi4py against IterUnorderedMPITrace/CreateMPITrace; replay of TLC counterexamples and simulated behaviours on the deterministic runtime",
        text="TLC explores every interleaving (wildcard matches, eager vs rendezvous completion) of the iter_unordered protocol and of the MPI catalog-writer pipeline for world sizes 2..4(5), all max_workers, and proves termination, exactly-once execution and no record loss for the design; deviation configs reproduce the defects of the code as found. The real functions run on a deterministic fake mpi4py: their event logs must be behaviours of the specs (checked by TLC, incl. message class/argument/peer/mode), TLC behaviours are replayed into them, recorded collective skeletons are model-checked for all schedules, and the root's results of whole workloads are compared with a single-process reference under random schedules. Invalid requests that a single process rejects before touching data (probe larger than the random sample, missing cache, catalogs with different patch sets) must be rejected alike on every rank and the program must reach its next collective. Workloads alternate the progress display and input tables sorted patch by patch (different sender ranks then hold different patches). Deadlock detection is exact.",
        note="Trusts the fake mpi4py as an implementation of MPISem.tla (MPI-3.1 point-to-point ordering and wildcard semantics, non-synchronising bcast/gather); no real MPI is available in the sandbox. Ranks are cooperative threads.",
        ref="DESIGN.md 3.1, 4 C06",
    ),
    "C18": dict(
        engine="Reader",
        technique="TLC model checking of spec/Reader.tla over every scenario (length, chunksize, source kind, Parquet row-group layout, passes) up to the bounds; each scenario replayed on real instrumented sources through Catalog.from_*, recorded requests compared with TLC's expected request sequence and with the C18 predicates",
        text="Reader.tla models the iteration state of the chunk readers (slice readers, RandomReader, ParquetReader's row-group cache, the extra probe pass) and TLC checks Consecutive/Bounded/OncePerPass/NeverWholeInput/ChunkShapes/PassCount for all lengths 0..6(8) x chunk sizes 1..4(5) x all row-group compositions; it prints the expected request sequence of every scenario. Every scenario is then built as a real data-frame-like object, HDF5, FITS and Parquet file (exactly those row groups) or random generator and run through Catalog.from_dataframe/from_file/from_random, sequentially and on the fake multiprocessing runtime, with requests recorded at the source API; they must equal the model's, and the property predicates are evaluated on the recording itself. Exhaustive over the small parameter space where the failing region (lengths around multiples of the chunk size, row groups vs chunk size) lies. Every fourth creation replaces an existing catalog (overwrite=True), and FITS tables are also read from extension 2 with the hdu option.",
        note="Requests are observed at the API boundary of the source (frame slicing, h5py.Dataset.__getitem__, FITS column slicing, ParquetFile.read_row_group/iter_batches, generator calls); what memory mapping does below that is not observable.",
        ref="DESIGN.md 3.3, 4 C18",
    ),
    "C09": dict(
        engine="CreatePipeline",
        technique="TLC model checking (safety, deadlock, liveness) of spec/CreatePipeline.tla over all scenario classes and schedules, with five deviation configs; every scenario class instantiated through the input and replayed on the real Catalog.from_dataframe running on a deterministic fake multiprocessing runtime (random and depth-first-exhaustive schedules); C09 clauses evaluated on the real outcome and compared with TLC's terminal states; the event log of every run (queue puts/gets with record ids, process spawn/terminate/join/exit codes, pool.map calls and task failures, terminal state) validated step by step by TLC against spec/CreatePipelineTrace.tla",
        text="CreatePipeline.tla models sequential and multiprocessing catalog creation step by step (reader faults at any chunk, pool tasks putting parts on the queue, writer process init/get/finalise, context-manager exits, join, load) for every combination of length, chunk size, 1-3 workers, pre-existing path (absent, catalog, foreign directory, file, missing parent), overwrite flag, fault chunk, fault location (reader, pool worker, writer process) and empty centre; TLC proves FailStop, no hang (deadlock + liveness), UntouchedWithoutOverwrite, OnlyCatalogsDeleted, NoOpenableDirAfterFailure and ExactOnSuccess for the design and reproduces each defect of the code as found from a deviation flag. Each scenario class is run on the real library with faults injected through the input (NaN/inf cells, patch ids out of range, missing column, centre without objects) or, for faults inside a pool worker / the writer process, by making split_into_patches / CatalogWriter.process_patches raise at the marked record, under several schedules of the fake multiprocessing runtime (all schedules for the smallest scenarios); exception / exact deadlock / returned records, a byte-level snapshot of the path before and after, and what Catalog(path) opens afterwards decide the clauses. In the other direction the runtime's event log of each of these runs is checked by TLC against CreatePipelineTrace.tla (every put must be a whole part of the current chunk, every get the queue head, exit codes and the terminal state must be the spec's); corrupted copies (a record dropped from a part, a get removed, outcome flipped) must be rejected. Fault kinds include a NaN in a floating-point patch index column, a KeyboardInterrupt while a chunk is fetched and HDF5 columns longer than the others with a chunk size dividing the common length.",
        note="The fake multiprocessing primitives (Pool.map tasks as cooperative threads, Manager().Queue, Process with fork-copy and terminate) stand in for real processes; the repaired life cycle was additionally exercised once with real processes. A hang is an exact deadlock of the runtime, never a timeout.",
        ref="DESIGN.md 3.3, 4 C09",
    ),
    "C02": dict(
        engine="CreatePipeline+Reader",
        technique="TLC model checking of spec/CreatePipeline.tla (ExactOnSuccess over all fault-free scenarios and schedules) and spec/Reader.tla; every (L, chunksize, W) scenario replayed on the real Catalog.from_dataframe/from_file for each source format, dtype, optional-column combination, unit and patch mode on the deterministic multiprocessing runtime (random + depth-first-exhaustive schedules), per-patch record multisets compared with exact expectations",
        text="TLC proves for the pipeline design that a successful creation stored every record exactly once in its patch for all lengths 1..5(7), chunk sizes 1..3(4), 1..3(4) workers and every interleaving of pool tasks, queue and writer. Each scenario is then run on the real library from a data frame, HDF5, big-endian FITS and Parquet (random row-group layouts) with f8/f4/i8 columns, all four weight/redshift combinations, degrees or radian input and the three patch modes, under several schedules of the fake multiprocessing runtime (all schedules for the smallest scenarios, real processes with injected delays in the thorough tier). The oracle reads the records back from the returned catalog and from Catalog(cache): weights and redshifts bit-identical, coordinates within 2 ulp of the exact x*pi/180 (40-digit decimals), each record in the patch of its nearest given centre / named index, exactly once. Modes include centres given together with a stale, disagreeing patch column (documented: ignored), and the PatchWriter buffer size (hard-coded by from_*) is substituted by 1, 2, 3, 5 to exercise the modelled flush logic.",
        note="Schedules are explored on fake multiprocessing primitives; k-means patch creation (patch_num) is only checked for the union of all patches because the centres are not fixed by the property.",
        ref="DESIGN.md 3.3, 4 C02",
    ),
    "C07": dict(
        engine="CacheFS",
        technique="TLC model checking of spec/CacheFS.tla (tree-cache machine: reuse decision on the decoded binning file, rebuild protocol) over all crash-free histories of builds and measurements; histories (exhaustive short ones, TLC-simulated longer ones, interrupted builds, the deviation's counterexample) replayed on a real catalog cache with the cache state compared with the model after every operation",
        text="The tree cache of a patch is a small state machine: a measurement reuses cached trees iff the binning file decodes to exactly the requested binning (edges and closed side; an empty or one-byte file decodes to 'unbinned'), otherwise it rebuilds. TLC proves HistoryIndependent/NeverWrongTrees for every history of up to 4(5) operations over 5 binnings (none, A, A with the other closed side, other edges, other bin count) with forced and unforced builds, and produces a counterexample when the closed side is ignored. The histories are replayed on a real cache through Catalog.build_trees and autocorrelate/crosscorrelate (binned reference role and unbinned unknown role, catalog reopened at random): every measurement must equal, bit for bit, the one obtained in a NEW interpreter on a fresh copy of the cache (so nothing kept in memory between calls can hide in the reference), and the decoded binning file / content of trees.pkl / rebuild-vs-reuse decision must match the model. The alphabet of histories includes edges that differ by a relative 2e-6, interrupted builds, builds on real worker processes, measurements whose configurations share the binning but differ in scales or only in the parameters of a custom cosmology (also built from one shared ScalesConfig object), a second long-lived handle of the cache directory, a coarse binning whose edges are all edges of a cached finer one, and a strip of six small patches whose linkage differs between a high- and a low-redshift configuration of the same scales.",
        note="Input redshifts include values exactly on bin edges so that the closed side is observable; one cosmology and one scale set.",
        ref="DESIGN.md 3.4, 4 C07",
    ),
    "C08": dict(
        engine="CacheFS",
        technique="TLC model checking of spec/CacheFS.tla (one action per file-system syscall, Crash between any two, three machines: tree cache, catalog creation/overwrite, result-file triple); strace recordings of every real workload validated against CacheFSTrace by TLC (order of file operations); every syscall-prefix of every recording materialised and recovered with the real library",
        text="CacheFS.tla states the protocols crash safety rests on (binning marker removed before and written after the trees; patch index appears atomically and last; overwrite removes the whole old catalog first) and TLC checks NeverWrongTrees, CatalogAllOrNothing, ResultsOneGeneration for every crash point and recovery; deviation flags reproduce the code as found. Each workload (create, overwrite an existing catalog, first metadata computation, tree build and rebuild with other edges / closed side / forced / unbinned, CorrFunc.to_file, CorrData.to_files, each over several prior disk states) runs once for real under strace; the recorded syscalls on the cache tree must be a behaviour of the spec (TLC, with a swapped-syscall trace rejected as binding demonstration). Then for EVERY prefix of the recorded syscalls the surviving tree is rebuilt (tree model with inode semantics, equal byte for byte to the real end state; cross-checked against real SIGKILLs in the thorough tier) and reopened / measured / read back with the real library: the outcome must be an error or equal the completed or the never-started state. A creation brought down by KeyboardInterrupt or SystemExit while any chunk is fetched (the library's context managers run, then the process is gone) is judged by the same rule.",
        note="Process death is modelled as 'the completed syscalls survive, user-space buffers are lost'; power failure and page-cache effects are out of scope. Workloads are single-process (max_workers=1).",
        ref="DESIGN.md 3.4, 4 C08",
    ),
    "C01": dict(
        engine="Sky+PairIter+Progress",
        technique="TLC model checking of spec/Sky.tla (discrete sky: assignment, radii, pruning, (lo,hi] rule, per-cell weight-product sums) over every scenario of several configuration families, with the scale->angle conversion and the pruning angle taken from the real code as TLC constants; sampled scenarios and every TLC counterexample realised on the real sphere under rigid placements and measured with crosscorrelate/autocorrelate, counts compared cell by cell with TLC's exact integers; TLC enumeration of every behaviour of spec/Progress.tla (progress wrapper: clock patterns, failing source, ranks) replayed on the real Indicator with a scripted clock",
        text="Sky.tla places objects on a 72-slot ring (5 deg lattice) with 2-3 patch centres, 2 redshift bins, one or several (also overlapping / descending) scales in angular, physical and comoving units, weights, and checks for EVERY scenario of each family (10^3..10^5 each) that the conservative pruning of patch pairs loses no pair, that linkage is symmetric and reflexive, that the cells partition the in-scale pairs; it prints the exact expected count of every (scale, bin, patch pair) cell and the per-bin weight sums. Deviation flags (radii of one catalog only; pruning angle at the floored redshift) must produce counterexamples, which are replayed on the code. A stratified sample of scenarios of every family is created with Catalog.from_dataframe on the real sphere (equator, across RA=0, over both poles, tilted great circles) and measured; because every scale threshold lies between lattice distances the counts of cross-, auto- and data-random pairs and sum_weights1/2 must equal the model's integers exactly. PairIter.tla models iter_patch_id_pairs (set.pop as a free choice) for every symmetric reflexive link relation on 3(4) patches: each linked pair exactly once, upper triangle for auto; the real iterator is run on every relation and its output must be one of the orders TLC enumerates. Families also cover very extended patches (radius_i + radius_j + max angle beyond pi), binned objects exactly on bin edges for both closed sides and physical scales in a curved cosmology; the scale-to-angle constants of the model are computed from astropy directly. Every realisation also measures RD and RR against a copy of the reference sample as reference randoms, runs after a pre-history of the tree caches (other closed side, edges moved by 2e-6), and half of the scenarios whose unknown objects all have weight 1 create those catalogs without a weight column. Progress.tla models the Indicator wrapper every result of a progress=True run passes through (PassThrough, CompleteAtEnd, RaisePropagates for every pattern of clock advances, failing sources, root and other ranks); every terminal behaviour is replayed on the real class with a scripted timer and the items handed on must be the source's items, each once, in order.",
        note="Separations are multiples of 5 deg: geometry between lattice points (C14) is not exercised. Scenarios have 2-3 objects per catalog. With separation weighting TLC supplies the exact weight-product sum per lattice distance and the driver applies the power-law factor of the fine separation bin (plain float arithmetic, 1e-9 relative).",
        ref="DESIGN.md 3.5, 4 C01",
    ),
    "C10": dict(
        engine="Sky",
        technique="TLC enumeration (spec/Sky.tla, BinOf/TotalsAgree) of every placement of the binned objects over all redshift cells (below, on each edge, inside each bin, above) for both closed sides; every stratum realised with redshifts exactly on the float of the edge and four implementations of the rule (build_trees, measurement sum_weights, pair counts, HistData) compared with the model",
        text="The membership rule is one function of the spec (cell -> bin under the closed side); TLC enumerates all placements of 2(3) weighted objects over the 7 cells x 4 slots for closed=right and closed=left (12.5k scenarios each) and prints the expected per-bin, per-patch counts and weight sums. Each combination of cells is realised on real catalogs; BinnedTrees per-bin num_records/sum_weights, CorrFunc.dd.sum_weights, the pair counts and HistData.from_catalog must all equal the model, hence each other; patches or bins without objects must give zeros rather than exceptions. A third of the edge scenarios is repeated with two workers on the fake multiprocessing runtime, where binning and closed side cross a pickling boundary.",
        note="Two bins with edges (0.2, 0.5, 0.8); edge values are the floats the configuration itself holds.",
        ref="DESIGN.md 3.5, 4 C10",
    ),
    "C12": dict(
        engine="Sky",
        technique="TLC enumeration of 3-centre scenarios (spec/Sky.tla: Nearest, Members, NumRecords, SumW, Radius, MetaDescribesPatch); realisation with every order of the centre list, in patch-index and generated-centre mode, reload on the fake multiprocessing runtime; metadata compared with the model; refusal cases for misaligned catalogs",
        text="For every scenario of a family with three centres, single-object patches and unequal extents TLC prints per catalog and patch the record count, weight sum and radius in lattice steps. Scenarios are realised with the centres given in all 6 orders under 6 placements: keys must be 0..N-1, patch k must carry the k-th given centre, counts/weight sums equal, radius = k*delta to 1e-9, every record within the stored radius of the stored centre (independent great-circle routine), and nearest-reported-centre must reproduce the partition; the cache is reloaded with 3 workers under scrambled completion orders. Measurements must raise InconsistentPatchesError for differing patch id sets, swapped patches, centres farther apart than the radius (incl. a single-object patch of radius 0) and must accept aligned catalogs. A given centre that attracts no object is inserted at every list position: creation must refuse, and a catalog that comes back must still have patch i = centre i. Centres given together with a stale patch column must behave like centres alone; in a four-catalog crosscorrelate the misaligned catalog is put into every role, with and without a legitimately wide patch in another catalog.",
        note="k-means centres (patch_num) are not fixed by the property: only that the metadata describe the resulting patches.",
        ref="DESIGN.md 3.5, 4 C12",
    ),
    "C17": dict(
        engine="Containers",
        technique="TLC model checking of spec/Containers.tla (container algebra, indexing, compatibility on exact integers/rationals) with every enumerated history of public operations replayed step by step on the real classes",
        text="TLC proves the laws of the property (sum, scalar, equality, selection commuting with sampling and addition, patch-sum, iteration = indexing, accept-iff-valid) on exact rationals for all explored scenarios and histories up to depth 2 (quick) or 3 (thorough). Every one of those histories is executed on the real PatchedCounts, PatchedSumWeights, NormalisedCounts, CorrFunc, SampledData/CorrData with result, outcome class and purity of all operands compared after each step. Deviation configs reproduce each defect of the code as found as a TLC counterexample that is replayed on the code. Exhaustive within the bounds: up to 4 bins x 4 patches, count values 0-2, weights 1-2, 13 scalar classes, all ints from -n-1 to n as Python ints and as numpy integer scalars (int64, int32, intp, an element of arange) and 11 slice forms; get_array accessors; sums of operands with the same shape but another normalisation (rejected); equality on containers holding NaN in both argument orders; in-place accumulation (x += y, t = 0; t += a; t += b) with both operands unchanged; the set_patch_pair mutator inside observe-edit-observe histories (every later observation is the one of the updated value).",
        note="Trusted: TLC, the projection and builders in harness/containers.py (validated by corrupted-expectation demonstrations), float comparison at 1e-9 relative (counts exact). Exception types, empty selections and 0/0 cases are not judged.",
        ref="DESIGN.md 3.6, 4 C17",
    ),
    "C04": dict(
        engine="Containers",
        technique="TLC model checking of spec/Containers.tla (estimator choice, normaliser, n(z) formula, normalisation integral on exact rationals) with every enumerated scenario replayed on the real CorrFunc.sample / RedshiftData / HistData, plus end-to-end runs on measured pair counts",
        text="TLC checks NormaliserLaw (product of totals, half the squared total for auto, also for every leave-one-out sample), JackknifeShortcut, EstimatorLaw (Landy-Szalay with RD replaced by DR when missing, Davis-Peebles otherwise), RedshiftLaw and IntegralIsOne on exact rationals for all 7 member subsets x auto/cross x shapes x contents, and prints the expected value of every sample. Each scenario is built as real containers and CorrFunc.sample(), RedshiftData.from_corrfuncs/from_corrdata and normalised() are compared value by value and jackknife row by row; the same formulas are checked end-to-end on pair counts measured with crosscorrelate/autocorrelate for all random-catalog combinations. Member sets for which the property prescribes no formula accept 'formula or rejection'. The read accessors (get_array of every level, also through a CorrFunc's members) are an action of the model (exact rational arrays, GetArrayLaw) so that accessor-then-estimator histories are replayed and operand purity is compared after every step; scenarios include an empty redshift bin (NaN in real data containers); a finite real value where the property's formula is undefined (0/0) is a violation. The end-to-end runs compare the stored sums of weights with the totals computed from the catalogs' own records, with a patch that is empty in part of the redshift range.",
        note="Same trusted base as C17; the end-to-end reference evaluator is validated against TLC on every Sample case.",
        ref="DESIGN.md 3.6, 4 C04",
    ),
    "C16": dict(
        engine="RandomGen+RandomWindow+RandomGenAttrs",
        technique="TLC model checking of spec/RandomGen.tla (generator re-seeding and RandomReader / from_random size bookkeeping, random stream abstracted to tokens) and spec/RandomWindow.tla (cylindrical equal-area sampling on an exact rational grid); every enumerated history replayed on the real BoxRandoms / HealPixRandoms / RandomReader / Catalog.from_random with bit-exact comparison against a brand-new generator; recorded operation logs validated by TLC (RandomGenTrace)",
        text="TLC checks ExactSize, ReseedAtPassStart, Reproducible, ReseedRestores, SeedControlled, CreateNeverRejected and termination over all histories of <=4 (quick) / <=5 (thorough) public operations and over a size sweep of N x chunksize x patch_num x probe_size; seven named deviations each yield a counterexample. Every history (9k / 207k) is executed on the real library; each output is compared bit-exactly with its token realised on a brand-new generator; exact count, footprint and joint (weight, redshift) source row are the predicates. 100 grid windows (poles, RA<0, RA>360) are drawn and compared with TLC's exact cell fractions at 6 sigma; random long operation logs are validated by RandomGenTrace, a corrupted log is rejected. The seed value is part of the case analysis (real seed 0 is a seed, distinct from 'no seed'): every history starts with the construction, reseed(s) for 0 and non-zero seeds and reseed() occur at every point (SeedAsRequested, ConstructNeverRejected); an exception of a public constructor or call on a valid input is a violation, never a crash of the check. RandomGenAttrs.tla models the joint attribute draw over the container of the supplied samples (numpy array, pandas Series with default / permuted index, mixed containers); all (container x index permutation x drawn index) cases are evaluated on the real generators with the by-position joint-row predicate, and the container is a dimension of every generator configuration.",
        note="'Uniformly distributed in area' is statistical: decided only against gross deviations (6 sigma on 1e5/1e6 points per window), fine-scale uniformity and independence are not decided. numpy's Generator is trusted to be a deterministic function of its SeedSequence; harness/fakehealpy.py stands in for healpy (not installed) and is self-tested.",
        ref="DESIGN.md 3.3, 4 C16",
    ),
    "C03": dict(
        engine="Jackknife",
        technique="TLC model checking of spec/Jackknife.tla (sample_patch_sum step by step, weight-product matrix, ratio, estimator applied sample-wise, n(z), histogram resampling with pool schedules, covariance) against a from-scratch recomputation without patch k on exact rationals; every terminal behaviour replayed on the real containers/catalogs; measured pair counts validated by TLC (JackknifeTrace); end-to-end comparison with re-measurement after physically deleting patch k",
        text="TLC exhaustively checks JackknifeIsLeaveOneOut, FrameUnchanged, covariance well-formedness and termination over every pair-count array of small domains (2-4 patches, 1-3 bins, any sparsity), all weight-product and normalised-count cases (auto and cross), pseudo-random data for all defined CorrFunc member sets and redshift-estimate combinations, every per-patch histogram with every feasible pool schedule, and operation histories of 2-3 calls on the same objects. Every explored state is executed on real containers and catalogs and .data, each .samples row, .covariance and .error are compared with the model's exact rationals; end-to-end runs compare each product with a re-measurement after physically deleting patch k; covariance and error of tightly clustered samples (offset 1e4..1e7 with tiny scatter, identical rows, gridded catalogs) are compared with the jackknife formula evaluated in exact rational arithmetic; samples with an undefined entry must give an undefined covariance row and column; a histogram with one object of weight 1e18 must still leave the heavy patch out exactly. Nine deviation configs must yield counterexamples, which are replayed on the code.",
        note="Trusted: TLC, the driver's mapping of model integers to real objects, float comparison at 1e-9. Where the real statistic differs from the model (estimator / normalisation = C04's business) only the literal predicate 'sample k = the library's own statistic without patch k' decides. PSD-ness is a numeric eigvalsh side condition.",
        ref="DESIGN.md 3.5/3.6, 4 C03",
    ),
    "C11": dict(
        engine="Persist",
        technique="TLC model checking of spec/Persist.tla (write/read step machines of the five persistence paths over the enumerated structural case space, 15 deviation configs) + replay of every TLC terminal behaviour on the real to_file/from_file (to_files/from_files, Catalog(cache)) with projection of the real file onto the abstract file and a member-wise round-trip oracle",
        text="Persist.tla models CorrFunc through HDF5 (group per member, sparse pair storage), Configuration through YAML (custom-edges branch vs regeneration from zmin/zmax/num_bins/method/cosmology), CorrData/RedshiftData/HistData through the fixed-width text triple (loadtxt shape rule, decimals surviving the width-10 format), patch Metadata through YAML and a Catalog through its cache directory as write and read step sequences over an abstract file. TLC checks RoundTrip for every member subset x auto x bins x patches x 13 count patterns (all-zero, sparse, cancelling, negative, NaN, +-inf), every method x closed x unit x scale list x z-range x num_bins x weighting x cosmology incl. modified configurations, every class x bins >= 1 x samples x value class, for a single write and a write over a prior object; each named deviation must yield a counterexample. Every enumerated behaviour (4.4k quick, 45k thorough) is executed on the real library: the real file must project onto the model's file and the object read back must equal the original member by member (NaN-aware, bit-exact; text values to the precision computed by the spec; sample() and scale angles identical); every third text product is written to a prefix whose name contains a dot.",
        note="Each value class is instantiated by one concrete float (seeded variation in the thorough tier), behaviour assumed uniform within a class; h5py, PyYAML and numpy I/O are trusted; files are read back in the same process.",
        ref="DESIGN.md 3.6, 4 C11",
    ),
    "C13": dict(
        engine="Sky",
        technique="TLC model checking of the symmetry invariants of spec/Sky.tla (ring shift, reflection, weight scale, catalog split) on every scenario; metamorphic replay of TLC scenarios on the real sphere: rigid placements incl. both poles and the RA wrap, random rotation, shuffled rows in several chunks, all centre permutations, weight factors, catalog split, data-derived inherited centres",
        text="RotationInvariant, ReflectionInvariant, WeightScaling and SplitAdditive are invariants of the model's count function, checked by TLC for all scenarios of two small families; a family with 3+2(3) weighted objects supplies the scenarios that are realised. Each case (data from one scenario, randoms from another) is measured with crosscorrelate/autocorrelate untransformed and under 5 further rigid placements, one random rotation, two row shuffles (chunksize 2), every permutation of the centre list (jackknife samples must permute accordingly), weights x3 / x0.37, and a split of the unknown catalog (raw counts must add exactly); amplitudes, jackknife samples, covariance and the redshift estimate must agree to 1e-9 (entries that are undefined in one run - x/0 of a sample without random pairs - only have to stay degenerate). A dense case derives the centres from the data (patch index column), lets the other catalogs inherit them and rotates everything next to either pole. Weight factors include 3, 0.37 and exact powers of two down to 2^-40 / up to 2^40, alone and on both catalogs, so no absolute weight scale may enter; the Landy-Szalay estimate with both random catalogs is compared as well, and a weighted reference is scaled against an unknown sample that has no weight column.",
        note="The continuous rotation group is sampled (six placements of the 5-deg lattice plus random rotations), not enumerated.",
        ref="DESIGN.md 3.5, 4 C13",
    ),
    "C15": dict(
        engine="Config",
        technique="TLC model checking of spec/Config.tla (declarative parameter semantics vs an implementation-shaped operational model of create/modify/from_dict/to_dict/__eq__/angle conversion, 9 deviation configs); every enumerated history replayed on the real yaw.config classes with projection of the real objects onto the abstract state after each code step",
        text="TLC enumerates every parameter record of the slice domains (all binning methods incl. custom/invalid edges, both closed sides, all 8 units + an unknown one, single/multiple/overlapping/invalid scales, 10 cosmology argument classes, zmin = 0, edges=None) together with every history of up to 2 (quick) / 3 (thorough) modifications of up to 2 / 3 parameters each, and proves that the step-by-step design returns exactly the configuration the merged parameters declare and rejects exactly the declared-invalid ones. Each of the ~8.7k / ~94k histories is executed on the real library and compared after every operation: edge formula per method and cosmology, exact end points, scales, cosmology, workers, the sub-calls, angles vs astropy r/D(z), == of equal-parameter twins, dict/YAML rebuild and bit-identity of the original. Deviation configs reproduce every defect of the code as found; each counterexample is replayed on the code. Cosmology objects include curved LambdaCDM models and a custom cosmology whose angular diameter distance is unrelated to comoving/(1+z) (expected angle = r/D(z) with D the spec-named method of that object, cross-checked against an own Friedmann integral); configurations are also built with the public constructor from the parts objects of another configuration with another cosmology, and every angle conversion is observed repeatedly on donor and new object in both orders and must be pure.",
        note="Edges are matched against the formula with tolerances (exact for linear/custom, 1e-9 logspace, 1e-6 comoving interior edges; end points exactly); expected distances come from astropy and an independent brentq inversion; values lie on a small grid (z in 1/100, Planck15, WMAP9, one unnamed FLRW, one float-returning CustomCosmology).",
        ref="DESIGN.md 3.6, 4 C15",
    ),
}

NOT_YET = "machinery for this property is not built yet in this round (planned, see DESIGN.md section 10)"
NA = {
    "C14": "floating-point accuracy of spherical geometry over a continuum: nothing a TLA+ state machine over integers can decide (DESIGN.md section 5)",
}


def main() -> None:
    checks = []
    engines = {}
    for pid in ALL:
        if pid not in CHECKS:
            continue
        c = CHECKS[pid]
        checks.append(
            dict(
                property_id=pid,
                quick_cmd=f"./check {pid} --tier quick",
                thorough_cmd=f"./check {pid} --tier thorough",
                evidence_file=f"/verif/evidence/{pid}.json",
                replay_cmd_template=f"./check {pid} --replay {{path}}",
                engine=c["engine"],
                level_claimed=dict(category="model_checking", text=c["text"], design_ref=c["ref"]),
                level_note=c["note"],
                technique=c["technique"],
            )
        )
        for eng in c["engine"].split("+"):
            engines.setdefault(eng, []).append(pid)
    na = []
    for pid in ALL:
        if pid in CHECKS:
            continue
        na.append(dict(property_id=pid, reason=NA.get(pid, NOT_YET)))
    manifest = dict(
        version=1,
        setup_cmd="./setup.sh",
        hooks=dict(
            guard="YAW_VERIF",
            enable="no source hooks are needed: observation is done by fake modules (mpi4py, multiprocessing primitives), attribute wrapping in the harness process and strace; checks import yaw from /repo/src (current working tree)",
            baseline_off_cmd=BASELINE_OFF,
            source_commits=[],
            add_only=True,
        ),
        engines=[
            dict(name=name, path=f"spec/{name}.tla", serves_properties=props,
                 kind_free_text="TLA+ specification checked with TLC, bound to the implementation by replay / trace validation")
            for name, props in sorted(engines.items())
        ],
        checks=checks,
        notes="Model-based verification with explicit TLA+ specifications (spec/*.tla) checked with TLC; harness/ binds them to the code. known_findings.json lists genuine defects (open) and repaired ones (fixed).",
        not_applicable=na,
    )
    (VERIF / "MANIFEST.json").write_text(json.dumps(manifest, indent=1) + "\n")


if __name__ == "__main__":
    main()
