#!/usr/bin/env python3
"""Run every seeded defect against the check of its property (and extra checks where
noted) and record the outcome in seeded/<name>/meta.json and seeded/MATRIX.md."""
import json
import os
import subprocess
import sys
from concurrent.futures import ThreadPoolExecutor
from pathlib import Path

VERIF = Path(__file__).resolve().parent.parent
SEEDED = VERIF / "seeded"
EXTRA = {  # seeds that other checks should see as well
    "C07-B": ["C08"], "C10-A": ["C07"], "C12-A": ["C05"], "C13-A": ["C12", "C02"], "C03-A": ["C17", "C04"], "C03-B": ["C04"],
    "C11-B": ["C15"], "C01-C": ["C07", "C10"], "C04-C": ["C05", "C01"], "C05-D": ["C07"], "C07-C": ["C08"], "C13-C": ["C01", "C12"],
    "C12-C": ["C01"], "C18-C": ["C16"], "C16-C": ["C18"], "C02-C": ["C05", "C12"], "C02-D": ["C18"], "C08-C": ["C07"], "C15-B": ["C11"], "C01-A": ["C05"], "REVERT-H1_corrfunc_to_hdf_names": ["C03"],
    # round 3
    "C01-F": ["C10"], "C02-E": ["C16", "C18"], "C05-F": ["C07"], "C08-E": ["C09"], "C12-E": ["C09"], "C10-E": ["C05", "C07"], "C10-F": ["C07"],
    "C07-F": ["C10"], "C04-E": ["C17"],
    # round 4
    "C01-G": ["C07", "C15"], "C01-H": ["C07", "C08"], "C04-G": ["C11"], "C11-G": ["C15"], "C12-H": ["C02"], "C13-G": ["C01", "C05"],
    "C13-H": ["C02"], "C18-H": ["C09"], "C03-H": ["C05"], "C05-H": ["C12"],
    # round 5
    "C03-I": ["C17"], "C04-I": ["C17"], "C05-J": ["C12"], "C08-J": ["C09"], "C08-I": ["C09"], "C10-I": ["C01"], "C13-J": ["C01"],
    # round 6
    "C03-L": ["C04"], "C04-K": ["C08"], "C04-L": ["C17"], "C07-L": ["C11", "C12"], "C09-K": ["C12"], "C09-L": ["C02"], "C10-K": ["C08"],
    "C10-L": ["C07"], "C11-L": ["C15"], "C13-K": ["C01"], "C03-K": ["C04"],
    # round 7
    "C09-M": ["C02", "C12"], "C08-M": ["C11"], "C12-M": ["C07"], "C13-M": ["C12", "C01"], "C01-M": ["C12"], "C04-M": ["C03", "C17"], "C03-M": ["C17"], "C18-M": ["C02"], "C02-M": ["C07"],
}


def run(name):
    meta = json.loads((SEEDED / name / "meta.json").read_text())
    props = [meta["property"]] + EXTRA.get(name, [])
    env = dict(os.environ, VERIF_TLC_WORKERS="4")
    p = subprocess.run([sys.executable, str(VERIF / "tools/seedtool.py"), "run", name, *props], capture_output=True, text=True, env=env)
    res = {}
    keys = {}
    cur = None
    for line in p.stdout.splitlines():
        parts = line.split()
        if len(parts) >= 4 and parts[0] == name and parts[3] in ("DETECTED", "MISSED", "MACHINERY"):
            cur = parts[1]
            res[cur] = parts[3]
        elif cur and "key=" in line:
            keys.setdefault(cur, []).append(line.strip().split(" cases=")[0].replace("key=", ""))
        elif "patch does not apply" in line:
            res["_"] = "PATCH_DOES_NOT_APPLY"
    meta["detected_by"] = {k: dict(verdict=v, keys=keys.get(k, [])[:4]) for k, v in res.items()}
    (SEEDED / name / "meta.json").write_text(json.dumps(meta, indent=1) + "\n")
    return name, meta["property"], res, keys


def main():
    names = sorted(d.name for d in SEEDED.iterdir() if (d / "patch.diff").exists())
    if len(sys.argv) > 1:
        names = [n for n in names if any(n.startswith(a) for a in sys.argv[1:])]
    with ThreadPoolExecutor(max_workers=int(os.environ.get("SEED_MATRIX_JOBS", "3"))) as ex:
        rows = list(ex.map(run, names))
    lines = ["# Seeded defects x checks", "", "| seed | property | check verdicts | first keys |", "|---|---|---|---|"]
    for name, prop, res, keys in rows:
        lines.append(f"| {name} | {prop} | " + ", ".join(f"{k}: {v}" for k, v in res.items()) + " | " + "; ".join(k for ks in keys.values() for k in ks[:1]) + " |")
    out = SEEDED / "MATRIX.md"
    if len(sys.argv) > 1 and out.exists():
        print("\n".join(lines[4:]))
    else:
        out.write_text("\n".join(lines) + "\n")
    print("\n".join(lines))


if __name__ == "__main__":
    main()
