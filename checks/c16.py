"""C16 - random catalogs: exact size, footprint, joint attributes, reproducible by seed.

Specs     : spec/RandomGen.tla     generator re-seeding + reader size bookkeeping; one action
                                   per public operation / code step of randoms.py,
                                   catalog/readers.py:RandomReader, Catalog.from_random;
                                   the random stream is abstracted to TOKENS
                                   <<seed, spawn, glob, sizes drawn since reseed, n>>.
                                   The seed VALUE is part of the case analysis: Seeds = {0, 1, 2} where 0
                                   IS the real seed 0 (falsy edge value), 1/2 are mapped to real non-zero
                                   seeds; NoSeed = -1 is reseed() without argument.  Every history starts
                                   with the construction Construct(s) ("new", s in InitSeeds).
            spec/RandomWindow.tla  cylindrical equal-area sampling on an exact rational grid
                                   (declinations with rational sines): footprint + area law.
            spec/RandomGenTrace.tla trace validation of recorded operation logs.
            spec/RandomGenAttrs.tla the joint attribute draw: both sample sets are converted to arrays at construction,
                                   one index, both lookups by position - whatever CONTAINER each set was passed in
                                   (numpy array, pandas Series with default / permuted / other index, list, tuple; all
                                   pairs); deviations LookupAsPassed (code before fix R3), WeightsCastAtConstruction
                                   (seed C16-K); every case is evaluated on the real generators; the containers are also
                                   a dimension of the generator configurations all histories / traces run on.
TLC       : ideal design (Deviations = {}) passes ExactSize, ReseedAtPassStart, Reproducible,
            ReseedRestores, SeedAsRequested, SeedControlled, CreateNeverRejected,
            ConstructNeverRejected, Termination over ALL histories of a construction (every seed of
            InitSeeds = {0, 1}) + <= MaxOps public operations (reseed(s) for every s of Seeds and
            reseed()) for every scenario (N, chunksize, patch_num, probe_size); every deviation
            config yields its counterexample (FalsySeedIsNoSeed = seed C16-E: two counterexamples,
            reseed(0) keeps the old seed / the constructor raises for seed 0).
spec->code: every complete history TLC prints (operation, expected outcome, expected tokens,
            expected generator events) is executed on the REAL BoxRandoms / HealPixRandoms /
            RandomReader / Catalog.from_random (history tree walked depth first on deep copies
            of the real objects).  A token is realised on a brand-new real generator (same
            seed, direct calls of the sizes in the token); the arrays must be bit-identical.
            TLC's window/cell cases are drawn from the real BoxRandoms.
code->spec: random long operation sequences (realistic sizes) are executed on the real code,
            the recorded operation log is validated by TLC (RandomGenTrace) and the tokens of
            the accepted behaviour are compared with the real arrays.
oracle    : (only these raise a VIOLATION) number of points == requested; every point inside the
            window / unmasked pixels; every (weight, redshift) is a row of the source arrays;
            points == points of a fresh generator with the same seed (if the constructor itself
            raises for that seed: of an unused generator that got the seed by reseed(seed)); a valid
            request is not refused - any exception of a public constructor / call on a valid input is
            a violation `C16|<entry point>|<input class, e.g. seed=0>|raises_<Type>`, never a crash
            of the check; cell fractions within 6 sigma of TLC's exact rationals (gross non-uniformity).
"""

from __future__ import annotations

from harness import fakehealpy

fakehealpy.install()  # must precede the first import of yaw (HEALPY_ENABLED is decided at import)

import copy  # noqa: E402
import functools  # noqa: E402
import json  # noqa: E402
import math  # noqa: E402
import os  # noqa: E402
import random  # noqa: E402
import re  # noqa: E402
import shutil  # noqa: E402
import tempfile  # noqa: E402
import time  # noqa: E402
import traceback  # noqa: E402
from pathlib import Path  # noqa: E402

import numpy as np  # noqa: E402

from harness import data, tlc  # noqa: E402
from harness.yawenv import scratch  # noqa: E402

DEFAULT_CHUNK = 16_777_216
ALL_OPS = ("call", "frame", "reseed", "reader", "probe", "iter", "abandon", "from_random")
IDEAL_INVS = ["TypeOK", "ExactSize", "ReseedAtPassStart", "Reproducible", "ReseedRestores", "SeedAsRequested", "SeedControlled",
              "CreateNeverRejected", "ConstructNeverRejected"]
NOSEED = -1            # RandomGen!NoSeed: reseed() without argument
UNKNOWN_SEED = -9      # a real seed that is not in the world's seed map (never matches an event of the spec)
SPEC_SEEDS = (0, 1, 2)  # RandomGen!Seeds: 0 is the real seed 0, 1 and 2 are mapped to real non-zero seeds per world
INIT_SEEDS = (0, 1)    # RandomGen!InitSeeds of the enumerated histories: construction with seed 0 and with a non-zero seed
REF_SEED = 0x5EED5EED  # seed of the unused generator on which a reference is built by reseed(s) if Randoms(seed=s) raises
# deviation label -> (scenario, ops, invariants one of which must be violated[, dict(dev=deviation name, init_seeds=...)])
DEVIATIONS = {
    "ModuloLastChunk": (dict(kind="box", N=4, C=2, k=0, p=0), ALL_OPS, {"ExactSize"}),
    "StatefulSeeder": (dict(kind="box", N=3, C=2, k=0, p=0), ("reader", "iter", "from_random", "probe"),
                       {"Reproducible", "SeedControlled", "ReseedRestores"}),
    "NoReseedAtIter": (dict(kind="box", N=3, C=2, k=0, p=0), ALL_OPS, {"ReseedAtPassStart", "Reproducible"}),
    "NoReseedAtProbe": (dict(kind="box", N=12, C=5, k=1, p=10), ALL_OPS, {"ReseedAtPassStart", "Reproducible"}),
    "NoPosResetAtIter": (dict(kind="box", N=3, C=2, k=0, p=0), ALL_OPS, {"ExactSize"}),
    "ProbeBoundedByRecords": (dict(kind="box", N=12, C=5, k=1, p=0), ALL_OPS, {"CreateNeverRejected"}),
    "GlobalPixelRng": (dict(kind="healpix", N=3, C=2, k=0, p=0), ALL_OPS, {"Reproducible", "SeedControlled", "ReseedRestores"}),
    # seed 0 treated as "no seed given": silently (reseed(0) keeps the old seed) and loudly (constructor raises)
    "FalsySeedIsNoSeed": (dict(kind="box", N=3, C=2, k=0, p=0), ALL_OPS, {"ReseedRestores", "SeedAsRequested"}, dict(init_seeds=(1,))),
    "FalsySeedIsNoSeed@constructor": (dict(kind="box", N=3, C=2, k=0, p=0), ALL_OPS, {"ConstructNeverRejected"},
                                      dict(dev="FalsySeedIsNoSeed", init_seeds=(0,))),
}
# design variants of the rule for probes larger than the catalog (selected by detect_probe_rule)
PROBE_RULES = ("ProbeBoundedByRecords", "ProbeClampedToRecords", "DefaultProbeClampedToRecords")

MC_TEMPLATE = """---- MODULE RandomGen_MC ----
EXTENDS RandomGen, Json
ScenariosDef == {%s}
DefProbeDef == %s
(* PrintDone of RandomGen, serialised as JSON (one line per complete history) *)
PrintJson == Done => PrintT(<<"histj", ToJson([sc |-> sc, hist |-> hist])>>)
====
"""
WIN_MC = """---- MODULE RandomWindow_MC ----
EXTENDS RandomWindow
RaGridDef == {%s}
DecGridDef == {%s}
====
"""


def def_probe(k: int) -> int:
    """create_patch_centers: int(100_000 * np.sqrt(patch_num))"""
    return int(100_000 * np.sqrt(k))


def sc_tla(s: dict) -> str:
    return '[kind |-> "%s", N |-> %d, C |-> %d, k |-> %d, p |-> %d]' % (s["kind"], s["N"], s["C"], s["k"], s["p"])


def sc_key(s: dict) -> tuple:
    return (s["kind"], s["N"], s["C"], s["k"], s["p"])


def tla_set(xs) -> str:
    return "{" + ", ".join(str(x) if not isinstance(x, str) else f'"{x}"' for x in xs) + "}"


def gen_constants(scenarios, *, dev, ops, max_ops, call_sizes, probe_sizes, frame_sizes=(3,), seeds=SPEC_SEEDS, init_seeds=INIT_SEEDS):
    ks = sorted({s["k"] for s in scenarios if s["k"] > 0} | {1})
    defprobe = "(" + " @@ ".join(f"{k} :> {def_probe(k)}" for k in ks) + ")"
    mod = MC_TEMPLATE % (", ".join(sc_tla(s) for s in scenarios), defprobe)
    consts = dict(Scenarios="<- ScenariosDef", DefProbe="<- DefProbeDef", Seeds=tla_set(seeds), InitSeeds=tla_set(init_seeds), CallSizes=tla_set(call_sizes), FrameSizes=tla_set(frame_sizes),
                  ProbeSizes=tla_set(probe_sizes), Ops=tla_set(ops), MaxOps=max_ops, DefaultChunk=DEFAULT_CHUNK,
                  Deviations=tla_set(sorted(dev)))
    return mod, consts


def gen_job(label, scenarios, *, dev=(), ops=ALL_OPS, max_ops, call_sizes=(0, 3), probe_sizes=(2, 7), frame_sizes=(3,),
            invariants=IDEAL_INVS, print_hist=False, liveness=True, coverage=False, init_seeds=INIT_SEEDS) -> dict:
    """A TLC run of RandomGen, described; executed by run_jobs (several at a time)."""
    mod, consts = gen_constants(scenarios, dev=dev, ops=ops, max_ops=max_ops, call_sizes=call_sizes, probe_sizes=probe_sizes,
                                frame_sizes=frame_sizes, init_seeds=init_seeds)
    cfg = tlc.make_cfg(constants=consts, invariants=list(invariants) + (["PrintJson"] if print_hist else []),
                       properties=["Termination"] if liveness else [], deadlock=True)
    return dict(label=label, cfg=cfg, mod=mod, coverage=coverage,
                info=dict(scenarios=len(scenarios), MaxOps=max_ops, Deviations=sorted(dev), Ops=list(ops), Seeds=list(SPEC_SEEDS),
                          InitSeeds=list(init_seeds)))


def run_jobs(ctx, jobs: list, parallel: int = 4) -> list:
    from concurrent.futures import ThreadPoolExecutor

    def one(job):
        return tlc.run("RandomGen_MC", job["cfg"], coverage=job["coverage"], extra_modules={"RandomGen_MC": job["mod"]},
                       timeout=3000, workers=4)

    with ThreadPoolExecutor(max_workers=parallel) as ex:
        results = list(ex.map(one, jobs))
    for job, res in zip(jobs, results):
        ctx.add_tlc(job["label"], res, constants=job["info"])
    return results


# ---------------------------------------------------------------------------
# history tries
# ---------------------------------------------------------------------------


def entry_key(e: dict) -> tuple:
    return (e["op"], e["a"], e["out"], len(e["res"]), len(e["pr"]))


class Node:
    __slots__ = ("entry", "children")

    def __init__(self, entry=None) -> None:
        self.entry = entry
        self.children: dict = {}


def norm_tok(t) -> tuple:
    return (t[0], t[1], t[2], tuple(t[3]), t[4])


def norm_entry(e: dict) -> dict:
    return dict(op=e["op"], a=e["a"], out=e["out"], pr=tuple(norm_tok(t) for t in e["pr"]),
                res=tuple(norm_tok(t) for t in e["res"]), ev=tuple(tuple(x) for x in e["ev"]))


_RE_HISTJ = re.compile(r'^<<"histj", "(.*)">>$', re.M)


def printed_hist(res) -> list:
    """[(sc, hist)] printed by PrintJson of a TLC run, parsed once."""
    if getattr(res, "_c16_hist", None) is None:
        out = []
        for line in _RE_HISTJ.findall(res.out):
            doc = json.loads(json.loads('"' + line + '"'))
            out.append((doc["sc"], [norm_entry(e) for e in doc["hist"]]))
        res._c16_hist = out
    return res._c16_hist


def build_tries(printed) -> dict:
    """{scenario key: (scenario, root Node)} from PrintT(<<"hist", sc, hist>>) values."""
    tries: dict = {}
    for sc, hist in printed:
        key = sc_key(sc)
        if key not in tries:
            tries[key] = (dict(sc), Node())
        node = tries[key][1]
        for e in hist:
            k = entry_key(e)
            nxt = node.children.get(k)
            if nxt is None:
                nxt = node.children[k] = Node(e)
            node = nxt
    return tries


def count_nodes(node: Node) -> int:
    return sum(1 + count_nodes(c) for c in node.children.values())


# ---------------------------------------------------------------------------
# the real world: generator configurations and property predicates
# ---------------------------------------------------------------------------

# real seeds of the spec's abstract non-zero seeds 1 and 2 (the spec's seed 0 is the real seed 0 in every world)
SEED_PAIRS = [(12345, 2**32 - 1), (1, 2**32), (2**63, 7), (2**64 + 11, 1), (4711, 2024), (1, 2), (987654321, 2**31)]
# (ra_min, ra_max, dec_min, dec_max) in degrees, class label
BOX_WINDOWS = [
    ((0.0, 40.0, -20.0, 20.0), "generic"),
    ((0.0, 360.0, -90.0, 90.0), "full_sky_both_poles"),
    ((350.0, 370.0, 60.0, 90.0), "ra_beyond_360,north_pole"),
    ((-10.0, 10.0, -90.0, -80.0), "negative_ra,south_pole"),
    ((0.0, 360.0, 89.9999, 90.0), "tiny_polar_cap"),
    ((120.5, 120.5000001, 10.0, 10.0000001), "tiny_box"),
    ((200.0, 200.0, -5.0, 5.0), "zero_width_ra"),
    ((10.0, 20.0, 33.0, 33.0), "zero_height_dec"),
]
ATTR_KINDS = ["wz", "none", "w", "z"]
CONTAINERS = ("ndarray", "series", "series_perm", "series_other", "list", "tuple")  # RandomGenAttrs!Containers
# container of the attribute samples per box configuration (window i): [attrs "wz" (j = 0), varying attrs (j = 1)]
# (a third of them pandas Series: every draw from a Series costs ~15x the draw from an array inside pandas)
BOX_CONTAINERS = [("ndarray", "series_perm"), ("series", "list"), ("series_perm", "series_other"), ("series_perm", "tuple"),
                  ("series_perm+ndarray", "ndarray"), ("list", "series_perm"), ("ndarray+series_perm", "series_other+list"),
                  ("ndarray", "series")]
HP_CONTAINERS = ("ndarray", "series_perm", "series")
_TRACED: dict = {}


def traced_class(base):
    """Subclass of a real generator class that logs reseed()/__call__() events."""
    if base in _TRACED:
        return _TRACED[base]

    class Traced(base):  # type: ignore[misc, valid-type]
        def reseed(self, seed=None):
            self.__dict__.setdefault("_vlog", []).append(("reseed", None if seed is None else int(seed), None))
            return super().reseed(seed)

        def __call__(self, probe_size):
            out = super().__call__(probe_size)
            self.__dict__.setdefault("_vlog", []).append(("call", int(probe_size), out))
            return out

    Traced.__name__ = base.__name__
    Traced.__qualname__ = base.__qualname__
    _TRACED[base] = Traced
    return Traced


def take_log(gen) -> list:
    log = gen.__dict__.get("_vlog", [])
    gen.__dict__["_vlog"] = []
    return log


class World:
    """One generator configuration (kind, footprint, attribute sources) and the
    mapping of the spec's abstract seeds to real seeds."""

    def __init__(self, yaw, root: Path, idx: int, *, kind="box", window=None, wclass="", attrs="wz", nsrc=7,
                 seedpair=(12345, 2**32 - 1), healpix=None, container="ndarray", index=None) -> None:
        self.yaw = yaw
        self.root = root
        self.idx = idx
        self.kind = kind
        self.window = window
        self.wclass = wclass
        self.attrs = attrs
        self.seedmap = {0: 0, 1: seedpair[0], 2: seedpair[1]}
        self.seedinv = {v: k for k, v in self.seedmap.items()}
        assert len(self.seedinv) == 3 and REF_SEED not in self.seedinv
        self.pending = Findings()   # verdicts found while building references (moved to the caller's sink by exec_entry)
        self.ctor_broken: dict = {}  # real seed -> exception of Randoms(..., seed=real)
        self.ref_route: dict = {}   # real seed -> how the reference generator was obtained
        srng = np.random.default_rng(1000 + idx)
        # distinct values; row i pairs weight i with redshift perm[i]: a (w, z) pair identifies its row
        self.w_src = (1.0 + np.arange(nsrc) + srng.uniform(0.0, 0.5, nsrc)) if "w" in attrs else None
        if "w" in attrs and idx % 3 == 1:
            self.w_src = (1 + np.arange(nsrc)).astype(np.int64)  # integer source array
        self.z_src = (0.05 + 0.01 * srng.permutation(nsrc) + srng.uniform(0.0, 0.005, nsrc)) if "z" in attrs else None
        if "z" in attrs and idx % 4 == 2:
            self.z_src = self.z_src.astype(np.float32)
        self.rows = None
        if self.w_src is not None and self.z_src is not None:
            self.rows = {(float(w), float(z)) for w, z in zip(self.w_src, self.z_src)}
        # the CONTAINER the samples are passed in (RandomGenAttrs): w_src / z_src stay the table BY POSITION (the oracle)
        cw, _, cz = container.partition("+")  # "kind" (both sample sets) or "kind of weights+kind of redshifts"
        self.containers = dict(weights=cw, redshifts=cz or cw)
        assert set(self.containers.values()) <= set(CONTAINERS), container
        self.container = container
        self.index = None
        if "series_perm" in self.containers.values():  # integer index = a permutation of 0..n-1, not the identity (if n > 1)
            perm = np.asarray(index) if index is not None else srng.permutation(nsrc)
            if index is None and nsrc > 1 and np.array_equal(perm, np.arange(nsrc)):
                perm = np.roll(perm, 1)
            assert sorted(perm.tolist()) == list(range(nsrc))
            self.index = perm
        self.healpix = healpix
        from yaw import randoms

        if kind == "box":
            self.cls = traced_class(randoms.BoxRandoms)
            self.clsname = "BoxRandoms"
        else:
            self.cls = traced_class(randoms.HealPixRandoms)
            self.clsname = "HealPixRandoms"
            hp = healpix
            vals = np.asarray(hp["values"], dtype=float)
            nside = fakehealpy.npix2nside(len(vals))
            nest = np.arange(len(vals))
            vals_nest = vals if hp["nested"] else vals[fakehealpy.nest2ring(nside, nest)]
            self.hp_nside = nside
            self.hp_unmasked = set(np.nonzero(vals_nest)[0].tolist())
        self._cache: dict = {}
        self._centers = None

    # -- construction ---------------------------------------------------
    def describe(self) -> dict:
        d = dict(kind=self.kind, attrs=self.attrs, seeds=self.seedmap, nsrc=None if self.w_src is None and self.z_src is None else
                 len(self.w_src if self.w_src is not None else self.z_src), container=self.container,
                 dtypes=[str(x.dtype) for x in (self.w_src, self.z_src) if x is not None])
        if self.index is not None:
            d["series_index"] = self.index.tolist()[:16]
        if self.kind == "box":
            d["window_deg"] = list(self.window)
            d["window_class"] = self.wclass
        else:
            d["healpix"] = dict(nside=self.hp_nside, nested=self.healpix["nested"], is_mask=self.healpix["is_mask"],
                                unmasked=sorted(self.hp_unmasked))
        return d

    def new_gen(self, real_seed: int, keep_log: bool = False):
        """The public constructor (may raise: callers go through lib() / fresh())."""
        kw = dict(weights=self.wrap(self.w_src, "weights"), redshifts=self.wrap(self.z_src, "redshifts"), seed=real_seed)
        if self.kind == "box":
            g = self.cls(*self.window, **kw)
        else:
            hp = self.healpix
            g = self.cls(np.asarray(hp["values"], dtype=float), nested=hp["nested"], is_mask=hp["is_mask"], **kw)
        if not keep_log:
            take_log(g)
        return g

    def wrap(self, values, name):
        """The attribute samples in the container of this configuration (a new object per generator)."""
        if values is None:
            return None
        kind = self.containers[name]
        if kind == "ndarray":
            return values.copy()
        if kind in ("list", "tuple"):
            return values.tolist() if kind == "list" else tuple(values.tolist())
        import pandas as pd

        if kind == "series":
            return pd.Series(values.copy(), name=name)
        if kind == "series_perm":
            return pd.Series(values.copy(), index=self.index.copy(), name=name)
        # series_other: labels that are not 0..n-1 (a filtered frame / string labels)
        n = len(values)
        return pd.Series(values.copy(), index=[f"r{k}" for k in range(n)] if self.idx % 2 else [5 + 3 * k for k in range(n)], name=name)

    def ctor_text(self, real_seed) -> str:
        if self.kind == "box":
            return f"BoxRandoms({', '.join(map(str, self.window))}, seed={real_seed})"
        return f"HealPixRandoms(<{len(self.healpix['values'])} pixel values>, nested={self.healpix['nested']}, seed={real_seed})"

    def ctor_failed(self, real_seed, exc, sink) -> None:
        """Randoms(..., seed=real_seed) raised on a valid input: a violation (the constructor is not tried
        again for references of this world; every request of such a reference reports it again)."""
        self.ctor_broken[real_seed] = exc
        sink.violation(f"C16|{self.clsname}.__init__|{seed_class(real_seed)}|raises_{type(exc).__name__}",
                       dict(world=self.describe(), seed=real_seed, reproducer=self.ctor_text(real_seed), error=repr(exc),
                            traceback=tb_text(exc)))

    def fresh(self, seed_abs: int):
        """A brand-new generator with the (abstract) seed for a reference, or None.  If the constructor
        raises for this seed (a violation of its own), the reference is a generator that was given the
        seed by the other public route: reseed(seed) on an unused generator of an unrelated seed."""
        real = self.seedmap[seed_abs]
        if real in self.ctor_broken:
            self.ctor_failed(real, self.ctor_broken[real], self.pending)
        else:
            try:
                g = self.new_gen(real)
                self.ref_route[real] = "constructor"
                return g
            except Exception as exc:  # noqa: BLE001 - reported as a violation
                self.ctor_failed(real, exc, self.pending)
        try:
            g = self.new_gen(REF_SEED)
            g.reseed(real)
            take_log(g)
            self.ref_route[real] = f"constructor raises: reseed({real}) on an unused generator of seed {REF_SEED}"
            return g
        except Exception as exc:  # noqa: BLE001 - reported as a violation
            self.pending.violation(f"C16|{self.clsname}.reseed|{seed_class(real)}|raises_{type(exc).__name__}",
                                   dict(world=self.describe(), seed=real, error=repr(exc), traceback=tb_text(exc),
                                        note="while building the reference generator"))
            return None

    def centers(self, n: int = 1):
        """n patch centres inside the footprint (one centre: no patch can stay empty)."""
        if self._centers is None:
            if self.kind == "box":
                r1, r2, d1, d2 = self.window
                pts = [[r1 + 0.25 * (r2 - r1), d1 + 0.25 * (d2 - d1)], [r1 + 0.75 * (r2 - r1), d1 + 0.75 * (d2 - d1)]]
            else:
                pix = sorted(self.hp_unmasked)
                lon, lat = fakehealpy.pix2ang(self.hp_nside, np.array([pix[0], pix[-1]]), nest=True, lonlat=True)
                pts = [[lon[0], lat[0]], [lon[1], lat[1]]]
            self._centers = np.deg2rad(np.array(pts))
        return lib(self.yaw.AngularCoordinates, self._centers[:n])

    # -- tokens ---------------------------------------------------------
    def realisable(self, tok) -> bool:
        return tok[1] == 0 and tok[2] == 0

    def realise(self, tok):
        """The array a brand-new generator with the token's seed returns for the
        token's call (after direct calls of the sizes in ``used``); None if the library
        cannot produce the reference (reported as a violation of its own)."""
        seed, spawn, glob, used, n = tok
        key = (seed, tuple(used), n)
        if key not in self._cache:
            if len(self._cache) > 20000:
                self._cache.clear()
            g = self.fresh(seed)
            ref = None
            if g is not None:
                try:
                    for m in used:
                        g(m)
                    ref = g(n)
                except Exception as exc:  # noqa: BLE001 - reported as a violation
                    self.pending.violation(f"C16|{self.clsname}.__call__|reference,{seed_class(self.seedmap[seed])}|raises_{type(exc).__name__}",
                                           dict(world=self.describe(), token=list(tok), error=repr(exc), traceback=tb_text(exc)))
            if ref is None:
                return None
            self._cache[key] = ref
        return self._cache[key]

    def differs(self, arr, tok) -> bool:
        """arr is NOT what a brand-new generator with the token's seed returns (False if no reference)."""
        ref = self.realise(tok)
        return ref is not None and not same(arr, ref)

    def seed_sfx(self, tok) -> str:
        """input class suffix of a reproducibility finding: the edge-value seed 0 is a class of its own"""
        return ",seed=0" if self.seedmap.get(tok[0]) == 0 else ""

    def ref_note(self, tok) -> str:
        return self.ref_route.get(self.seedmap.get(tok[0]), "constructor")

    # -- property predicates on real output -------------------------------
    def footprint_bad(self, ra, dec) -> str | None:
        ra = np.asarray(ra, dtype=float)
        dec = np.asarray(dec, dtype=float)
        if len(ra) == 0:
            return None
        if not (np.all(np.isfinite(ra)) and np.all(np.isfinite(dec))):
            return "non_finite_coordinates"
        if self.kind == "box":
            r1, r2, d1, d2 = (math.radians(x) for x in self.window)
            two_pi = 2.0 * math.pi
            width = r2 - r1
            if width < two_pi:
                off = np.mod(ra - r1, two_pi)
                ok = (off <= width + 1e-12) | (off >= two_pi - 1e-12)
                if not np.all(ok):
                    return "outside_window_ra"

            def tol(lim):  # arcsin is ill-conditioned at the poles: 1 ulp of sin(dec) moves dec by eps/cos(dec)
                return 1e-12 + 4e-16 / max(math.cos(lim), 1.5e-8)

            if np.any(dec < d1 - tol(d1)) or np.any(dec > d2 + tol(d2)) or np.any(np.abs(dec) > math.pi / 2 + 1e-12):
                return "outside_window_dec"
            return None
        pix = fakehealpy.ang2pix(self.hp_nside, np.rad2deg(ra), np.rad2deg(dec))
        if not set(np.unique(pix).tolist()) <= self.hp_unmasked:
            return "outside_unmasked_pixels"
        return None

    def attrs_bad(self, names, get) -> str | None:
        want = [n for n, src in (("weights", self.w_src), ("redshifts", self.z_src)) if src is not None]
        have = [n for n in ("weights", "redshifts") if n in names]
        if want != have:
            return "attribute_columns_" + ("missing" if len(have) < len(want) else "unexpected")
        if self.rows is not None:
            pairs = set(zip(np.asarray(get("weights"), dtype=float).tolist(), np.asarray(get("redshifts"), dtype=float).tolist()))
            if not pairs <= self.rows:
                both = {w for w, _ in pairs} <= {w for w, _ in self.rows} and {z for _, z in pairs} <= {z for _, z in self.rows}
                return "attributes_not_joint" if both else "attribute_not_from_source"
        else:
            for n, src in (("weights", self.w_src), ("redshifts", self.z_src)):
                if src is not None and not set(np.asarray(get(n), dtype=float).tolist()) <= set(np.asarray(src, dtype=float).tolist()):
                    return "attribute_not_from_source"
        return None

    def key_class(self, bad: str) -> str:
        """Coarse input class for the structural key of a footprint / attribute finding."""
        if bad.startswith("outside_window") or bad.startswith("area"):
            return coarse_window_class(self.window, bad)
        if bad.startswith("outside") or bad.startswith("non_finite"):
            return self.wclass or "any"
        return f"attrs={self.attrs}" + ("" if self.container == "ndarray" else f",container={self.container_class()}")

    def container_class(self) -> str:
        """coarse class of the containers of the samples for structural keys (the exact pair is in the detail)"""
        kinds = {("sequence" if k in ("list", "tuple") else k) for n, k in self.containers.items()
                 if (self.w_src if n == "weights" else self.z_src) is not None} or {"ndarray"}
        return kinds.pop() if len(kinds) == 1 else "mixed"

    def points_bad(self, arr) -> str | None:
        names = arr.dtype.names
        return self.footprint_bad(arr["ra"], arr["dec"]) or self.attrs_bad(names, lambda n: arr[n])


def seed_class(real_seed) -> str:
    return "seed=None" if real_seed is None else "seed=0" if real_seed == 0 else "seed=nonzero"


def tb_text(exc) -> str:
    return "".join(traceback.format_exception(type(exc), exc, exc.__traceback__)[-4:])


def same(a, b) -> bool:
    return a.dtype == b.dtype and a.shape == b.shape and a.tobytes() == b.tobytes()


def sorted_rows(arr) -> np.ndarray:
    names = arr.dtype.names
    mat = np.column_stack([np.asarray(arr[n], dtype=np.float64) for n in names]) if len(arr) else np.empty((0, len(names)))
    if len(mat):
        mat = mat[np.lexsort(mat.T[::-1])]
    return mat


def size_class(N: int, C: int) -> str:
    c = C or DEFAULT_CHUNK
    if N == 0:
        return "N=0"
    if N < c:
        return "N<chunksize"
    if N % c == 0:
        return "N=k*chunksize"
    return "N=k*chunksize+r"


class LibError(Exception):
    """An unexpected exception raised by a public call of the library."""

    def __init__(self, exc) -> None:
        super().__init__(repr(exc))
        self.exc = exc


def lib(fn, *args, allow=(), **kwargs):
    """Call into the library; exceptions other than ``allow`` become LibError (so that
    bugs of this driver are never mistaken for defects of the library)."""
    assert callable(fn), f"driver bug: {fn!r} is not callable"
    try:
        return fn(*args, **kwargs)
    except allow:
        raise
    except Exception as exc:
        raise LibError(exc) from exc


def probe_rejection(exc) -> bool:
    return isinstance(exc, ValueError) and "probe_size" in str(exc)


def empty_patch_rejection(exc) -> bool:
    return isinstance(exc, ValueError) and "contains no data" in str(exc)


class State:
    """The real objects a history acts on."""

    def __init__(self, gen=None) -> None:
        self.gen = gen  # None until the history's "new" operation constructed it
        self.reader = None
        self.it = None
        self.used = False  # has the generator been used since it was created?


class Findings:
    """Collects verdicts; routed to ctx (or kept, for the binding self-checks)."""

    def __init__(self) -> None:
        self.items: list = []

    def violation(self, key, detail):
        self.items.append(("violation", key, detail))

    def drift(self, key, detail):
        self.items.append(("drift", key, detail))

    def flush(self, ctx) -> None:
        for kind, key, detail in self.items:
            (ctx.violation if kind == "violation" else ctx.drift)(key, detail)
        self.items = []


def log_events(world: World, log) -> list:
    out = []
    for kind, arg, _ in log:
        if kind == "reseed":
            out.append(("reseed", NOSEED if arg is None else world.seedinv.get(arg, UNKNOWN_SEED)))
        else:
            out.append(("call", arg))
    return out


def repro_history(path_ops) -> str:
    return " ; ".join(path_ops)


def exec_entry(world: World, st: State, e: dict, sc: dict, F: Findings, path_ops: list, counters: dict) -> bool:
    """Execute the operation of history entry ``e`` on the real objects, compare with
    the expectation of the spec.  Returns False if the real state diverged from the
    model (the subtree below is then skipped)."""
    try:
        return _exec_entry(world, st, e, sc, F, path_ops, counters)
    finally:  # verdicts found while building reference generators
        for it in world.pending.items:
            it[2].setdefault("history", list(path_ops))
        F.items.extend(world.pending.items)
        world.pending.items = []


def _exec_entry(world: World, st: State, e: dict, sc: dict, F: Findings, path_ops: list, counters: dict) -> bool:
    from yaw.catalog.readers import RandomReader

    op, a, out = e["op"], e["a"], e["out"]
    cls = world.clsname
    hist_cls = "history=used" if st.used else "history=fresh"
    base_detail = dict(world=world.describe(), scenario=sc, history=list(path_ops), expected=dict(op=op, a=a, out=out))
    exp_ev = [tuple(x) for x in e["ev"]]
    counters["ops"] = counters.get("ops", 0) + 1

    def check_output(arr, tok, ep, want_n, label):
        """size, footprint, attributes, reproducibility of one returned array."""
        ok = True
        if len(arr) != want_n:
            F.violation(f"C16|{ep}|{label}|size_{'short' if len(arr) < want_n else 'long'}",
                        dict(base_detail, requested=want_n, got=len(arr)))
            ok = False
        bad = world.points_bad(arr)
        if bad:
            F.violation(f"C16|{ep}|{world.key_class(bad)}|{bad}", dict(base_detail, n=len(arr)))
        if tok is not None and world.realisable(tok) and len(arr) == tok[4]:
            if world.differs(arr, tok):
                F.violation(f"C16|{ep}|{hist_cls}{world.seed_sfx(tok)}|not_reproducible",
                            dict(base_detail, token=list(tok), real_seed=world.seedmap[tok[0]], reference=world.ref_note(tok),
                                 note="differs from a brand-new generator with the same seed"))
        return ok

    def check_events(log) -> bool:
        got = log_events(world, log)
        if got != exp_ev:
            F.drift(f"C16|{op}|generator_events_differ_from_spec", dict(base_detail, expected_events=exp_ev, got=got))
            return False
        return True

    try:
        if op == "new":
            real = world.seedmap[a]
            counters[f"new({seed_class(real)})"] = counters.get(f"new({seed_class(real)})", 0) + 1
            try:
                st.gen = lib(world.new_gen, real, keep_log=True)
            except LibError as err:
                # the constructor refuses a valid seed: nothing of this history can be executed
                world.ctor_failed(real, err.exc, F)
                return False
            if out != "ok":
                F.drift(f"C16|{cls}.__init__|outcome_differs_from_spec", dict(base_detail, got="ok"))
                return False
            check_events(take_log(st.gen))  # how the constructor seeds itself is recorded (drift), the generator exists either way
            return True

        if op in ("call", "frame"):
            tok = e["res"][0]
            if op == "call":
                arr = lib(st.gen, a)
                ep = f"{cls}.__call__"
            else:
                df = lib(st.gen.generate_dataframe, a)
                ep = f"{cls}.generate_dataframe"
                ref = world.realise(tok) if world.realisable(tok) else None
                # back to a structured array in radian for the shared predicates
                arr = np.empty(len(df), dtype=[(c, "f8") for c in df.columns])
                for c in df.columns:
                    arr[c] = df[c].to_numpy()
                if ref is not None and len(df) == len(ref):
                    exp_deg = {c: (np.rad2deg(ref[c]) if c in ("ra", "dec") else ref[c]) for c in ref.dtype.names}
                    if list(df.columns) != list(ref.dtype.names) or any(
                            np.asarray(df[c].to_numpy(), dtype="f8").tobytes() != np.asarray(exp_deg[c], dtype="f8").tobytes() for c in ref.dtype.names):
                        F.violation(f"C16|{ep}|{hist_cls}{world.seed_sfx(tok)}|not_reproducible",
                                    dict(base_detail, token=list(tok), real_seed=world.seedmap[tok[0]], reference=world.ref_note(tok)))
                arr["ra"] = np.deg2rad(arr["ra"])
                arr["dec"] = np.deg2rad(arr["dec"])
                tok = None  # compared above (degrees)
            log = take_log(st.gen)
            # direct draws whose stream position depends on earlier draws: the token binds model and
            # code, but only draws right after a (re)seed are claimed by the property
            prop_tok = tok if (tok is not None and len(tok[3]) == 0) else None
            okk = check_output(arr, prop_tok, ep, a, "direct")
            if tok is not None and prop_tok is None and world.realisable(tok) and len(arr) == tok[4] and world.differs(arr, tok):
                F.drift(f"C16|{ep}|stream_position_differs_from_spec", dict(base_detail, token=list(tok)))
                okk = False
            st.used = True
            return check_events(log) and okk

        if op == "reseed":
            real = None if a == NOSEED else world.seedmap[a]
            counters[f"reseed({seed_class(real)})"] = counters.get(f"reseed({seed_class(real)})", 0) + 1
            lib(st.gen.reseed) if real is None else lib(st.gen.reseed, real)
            st.used = True
            return check_events(take_log(st.gen))

        if op == "reader":
            st.reader = lib(RandomReader, st.gen, sc["N"], sc["C"] or None)
            st.it = None
            st.used = True
            ok = check_events(take_log(st.gen))
            if st.reader.num_records != sc["N"] or len(st.reader) != -(-sc["N"] // (sc["C"] or DEFAULT_CHUNK)):
                F.drift("C16|RandomReader.__init__|num_chunks_differs_from_spec", dict(base_detail, len=len(st.reader)))
            return ok

        if op == "probe":
            ep = f"RandomReader[{cls}].get_probe"
            try:
                arr = lib(st.reader.get_probe, a, allow=(ValueError,))
                real_out = "ok"
            except ValueError as exc:
                if not probe_rejection(exc):
                    raise LibError(exc) from exc
                real_out = "ValueError"
            log = take_log(st.gen)
            if real_out != out:
                # get_probe documents the rejection of n > N: both behaviours are admissible
                F.drift(f"C16|{ep}|outcome_differs_from_spec", dict(base_detail, got=real_out))
                return False
            st.used = True
            if real_out == "ok":
                tok = e["pr"][0]
                okk = check_output(arr, tok, ep, tok[4], "probe")
                return check_events(log) and okk
            return check_events(log)

        if op == "pass":
            ep = f"RandomReader[{cls}].pass"
            st.it = lib(iter, st.reader)
            chunks = []
            stopped = False
            for _ in range(len(e["res"])):
                try:
                    chunks.append(lib(next, st.it, allow=(StopIteration,)))
                except StopIteration:
                    stopped = True
                    break
            extra = 0
            if out == "complete" and not stopped:
                limit = len(e["res"]) + 4
                while True:
                    try:
                        chunks.append(lib(next, st.it, allow=(StopIteration,)))
                        extra += 1
                    except StopIteration:
                        break
                    if extra > limit:
                        F.violation(f"C16|{ep}|{size_class(sc['N'], sc['C'])}|pass_does_not_end", dict(base_detail))
                        return False
            log = take_log(st.gen)
            st.used = True
            diverged = stopped or extra > 0
            total = sum(len(c) for c in chunks)
            if out == "complete" and total != sc["N"]:
                F.violation(f"C16|{ep}|{size_class(sc['N'], sc['C'])}|size_{'short' if total < sc['N'] else 'long'}",
                            dict(base_detail, requested=sc["N"], got=total, chunk_sizes=[len(c) for c in chunks]))
            for arr, tok in zip(chunks, e["res"]):
                if diverged or len(arr) != tok[4]:
                    diverged = True  # from here on the stream position is not the spec's: predicates only
                    check_output(arr, None, ep, len(arr), "chunk")
                    continue
                check_output(arr, tok, ep, tok[4], "chunk")
            for arr in chunks[len(e["res"]):]:
                check_output(arr, None, ep, len(arr), "chunk")
            if diverged and not (out == "complete" and total != sc["N"]):
                F.drift(f"C16|{ep}|chunking_differs_from_spec", dict(base_detail, chunk_sizes=[len(c) for c in chunks]))
            if out == "abandoned":
                st.it = None
            if diverged:
                return False
            return check_events(log)

        if op == "from_random":
            ep = f"Catalog.from_random[{cls}]"
            kwargs = dict(chunksize=sc["C"] or None, max_workers=1, overwrite=True)
            if sc["k"] == 0:
                kwargs["patch_centers"] = world.centers()
                mode = "patch_centers"
            else:
                kwargs["patch_num"] = sc["k"]
                mode = "patch_num"
                if sc["p"]:
                    kwargs["probe_size"] = sc["p"]
            path = world.root / f"cat{world.idx}"
            shutil.rmtree(path, ignore_errors=True)
            counters["from_random"] = counters.get("from_random", 0) + 1
            eff_probe = sc["p"] if sc["p"] >= 10 * sc["k"] else def_probe(sc["k"]) if sc["k"] else 0
            try:
                cat = lib(world.yaw.Catalog.from_random, path, st.gen, sc["N"], allow=(ValueError,), **kwargs)
                real_out = "ok"
            except ValueError as exc:
                if empty_patch_rejection(exc) and (sc["N"] == 0 or sc["k"] > 1):
                    # documented refusal (CatalogWriter.finalize): a patch without data; the property leaves it open
                    take_log(st.gen)
                    counters["refused_empty_patch"] = counters.get("refused_empty_patch", 0) + 1
                    return False
                if not probe_rejection(exc):
                    raise LibError(exc) from exc
                real_out = "ValueError"
                user_probe = sc["k"] > 0 and sc["p"] >= 10 * sc["k"]
                if not user_probe:
                    # a valid request (size N, patch_num=k, probe size chosen by the library) is refused
                    F.violation(f"C16|{ep}|patch_num,probe_size=library_default>N|raises_ValueError",
                                dict(base_detail, error=repr(exc), effective_probe=eff_probe,
                                     reproducer=f"Catalog.from_random(path, BoxRandoms(0,40,-20,20), {sc['N']}, patch_num={sc['k']}"
                                                + (f", probe_size={sc['p']}" if sc["p"] else "") + ")"))
            log = take_log(st.gen)
            st.used = True
            if real_out != out:
                if real_out == "ok":
                    F.drift(f"C16|{ep}|outcome_differs_from_spec", dict(base_detail, got=real_out))
                return False
            if real_out != "ok":
                return check_events(log)
            # the catalog: exactly N records, which are the generator's chunk outputs
            rec = [lib(p.load_data) for p in cat.values()]
            nrec = int(sum(lib(cat.get_num_records)))
            recs = np.concatenate(rec) if rec else np.empty(0, dtype=[("ra", "f8"), ("dec", "f8")])
            scl = f"{mode},{size_class(sc['N'], sc['C'])}"
            if nrec != sc["N"] or len(recs) != sc["N"]:
                F.violation(f"C16|{ep}|{scl}|size_{'short' if min(nrec, len(recs)) < sc['N'] else 'long'}",
                            dict(base_detail, requested=sc["N"], num_records=nrec, rows_on_disk=len(recs),
                                 generator_calls=[x[1] for x in log if x[0] == "call"]))
                return False
            if len(recs):
                bad = world.points_bad(recs)
                if bad:
                    F.violation(f"C16|{ep}|{world.key_class(bad)}|{bad}", dict(base_detail))
            toks = list(e["res"])
            calls = [x for x in log if x[0] == "call"]
            exp_toks = list(e["pr"]) + toks
            same_calls = [x[1] for x in calls] == [t[4] for t in exp_toks] and all(len(x[2]) == x[1] for x in calls)
            if not same_calls:
                F.drift(f"C16|{ep}|chunking_differs_from_spec",
                        dict(base_detail, calls=[x[1] for x in calls], expected=[t[4] for t in exp_toks]))
                return False
            if toks and world.seedmap.get(toks[0][0]) == 0:
                counters["from_random(seed=0)"] = counters.get("from_random(seed=0)", 0) + 1
            exp = [world.realise(t) for t in toks] if all(world.realisable(t) for t in toks) else [None]
            if all(x is not None for x in exp):
                exp_all = np.concatenate(exp) if exp else recs[:0]
                if len(exp_all) != len(recs) or (len(recs) and (exp_all.dtype != recs.dtype or
                                                                 sorted_rows(exp_all).tobytes() != sorted_rows(recs).tobytes())):
                    F.violation(f"C16|{ep}|{hist_cls}{world.seed_sfx(toks[0]) if toks else ''}|not_reproducible",
                                dict(base_detail, real_seed=world.seedmap[toks[0][0]] if toks else None,
                                     reference=world.ref_note(toks[0]) if toks else None,
                                     note="catalog records differ from those of a brand-new generator with the same seed"))
            # generator outputs seen during the call: probe + chunks, in the order of the spec
            ok = check_events(log)
            if ok:
                for (_, n, arr), tok in zip(calls, exp_toks):
                    if world.realisable(tok) and len(arr) == tok[4] and world.differs(arr, tok):
                        which = "probe" if tok in e["pr"] and tok not in toks else "chunk"
                        F.violation(f"C16|{ep}|{hist_cls}{world.seed_sfx(tok)}|not_reproducible",
                                    dict(base_detail, which=which, token=list(tok), real_seed=world.seedmap[tok[0]],
                                         reference=world.ref_note(tok)))
                        break
                chunk_out = [x[2] for x in calls[len(e["pr"]):]]
                got_all = np.concatenate(chunk_out) if chunk_out else recs[:0]
                if len(got_all) == len(recs) and len(recs) and sorted_rows(got_all).tobytes() != sorted_rows(recs).tobytes():
                    F.violation(f"C16|{ep}|{scl}|records_not_the_generated_points", dict(base_detail))
            return ok
    except LibError as err:  # an unexpected exception of a public call on a valid input
        if st.gen is not None:
            take_log(st.gen)
        icls = (size_class(sc['N'], sc['C']) if op in ('pass', 'from_random', 'reader')
                else seed_class(None if a == NOSEED else world.seedmap.get(a)) if op in ("new", "reseed") else 'any')
        F.violation(f"C16|{op_entry_point(op, cls)}|{icls}|raises_{type(err.exc).__name__}",
                    dict(base_detail, error=repr(err.exc), traceback=tb_text(err.exc)))
        return False
    raise AssertionError(f"unknown op {op}")


def op_entry_point(op, cls) -> str:
    return {"new": f"{cls}.__init__", "call": f"{cls}.__call__", "frame": f"{cls}.generate_dataframe", "reseed": f"{cls}.reseed",
            "reader": f"RandomReader[{cls}].__init__", "probe": f"RandomReader[{cls}].get_probe",
            "pass": f"RandomReader[{cls}].pass", "from_random": f"Catalog.from_random[{cls}]"}[op]


def op_text(e: dict, sc: dict) -> str:
    op, a = e["op"], e["a"]
    if op == "new":
        return f"gen=Randoms(seed={'0' if a == 0 else 'seed%d' % a})"
    if op == "call":
        return f"gen({a})"
    if op == "frame":
        return f"gen.generate_dataframe({a})"
    if op == "reseed":
        return f"gen.reseed({'' if a == NOSEED else '0' if a == 0 else 'seed%d' % a})"
    if op == "reader":
        return f"rd=RandomReader(gen,{sc['N']},{sc['C'] or None})"
    if op == "probe":
        return f"rd.get_probe({a})"
    if op == "pass":
        return f"pass:{len(e['res'])}chunks,{e['out']}"
    return f"from_random(N={sc['N']},chunksize={sc['C'] or None},patch_num={sc['k'] or None},probe_size={sc['p'] or 'default'})"


def compact(e: dict) -> dict:
    return dict(op=e["op"], a=e["a"], out=e["out"], pr=[list(t[:3]) + [list(t[3]), t[4]] for t in e["pr"]],
                res=[list(t[:3]) + [list(t[3]), t[4]] for t in e["res"]], ev=[list(x) for x in e["ev"]])


def walk(ctx, world: World, sc: dict, node: Node, st: State, path_ops: list, path_entries: list, counters: dict, budget: dict) -> None:
    for child in node.children.values():
        if budget["deadline"] and time.time() > budget["deadline"]:
            budget["cut"] = True
            return
        st2 = copy.deepcopy(st)
        F = Findings()
        ops2 = path_ops + [op_text(child.entry, sc)]
        ents2 = path_entries + [child.entry]
        ok = exec_entry(world, st2, child.entry, sc, F, ops2, counters)
        for it in F.items:  # recipe for ./check C16 --replay
            it[2]["replay"] = dict(world=world.idx, scenario=sc, entries=[compact(e) for e in ents2])
        F.flush(ctx)
        nontrivial = child.entry["op"] in ("pass", "from_random", "probe") and len(path_ops) > 1  # path_ops[0] is the construction
        ctx.evaluated(1, (world.idx, sc_key(sc), tuple(ops2)) if nontrivial else None)
        if not child.children:
            ctx.validated(1)
            counters["histories"] = counters.get("histories", 0) + 1
        if ok:
            walk(ctx, world, sc, child, st2, ops2, ents2, counters, budget)
        else:
            counters["diverged"] = counters.get("diverged", 0) + 1


def replay_file(ctx, yaw, root: Path) -> None:
    """./check C16 --replay <file>: re-execute the recorded history on the current tree."""
    doc = json.loads(Path(ctx.replay).read_text())
    recipe = doc.get("detail", {}).get("replay")
    ctx.require(recipe is not None, "this finding carries no replay recipe (window / trace / pool findings: re-run the tier)")
    worlds = make_worlds(yaw, root, int(doc.get("seed", 0)))
    world = [w for ws in worlds.values() for w in ws if w.idx == recipe["world"]][0]
    sc = recipe["scenario"]
    st = State()
    ops: list = []
    entries = list(recipe["entries"])
    if entries and entries[0]["op"] != "new":  # recipe written before the construction became an operation of the model
        entries.insert(0, dict(op="new", a=1, out="ok", pr=[], res=[], ev=[["reseed", 1]]))
    for e in entries:
        e = norm_entry(e)
        ops.append(op_text(e, sc))
        F = Findings()
        ok = exec_entry(world, st, e, sc, F, list(ops), {})
        F.flush(ctx)
        ctx.evaluated(1)
        if not ok:
            break
    ctx.validated(1)
    ctx.sample(dict(replayed=ops, world=world.describe(), scenario=sc))


# ---------------------------------------------------------------------------
# worlds
# ---------------------------------------------------------------------------


def make_worlds(yaw, root: Path, seed: int) -> dict:
    worlds = {"box": [], "healpix": []}
    idx = 0
    for i, (win, wclass) in enumerate(BOX_WINDOWS):
        for j in range(2):
            attrs = ATTR_KINDS[(i + 2 * j + seed) % 4] if j else "wz"
            nsrc = [7, 1, 200, 13][(i + j) % 4]
            worlds["box"].append(World(yaw, root, idx, kind="box", window=win, wclass=wclass, attrs=attrs, nsrc=nsrc,
                                       seedpair=SEED_PAIRS[(idx + seed) % len(SEED_PAIRS)], container=BOX_CONTAINERS[i][j]))
            idx += 1
    hp1 = np.zeros(48)
    hp1[[3, 17, 18, 40]] = [1.0, 2.0, 0.5, 1.0]
    hp2 = np.zeros(12)
    hp2[[0, 5, 11]] = 1.0
    for h, hp in enumerate((dict(values=hp1.tolist(), nested=True, is_mask=False), dict(values=hp2.tolist(), nested=False, is_mask=True),
                            dict(values=hp1.tolist(), nested=False, is_mask=False))):
        worlds["healpix"].append(World(yaw, root, idx, kind="healpix", attrs="wz" if idx % 2 else "w", nsrc=7, healpix=hp,
                                       wclass="healpix_mask", seedpair=SEED_PAIRS[(idx + seed) % len(SEED_PAIRS)],
                                       container=HP_CONTAINERS[h]))
        idx += 1
    return worlds


# ---------------------------------------------------------------------------
# A. model checking
# ---------------------------------------------------------------------------


def history_plan(quick: bool) -> list:
    """[(scenarios, MaxOps, InitSeeds)]: all histories of a construction with a seed of InitSeeds + <= MaxOps public
    operations are enumerated (the deepest thorough job constructs with the non-zero seed only - reseed(0), reseed(s),
    reseed() are explored at every point of it; construction with seed 0 at full depth 4)."""
    a = dict(kind="box", N=5, C=2, k=0, p=0)       # N = 2C+1, patch centres given
    b = dict(kind="box", N=12, C=6, k=1, p=10)     # N = 2C, patch_num with a user probe
    c = dict(kind="box", N=4, C=2, k=0, p=0)       # N = 2C
    if quick:
        return [([a], 4, INIT_SEEDS), ([b, c], 3, INIT_SEEDS)]
    return [([a], 5, (1,)),
            ([a], 4, (0,)),
            ([b, c,
              dict(kind="box", N=2, C=3, k=0, p=0),      # N < C
              dict(kind="box", N=12, C=0, k=2, p=0),     # default chunksize, library default probe
              dict(kind="box", N=20, C=7, k=2, p=20)], 4, INIT_SEEDS)]


def size_scenarios(quick: bool) -> list:
    out = []
    nmax = 13 if quick else 25
    chunks = (1, 2, 3, 4, 6, 0) if quick else (1, 2, 3, 4, 5, 6, 7, 8, 12, 0)
    for C in chunks:
        for N in range(0, nmax + 1):
            out.append(dict(kind="box", N=N, C=C, k=0, p=0))
    for k in (1, 2):
        for N in ((10, 11, 12, 20, 21, 25) if quick else range(9, 34)):
            for p in (10 * k, N, N + 1):     # probe size given by the user (N + 1: may be refused)
                for C in ((4, 5) if quick else (4, 5, 6, 0)):
                    out.append(dict(kind="box", N=N, C=C, k=k, p=p))
        # probe size chosen by the library (default, or a user value below 10 per patch); few of them: once the
        # library accepts them each costs a 100000-point probe
        for N in ((10, 25) if quick else (9, 10, 20, 33)):
            for p in (0, 5):
                for C in ((4,) if quick else (4, 0)):
                    out.append(dict(kind="box", N=N, C=C, k=k, p=p))
    seen, uniq = set(), []
    for s in out:
        if sc_key(s) not in seen:
            seen.add(sc_key(s))
            uniq.append(s)
    return uniq


def detect_probe_rule(ctx, yaw, root: Path) -> tuple:
    """Which rule for probes larger than the catalog does the tree implement?  (two micro probes of
    the real code; selects the matching design variant of the spec for the replays)"""
    try:
        return _detect_probe_rule(yaw, root)
    except Exception as exc:  # noqa: BLE001 - valid calls (non-zero seed, N=5/12): an exception other than the probe refusal
        ctx.violation(f"C16|RandomReader[BoxRandoms].get_probe|probe_rule_detection|raises_{type(exc).__name__}",
                      dict(calls="RandomReader(BoxRandoms(0,10,0,10,seed=1),5,2).get_probe(8); Catalog.from_random(path, "
                                 "BoxRandoms(0,40,-20,20,seed=1), 12, patch_num=1, chunksize=5)", error=repr(exc), traceback=tb_text(exc)))
        return ()


def _detect_probe_rule(yaw, root: Path) -> tuple:
    from yaw.catalog.readers import RandomReader
    from yaw.randoms import BoxRandoms

    rd = RandomReader(BoxRandoms(0, 10, 0, 10, seed=1), 5, 2)
    try:
        got = len(rd.get_probe(8))
    except ValueError:
        got = None
    if got == 8:
        return ()
    if got == 5:
        return ("ProbeClampedToRecords",)
    # get_probe refuses n > N; is the library-chosen default probe of from_random(patch_num=k) limited to N?
    gen = traced_class(BoxRandoms)(0, 40, -20, 20, seed=1)
    take_log(gen)
    try:
        yaw.Catalog.from_random(root / "probe_rule", gen, 12, patch_num=1, chunksize=5, max_workers=1)
    except ValueError:
        return ("ProbeBoundedByRecords",)
    finally:
        shutil.rmtree(root / "probe_rule", ignore_errors=True)
    calls = [x[1] for x in take_log(gen) if x[0] == "call"]
    if calls and calls[0] == 12:
        return ("ProbeBoundedByRecords", "DefaultProbeClampedToRecords")
    return ("ProbeBoundedByRecords",)


def invariants_for(observed: tuple) -> list:
    """CreateNeverRejected is the one invariant the code as found violates (ProbeBoundedByRecords
    without a limited default probe); everything else must hold for the variant replayed."""
    rejects = "ProbeBoundedByRecords" in observed and "DefaultProbeClampedToRecords" not in observed
    return [i for i in IDEAL_INVS if not (rejects and i == "CreateNeverRejected")]


def model_check(ctx, observed: tuple) -> dict:
    quick = ctx.quick
    plan = history_plan(quick)
    ssc = size_scenarios(quick)
    size_ops = ("from_random", "reader", "iter", "probe")
    invs_obs = invariants_for(observed)
    fs = (3,) if quick else (0, 3)
    hp_plan = [([dict(kind="healpix", N=5, C=2, k=0, p=0)], 3 if quick else 4), ([dict(kind="healpix", N=12, C=5, k=1, p=10)], 2 if quick else 3)]
    jobs, roles = [], []

    def add(role, job):
        roles.append(role)
        jobs.append(job)

    # 1. the ideal design over all histories / over the size sweep
    for i, (hsc, depth, iseeds) in enumerate(plan):
        add(("ideal_hist", i), gen_job(f"RandomGen ideal, all histories of <= {depth} operations, {len(hsc)} scenario(s)", hsc,
                                       max_ops=depth, coverage=True, print_hist=not observed, frame_sizes=fs, init_seeds=iseeds))
    add(("ideal_size", 0), gen_job("RandomGen ideal, size sweep (N x chunksize x patch_num x probe_size)", ssc, max_ops=2, ops=size_ops,
                                   probe_sizes=(3, 10), print_hist=not observed))
    # healpix scenarios (replayed on the real HealPixRandoms)
    for i, (hsc, depth) in enumerate(hp_plan):
        add(("healpix", i), gen_job(f"RandomGen, healpix scenario {i} (ideal generator), <= {depth} operations", hsc, dev=observed,
                                    max_ops=depth, print_hist=True, invariants=invs_obs))
    add(("clamped", 0), gen_job("RandomGen variant ProbeClampedToRecords (admissible alternative)", [DEVIATIONS["ProbeBoundedByRecords"][0]],
                                dev=("ProbeClampedToRecords",), max_ops=2, liveness=False))
    add(("clamped", 1), gen_job("RandomGen variant ProbeBoundedByRecords+DefaultProbeClampedToRecords (admissible alternative)",
                                [DEVIATIONS["ProbeBoundedByRecords"][0], dict(kind="box", N=12, C=5, k=1, p=13)],
                                dev=("ProbeBoundedByRecords", "DefaultProbeClampedToRecords"), max_ops=2, liveness=False))
    if observed:
        # 2. the design variant the tree implements for probes larger than the catalog
        for i, (hsc, depth, iseeds) in enumerate(plan):
            add(("obs_hist", i), gen_job(f"RandomGen with {'+'.join(observed)} (as implemented), histories <= {depth} operations", hsc,
                                         dev=observed, max_ops=depth, invariants=invs_obs, print_hist=True, frame_sizes=fs, init_seeds=iseeds))
        add(("obs_size", 0), gen_job(f"RandomGen with {'+'.join(observed)} (as implemented), size sweep", ssc, dev=observed, max_ops=2,
                                     ops=size_ops, probe_sizes=(3, 10), invariants=invs_obs, print_hist=True))
    # 3. every deviation yields its counterexample
    for name, (sc, ops, expect, *more) in DEVIATIONS.items():
        opt = more[0] if more else {}
        add(("dev", name), gen_job(f"RandomGen deviation {name}", [sc], dev=(opt.get("dev", name),), ops=ops, max_ops=3, liveness=False,
                                   call_sizes=(2, 3), init_seeds=opt.get("init_seeds", (1,))))
    results = dict(zip(roles, run_jobs(ctx, jobs)))
    cover: dict = {}
    for (role, i), res in results.items():
        if role in ("ideal_hist", "ideal_size", "healpix", "clamped", "obs_hist", "obs_size"):
            ctx.require(res.ok, f"RandomGen ({role} {i}) violated in TLC: {res.error_kind} {res.error_name}")
        if role == "ideal_hist":
            for act, (_, total) in res.coverage.items():
                cover[act] = cover.get(act, 0) + total
    for act in ("Construct", "DrawOp", "Reseed", "NewReader", "Probe", "IterStart", "NextChunk", "StopPass", "Abandon", "FRStart",
                "FRCenters", "FRIterStep", "FRNext", "FRStop"):
        ctx.require(cover.get(act, 0) > 0, f"RandomGen action {act} never taken (vacuous)")
    pick = "obs" if observed else "ideal"
    # the seed VALUE is explored: construction with every seed of InitSeeds (incl. 0), an explicit reseed(s) for every
    # s of Seeds (incl. 0) and reseed(); after a generator was used with ANOTHER seed; from_random on a seed-0 generator
    seen_new, seen_reseed, reseed0_after_use, fr_seed0 = set(), set(), 0, 0
    for i in range(len(plan)):
        for _, hist in printed_hist(results[(f"{pick}_hist", i)]):
            seen_new.add(hist[0]["a"])
            for j, e in enumerate(hist):
                if e["op"] == "reseed":
                    seen_reseed.add(e["a"])
                    if e["a"] == 0 and requested_seed(hist[:j]) != 0 and any(x["res"] or x["pr"] for x in hist[:j]):
                        reseed0_after_use += 1
                if e["op"] == "from_random" and e["res"] and e["res"][0][0] == 0:
                    fr_seed0 += 1
    ctx.require(seen_new == set(INIT_SEEDS) and 0 in seen_new, f"constructions explored by TLC: seeds {sorted(seen_new)}, expected {INIT_SEEDS}")
    ctx.require(seen_reseed == set(SPEC_SEEDS) | {NOSEED}, f"reseed arguments explored by TLC: {sorted(seen_reseed)}")
    ctx.require(reseed0_after_use > 0, "no TLC history with reseed(0) on a generator that was used with another seed")
    ctx.require(fr_seed0 > 0, "no TLC history with Catalog.from_random on a generator of seed 0")
    ctx.extra["seed_domain"] = dict(Seeds=list(SPEC_SEEDS), NoSeed=NOSEED, InitSeeds=list(INIT_SEEDS), constructions=sorted(seen_new),
                                    reseed_arguments=sorted(seen_reseed), histories_reseed0_after_use_with_other_seed=reseed0_after_use,
                                    histories_from_random_on_seed0=fr_seed0)
    cex = {}
    for name, (sc, ops, expect, *_more) in DEVIATIONS.items():
        res = results[("dev", name)]
        ctx.require(not res.ok and res.error_kind == "invariant" and res.error_name in expect,
                    f"deviation {name} yields no counterexample (stale model): {res.error_kind} {res.error_name}")
        cex[name] = dict(scenario=sc, invariant=res.error_name, hist=res.trace[-1]["state"]["hist"])
    return dict(hist=[results[(f"{pick}_hist", i)] for i in range(len(plan))], size=results[(f"{pick}_size", 0)], cex=cex,
                healpix=[results[("healpix", i)] for i in range(len(hp_plan))])


# ---------------------------------------------------------------------------
# B. spec -> code
# ---------------------------------------------------------------------------


def py_hist(hist) -> list:
    """counterexample JSON state -> entries shaped like printed ones"""
    return [norm_entry(e) for e in hist]


def requested_seed(entries) -> int:
    """RandomGen!RequestedSeed: the seed the user gave last (constructor or reseed(s))."""
    s = 1
    for e in entries:
        if e["op"] in ("new", "reseed") and e["a"] != NOSEED:
            s = e["a"]
    return s


def ideal_tokens(e: dict, sc: dict, seed: int) -> dict:
    """The entry as the IDEAL design would have produced it (Reproducible / SeedAsRequested /
    ConstructNeverRejected as a rewrite; ``seed`` = the seed requested last): used for the replay
    of deviation counterexamples."""
    c = sc["C"] or DEFAULT_CHUNK
    e = dict(e)
    e["res"] = [(seed, 0, 0, tuple([c] * j) if e["op"] in ("pass", "from_random") else t[3], t[4]) for j, t in enumerate(e["res"])]
    e["pr"] = [(seed, 0, 0, (), t[4]) for t in e["pr"]]
    if e["op"] == "new":
        e["out"] = "ok"
    return e


def replay_counterexamples(ctx, worlds, cex) -> dict:
    """Each deviation's counterexample history is executed on the real code; the verdict
    comes from the property predicates only (a deviation the code does not have is simply
    absent)."""
    shown = {}
    for name, c in cex.items():
        sc = c["scenario"]
        world = worlds[sc["kind"]][0]
        st = State()
        F = Findings()
        ops = []
        done = []
        hist = py_hist(c["hist"])
        # let an open operation run to its end
        for i, e in enumerate(hist):
            seed = requested_seed(hist[:i])
            e2 = ideal_tokens(e, sc, seed)
            if e2["out"] in ("running", "open"):
                e2["out"] = "ok" if e2["op"] == "from_random" else "complete"
                n, cc = sc["N"], sc["C"] or DEFAULT_CHUNK
                sizes = [cc] * (n // cc) + ([n % cc] if n % cc else [])
                e2["res"] = [(seed, 0, 0, tuple([cc] * j), s) for j, s in enumerate(sizes)]
            ops.append(op_text(e2, sc))
            done.append(e2)
            if not exec_entry(world, st, e2, sc, F, list(ops), {}):
                break
        for it in F.items:
            it[2]["replay"] = dict(world=world.idx, scenario=sc, entries=[compact(x) for x in done])
            it[2]["found_by"] = f"replay of the TLC counterexample of deviation {name}"
        viol = sorted({k for kind, k, _ in F.items if kind == "violation"})
        shown[name] = dict(scenario=sc, violated_in_tlc=c["invariant"], history=ops, real_code_shows=bool(viol), keys=viol)
        F.items = [it for it in F.items if it[0] == "violation"]
        F.flush(ctx)
        ctx.validated(1)
    return shown


def replay_histories(ctx, worlds, results, label, *, world_pick, deadline=None) -> dict:
    """Walk the history trees printed by the TLC runs ``results`` on the real code."""
    if not isinstance(results, (list, tuple)):
        results = [results]
    counters: dict = {}
    budget = dict(deadline=deadline, cut=False)
    nsc = 0
    for res in results:
        tries = build_tries(printed_hist(res))
        ctx.require(bool(tries), f"TLC printed no history for {label}")
        for key, (sc, root) in sorted(tries.items()):
            for world in world_pick(nsc, sc):
                walk(ctx, world, sc, root, State(), [], [], counters, budget)  # the root's children are the constructions
            nsc += 1
            counters["tree_nodes"] = counters.get("tree_nodes", 0) + count_nodes(root)
    counters["scenarios"] = nsc
    counters["cut_by_time_budget"] = budget["cut"]
    ctx.extra.setdefault("replays", {})[label] = counters
    return counters


def binding_selfcheck(ctx, worlds, results) -> None:
    """A deliberately corrupted expectation must be rejected by the driver.  The demonstration
    uses the first TLC history whose UNCORRUPTED replay is clean (if the library under test is
    broken for every candidate, there is nothing to demonstrate on - recorded, not an error)."""
    world = worlds["box"][0]

    def replay(entries, sc):
        st = State()
        F = Findings()
        ok = True
        for e in entries:
            ok = exec_entry(world, st, e, sc, F, ["binding demonstration"], {})
            if not ok:
                break  # the real state left the model (or the library raised): nothing below can be executed
        return ok, F

    done: dict = {}
    tried = 0
    for sc, hist in [x for r in results for x in printed_hist(r)]:
        for i, e in enumerate(hist):
            if not (e["op"] in ("from_random", "pass") and e["out"] in ("ok", "complete") and len(e["res"]) >= 2):
                continue
            if tried >= 40 or len(done) == 2:
                break
            tried += 1
            ok, F = replay(hist[: i + 1], sc)
            if not ok or F.items:
                # not a clean baseline; what the UNCORRUPTED replay shows is evidence from the real code
                F.items = [it for it in F.items if it[0] == "violation"]
                F.flush(ctx)
                continue
            t = e["res"][1]
            bad = dict(e, res=(e["res"][0], (t[0], t[1], t[2], (t[3][0] + 1,), t[4])) + tuple(e["res"][2:]))
            _, F = replay(hist[:i] + [bad], sc)
            done["tok"] = any(kind == "violation" and k.endswith("not_reproducible") for kind, k, _ in F.items)
            # the seed VALUE is bound: the same history with the tokens of another seed (0 <-> non-zero) is rejected
            other = 1 if t[0] == 0 else 0
            bad = dict(e, res=tuple((other,) + tuple(x[1:]) for x in e["res"]))
            _, F = replay(hist[:i] + [bad], sc)
            done["seed"] = any(kind == "violation" and k.endswith("not_reproducible") for kind, k, _ in F.items)
            broken = [it for it in F.items if it[0] == "violation" and "|raises_" in it[1]]
            if broken:  # the library cannot build the reference of the other seed: evidence of its own, nothing to demonstrate on
                F.items = broken
                F.flush(ctx)
                done["seed"] = "reference unavailable"
            t = e["res"][-1]
            bad = dict(e, res=tuple(e["res"][:-1]) + ((t[0], t[1], t[2], t[3], t[4] + 1),),
                       ev=tuple(e["ev"][:-1]) + (("call", t[4] + 1),))
            ok, F = replay(hist[:i] + [bad], sc)
            done["size"] = (not ok) and bool(F.items)
    if not done:
        ctx.extra["binding_demonstration"] = dict(skipped="no multi-chunk operation replays cleanly on this tree", candidates=tried)
        return
    ctx.require(done.get("tok") is True, "binding demonstration failed: a corrupted token was accepted by the driver")
    ctx.require(done.get("size") is True, "binding demonstration failed: a corrupted chunk size was accepted by the driver")
    ctx.require(done.get("seed") in (True, "reference unavailable"),
                "binding demonstration failed: tokens of another seed (0 <-> non-zero) were accepted by the driver")
    ctx.extra["binding_demonstration"] = dict(corrupted_token_rejected=True, corrupted_chunk_size_rejected=True,
                                              tokens_of_another_seed_rejected=done["seed"])


# ---------------------------------------------------------------------------
# C. footprint + area law (RandomWindow)
# ---------------------------------------------------------------------------

RA_GRID = (-30, 0, 90, 360, 390)
DEC_GRID = (-90, -30, 0, 30, 90)


def window_check(ctx, yaw, seed: int) -> None:
    from yaw.randoms import BoxRandoms

    quick = ctx.quick
    mod = WIN_MC % (", ".join(map(str, RA_GRID)), ", ".join(map(str, DEC_GRID)))
    consts = dict(RaGrid="<- RaGridDef", DecGrid="<- DecGridDef", Deviations="{}")
    invs = ["TypeOK", "InsideWindow", "UniformInArea"]
    cfg = tlc.make_cfg(constants=consts, invariants=invs + ["PrintDone"], properties=["Termination"])
    res = tlc.run("RandomWindow_MC", cfg, coverage=True, extra_modules={"RandomWindow_MC": mod})
    ctx.add_tlc("RandomWindow ideal (cylindrical equal-area sampling), all grid windows", res)
    ctx.require(res.ok, f"RandomWindow ideal design violated: {res.error_kind} {res.error_name}")
    for act in ("Sky2Cylinder", "DrawCylinder", "Cylinder2Sky"):
        ctx.require(res.coverage.get(act, (0, 0))[1] > 0, f"RandomWindow action {act} never taken")
    windows = res.printed("window")
    ctx.require(len(windows) == math.comb(len(RA_GRID), 2) * math.comb(len(DEC_GRID), 2), "RandomWindow: unexpected number of windows")
    cfg = tlc.make_cfg(constants=dict(consts, Deviations='{"UniformInDec"}'), invariants=invs)
    dres = tlc.run("RandomWindow_MC", cfg, extra_modules={"RandomWindow_MC": mod})
    ctx.add_tlc("RandomWindow deviation UniformInDec", dres)
    ctx.require(not dres.ok and dres.error_name == "UniformInArea", "deviation UniformInDec yields no counterexample (stale model)")
    cex_win = dres.trace[-1]["state"]["win"]

    M = 100_000 if quick else 1_000_000
    nsig = 6.0
    worst = 0.0
    ncells = 0

    def test_window(win, cells, gen_seed, selfcheck_law=None):
        """returns the list of (cell, observed, expected, sigma) that fail"""
        nonlocal worst, ncells
        w = (float(win["ra1"]), float(win["ra2"]), float(win["d1"]), float(win["d2"]))
        try:
            g = BoxRandoms(*w, seed=gen_seed)
        except Exception as exc:  # noqa: BLE001 - a valid window and seed
            ctx.violation(f"C16|BoxRandoms.__init__|{seed_class(gen_seed)}|raises_{type(exc).__name__}",
                          dict(reproducer=f"BoxRandoms{w + (gen_seed,)}", window_deg=w, seed=gen_seed, error=repr(exc), traceback=tb_text(exc)))
            return None
        try:
            pts = g(M)
        except Exception as exc:  # noqa: BLE001
            ctx.violation(f"C16|BoxRandoms.__call__|{coarse_window_class(w, 'area')}|raises_{type(exc).__name__}",
                          dict(window_deg=w, seed=gen_seed, n=M, error=repr(exc), traceback=tb_text(exc)))
            return None
        ra, dec = np.rad2deg(pts["ra"]), np.rad2deg(pts["dec"])
        if selfcheck_law == "dec":  # a deliberately wrong sampler (uniform in dec) for the binding demonstration
            dec = np.random.default_rng(gen_seed).uniform(w[2], w[3], M)
        fails = []
        wd = World(yaw, Path("."), -1, kind="box", window=w, wclass=window_class(w), attrs="none")
        if selfcheck_law is None:
            bad = wd.footprint_bad(pts["ra"], pts["dec"])
            if len(pts) != M:
                ctx.violation("C16|BoxRandoms.__call__|direct|size_" + ("short" if len(pts) < M else "long"),
                              dict(window_deg=w, requested=M, got=len(pts)))
            if bad:
                ctx.violation(f"C16|BoxRandoms.__call__|{wd.key_class(bad)}|{bad}", dict(window_deg=w, seed=gen_seed, n=M))
        for (c, num, den) in cells:
            f = num / den
            inside = (ra >= c[0]) & (ra < c[1]) & (dec >= c[2]) & (dec < c[3])
            obs = int(inside.sum())
            sig = math.sqrt(M * f * (1 - f)) if 0 < f < 1 else 0.0
            dev = abs(obs - M * f)
            if selfcheck_law is None:
                ncells += 1
                if sig > 0:
                    worst = max(worst, dev / sig)
            if dev > nsig * sig + 1.0:
                fails.append(dict(cell_deg=list(c), expected_fraction=[num, den], observed=obs, n=M, sigma=round(sig, 2)))
        return fails

    for i, (win, cells) in enumerate(sorted(windows, key=lambda x: sorted(x[0].items()))):
        # generator seeds 0, 1, 2, ... (seed 0 is always among them), shifted per run seed for the other windows
        fails = test_window(win, sorted(cells), i if i < 2 else 1000 * seed + i)
        if fails is None:
            continue  # the library raised (reported)
        ctx.evaluated(1, ("window", tuple(sorted(win.items()))))
        if fails:
            w = (win["ra1"], win["ra2"], win["d1"], win["d2"])
            ctx.violation(f"C16|BoxRandoms.__call__|{coarse_window_class(w, 'area')}|area_fraction_off_by_more_than_6_sigma",
                          dict(window_deg=w, window_class=window_class(w), seed=i if i < 2 else 1000 * seed + i, failing_cells=fails[:4]))
        if i == 0:
            ctx.sample(dict(window_deg=win, cells=[dict(cell=list(c), fraction=[n, d]) for c, n, d in sorted(cells)][:4],
                            points=M, compared="empirical cell fractions vs TLC's exact rationals (6 sigma), all points inside"))
    # the deviation's counterexample window on the real code + binding demonstration with a wrong sampler
    cells = [x for w_, x in windows if dict(w_) == {k: cex_win[k] for k in ("ra1", "ra2", "d1", "d2")}]
    ctx.require(len(cells) == 1, "counterexample window of UniformInDec not among the ideal windows")
    real_fails = test_window(cex_win, sorted(cells[0]), 77 + seed)
    wrong_fails = test_window(cex_win, sorted(cells[0]), 77 + seed, selfcheck_law="dec")
    ctx.require(wrong_fails is None or bool(wrong_fails), "binding demonstration failed: a uniform-in-dec sampler passes the area test")
    if real_fails:
        ctx.violation(f"C16|BoxRandoms.__call__|{coarse_window_class((cex_win['ra1'], cex_win['ra2'], cex_win['d1'], cex_win['d2']), 'area')}"
                      "|area_fraction_off_by_more_than_6_sigma", dict(window_deg=cex_win, failing_cells=real_fails[:4]))
    ctx.validated(len(windows) + 1)
    ctx.extra["area_law"] = dict(windows=len(windows), cells=ncells, points_per_window=M, threshold_sigma=nsig,
                                 worst_deviation_sigma=round(worst, 2), deviation_UniformInDec=dict(
                                     tlc_counterexample_window=cex_win, real_code_shows=bool(real_fails),
                                     wrong_sampler_rejected=bool(wrong_fails) if wrong_fails is not None else "library raised"))


def coarse_window_class(w, bad: str) -> str:
    r1, r2, d1, d2 = w
    if bad.endswith("_ra"):
        return "ra_outside_0_360" if (r1 < 0 or r2 > 360) else "ra_in_0_360"
    return "window_touches_pole" if (d2 >= 90 or d1 <= -90) else "window_without_pole"


def window_class(w) -> str:
    r1, r2, d1, d2 = w
    tags = []
    if r1 < 0:
        tags.append("negative_ra")
    if r2 > 360:
        tags.append("ra_beyond_360")
    if r2 - r1 >= 360:
        tags.append("full_ra")
    if d2 >= 90:
        tags.append("north_pole")
    if d1 <= -90:
        tags.append("south_pole")
    return ",".join(tags) or "generic"


# ---------------------------------------------------------------------------
# C2. joint attribute draw x container of the samples (RandomGenAttrs)
# ---------------------------------------------------------------------------


def nonfinite_rows(ctx, yaw, seed: int) -> None:
    """Value classes the position model (RandomGenAttrs) does not distinguish: tables whose rows hold NaN / inf in the weight
    at row a and in the redshift at another row b (every pair a != b, the same number of non-finite entries in both
    columns).  Predicate as in attr_check: every drawn (weight, redshift) pair is a row of the tables BY POSITION (NaN equals
    NaN); a constructor that refuses non-finite samples with an exception is an admissible refusal, not a violation."""
    from yaw.randoms import BoxRandoms

    n, M = 4, 64
    done = 0
    for a in range(n):
        for b in range(n):
            if a == b:
                continue
            for bad_w, bad_z in ((np.nan, np.nan), (np.nan, np.inf), (np.inf, np.nan)):
                w = np.arange(1.0, n + 1.0)
                z = 0.1 * np.arange(1.0, n + 1.0)
                w[a], z[b] = bad_w, bad_z
                rows = {(repr(float(x)), repr(float(y))) for x, y in zip(w, z)}
                detail = dict(weights=[repr(float(x)) for x in w], redshifts=[repr(float(x)) for x in z], n=M)
                try:
                    gen = BoxRandoms(10, 12, -1, 1, weights=w.copy(), redshifts=z.copy(), seed=[0, 7, 12345][(a + b + seed) % 3])
                except Exception:  # noqa: BLE001 - refused
                    continue
                try:
                    arr = gen(M)
                except Exception as exc:  # noqa: BLE001
                    ctx.violation(f"C16|BoxRandoms.__call__|samples_with_non_finite_rows|raises_{type(exc).__name__}", dict(detail, error=repr(exc)))
                    continue
                done += 1
                ctx.evaluated(1, ("nonfinite", a, b, repr(bad_w), repr(bad_z)))
                pairs = [(repr(float(x)), repr(float(y))) for x, y in zip(arr["weights"], arr["redshifts"])]
                if len(arr) != M:
                    ctx.violation("C16|BoxRandoms.__call__|samples_with_non_finite_rows|size_differs", dict(detail, got=len(arr)))
                elif any(p not in rows for p in pairs):
                    ctx.violation("C16|BoxRandoms.__call__|samples_with_non_finite_rows|attributes_not_joint",
                                  dict(detail, first_pair_that_is_no_row=next(p for p in pairs if p not in rows)))
    ctx.extra["non_finite_attribute_rows"] = dict(tables_evaluated=done, rows=n, points_per_table=M)


def attr_check(ctx, yaw, worlds, seed: int) -> None:
    """TLC enumerates (container of the weights, container of the redshifts, index labels, drawn index) with the positions
    of the tables the two lookups weights[idx] / redshifts[idx] hit; every case is evaluated on the real BoxRandoms and
    HealPixRandoms.  VIOLATION (property predicate): a drawn (weight, redshift) pair is not a row of the tables as
    passed, BY POSITION, or the constructor / the draw raises.  drift (model binding): the row differs from the one the
    spec computes for the drawn index."""
    nrows = 3 if ctx.quick else 4
    consts = dict(NRows=nrows, Containers=tla_set(CONTAINERS), Deviations="{}")
    invs = ["TypeOK", "JointRow", "DrawNeverRaises", "ByPosition"]
    res = tlc.run("RandomGenAttrs", tlc.make_cfg(constants=consts, invariants=invs + ["PrintDone"], properties=["Termination"]), coverage=True)
    ctx.add_tlc("RandomGenAttrs ideal (joint attribute draw), all container pairs x index permutations x drawn indices", res, constants=consts)
    ctx.require(res.ok, f"RandomGenAttrs ideal design violated: {res.error_kind} {res.error_name}")
    for act in ("Store", "DrawIndex", "LookupW", "LookupZ"):
        ctx.require(res.coverage.get(act, (0, 0))[1] > 0, f"RandomGenAttrs action {act} never taken")
    cases: dict = {}
    for sc, idx, pw, pz, err in res.printed("attrcase"):
        cases.setdefault((sc["cw"], sc["cz"], tuple(sc["ix"])), {})[idx] = (pw, pz)
    nk = len(CONTAINERS)
    ctx.require(len(cases) == (2 * nk - 1) * (math.factorial(nrows) - 1) + (nk - 1) ** 2 and all(len(v) == nrows for v in cases.values()),
                f"RandomGenAttrs: unexpected number of cases ({len(cases)})")
    ctx.require({(a, b) for a, b, _ in cases} == {(a, b) for a in CONTAINERS for b in CONTAINERS}, "RandomGenAttrs: a container pair was not explored")
    # deviations: label (deviation, Containers, invariant violated)
    devs = {"LookupAsPassed": ("LookupAsPassed", ("ndarray", "series_perm"), "JointRow"),
            "LookupAsPassed@list": ("LookupAsPassed", ("list",), "DrawNeverRaises"),
            "LookupAsPassed@series_other": ("LookupAsPassed", ("series_other",), "DrawNeverRaises"),
            "WeightsCastAtConstruction": ("WeightsCastAtConstruction", ("series_perm",), "JointRow")}
    cexs = {}
    for label, (dev, conts, inv) in devs.items():
        # only the invariant the deviation is meant to break, one worker: which violated invariant / which counterexample TLC
        # reports first must not depend on thread timing
        dres = tlc.run("RandomGenAttrs", tlc.make_cfg(constants=dict(consts, Containers=tla_set(conts), Deviations=tla_set([dev])), invariants=[inv]),
                       workers=1)
        ctx.add_tlc(f"RandomGenAttrs deviation {label}", dres)
        ctx.require(not dres.ok and dres.error_name == inv, f"deviation {label} yields no counterexample (stale model): {dres.error_kind} {dres.error_name}")
        st = dres.trace[-1]["state"]
        cexs[label] = (st["sc"]["cw"], st["sc"]["cz"], tuple(st["sc"]["ix"]))
        ctx.require(cexs[label] in cases, f"counterexample of {label} is not among the ideal cases")
    ctx.require(cexs["LookupAsPassed"][0] != cexs["LookupAsPassed"][1], "counterexample of LookupAsPassed is not a mixed-container case")

    M = 96
    hp = worlds["healpix"][0].healpix
    win = BOX_WINDOWS[0][0]
    summary = dict(cases=0, containers=list(CONTAINERS), container_pairs=nk * nk, points_per_case=M, rows=nrows)

    def evaluate(kind, cw, cz, ix, real_seed, widx=96, selfcheck=None):
        """[(finding kind, key, detail)] of one (generator kind, containers, index labels) on the real code"""
        index = [lab - 1 for lab in ix]  # labels of the spec are 1-based
        kw = dict(kind=kind, window=win, healpix=hp, attrs="wz", nsrc=nrows, wclass="attr_case")
        wd = World(yaw, Path("."), widx, container=cw if cw == cz else f"{cw}+{cz}", index=index if "series_perm" in (cw, cz) else None, **kw)
        ref = World(yaw, Path("."), widx, container="ndarray", **kw)  # same tables as numpy arrays: the drawn index IS the position
        ep = f"{wd.clsname}.__call__"
        detail = dict(world=wd.describe(), seed=real_seed, n=M, weights=wd.w_src.tolist(), redshifts=wd.z_src.tolist())
        out = []
        try:
            gens = [lib(x.new_gen, real_seed) for x in (wd, ref)]
        except LibError as err:  # the constructor refuses a valid input (container / seed)
            sink = Findings()
            wd.ctor_failed(real_seed, err.exc, sink)
            if real_seed != 0:  # not the seed: the input class is the container of the samples
                sink.items = [("violation", f"C16|{wd.clsname}.__init__|{wd.key_class('attr')}|raises_{type(err.exc).__name__}", sink.items[0][2])]
            return sink.items
        try:
            arr = lib(gens[0], M)
            raw = lib(gens[1], M)
        except LibError as err:
            return [("violation", f"C16|{ep}|{wd.key_class('attr')}|raises_{type(err.exc).__name__}",
                     dict(detail, error=repr(err.exc), traceback=tb_text(err.exc)))]
        drawn = [{float(w): k for k, w in enumerate(ref.w_src)}.get(float(x), -1) for x in raw["weights"]]
        if selfcheck == "mixed":  # what LookupAsPassed does on mixed containers, done here by hand: for the drawn index i the
            arr = arr.copy()       # weight with LABEL i and the redshift at POSITION i
            arr["weights"] = [wd.w_src[index.index(i)] for i in drawn]
            arr["redshifts"] = [wd.z_src[i] for i in drawn]
        if len(arr) != M:
            out.append(("violation", f"C16|{ep}|direct|size_{'short' if len(arr) < M else 'long'}", dict(detail, got=len(arr))))
        bad = wd.points_bad(arr)
        if bad:
            out.append(("violation", f"C16|{ep}|{wd.key_class(bad)}|{bad}", dict(detail, first_pairs=[
                [float(a), float(b)] for a, b in zip(arr["weights"][:6], arr["redshifts"][:6])])))
        if selfcheck is None and len(raw) == len(arr) == M and not bad and not ref.points_bad(raw):
            seen = set()
            for j in range(M):
                i = drawn[j] + 1  # the drawn index (1-based)
                seen.add(i)
                pw, pz = cases[(cw, cz, tuple(ix))][i]
                if (float(arr["weights"][j]), float(arr["redshifts"][j])) != (float(wd.w_src[pw - 1]), float(wd.z_src[pz - 1])):
                    # the rows are joint (predicate above) but not the row the design draws for this index
                    out.append(("drift", f"C16|{ep}|attribute_lookup_differs_from_spec", dict(detail, drawn_index=i - 1)))
                    break
            for i in seen:
                ctx.evaluated(1, ("attrcase", kind, cw, cz, tuple(ix), i))
            summary["cases"] += len(seen)
        return out

    for n, ((cw, cz, ix), _) in enumerate(sorted(cases.items())):
        for kind in ("box", "healpix"):
            for kind_, key, detail in evaluate(kind, cw, cz, ix, [0, 7, 12345][(n + seed) % 3], widx=96 + n % 2):
                (ctx.violation if kind_ == "violation" else ctx.drift)(key, detail)
        ctx.validated(1)
    ctx.extra["attribute_containers"] = summary
    nonfinite_rows(ctx, yaw, seed)
    # the deviations' counterexamples on the real code
    shown = {}
    for label, (cw, cz, ix) in cexs.items():
        keys = set()
        for kind in ("box", "healpix"):
            for kind_, key, detail in evaluate(kind, cw, cz, ix, 4711, selfcheck="replay"):
                if kind_ == "violation":
                    keys.add(key)
                    ctx.violation(key, dict(detail, found_by=f"replay of the TLC counterexample of deviation {label}"))
        shown[label] = dict(containers=[cw, cz], index_labels=[x - 1 for x in ix], present_in_code=bool(keys), keys=sorted(keys))
    summary["deviation_replays"] = shown
    # binding demonstration (independent of the tree): a hand-made label/position mix must be rejected by the predicate
    cw, cz, ix = cexs["LookupAsPassed"]
    sp_ix = ix
    for kind in ("box", "healpix"):
        wrong = evaluate(kind, "series_perm", "ndarray", sp_ix, 4711, selfcheck="mixed")
        ctx.require(any(k.endswith("attributes_not_joint") for _, k, _ in wrong) or any("|raises_" in k for _, k, _ in wrong),
                    "binding demonstration failed: weights by label + redshifts by position pass the joint-row predicate")
    summary["hand_made_mixed_lookup_rejected"] = True
    summary["configurations"] = {}
    for ws in worlds.values():
        for w in ws:
            summary["configurations"][w.container] = summary["configurations"].get(w.container, 0) + 1
    if not any(v["present_in_code"] for v in shown.values()):
        ctx.require(summary["cases"] >= 2 * len(cases) * (nrows - 1), f"too few attribute cases evaluated on the real code: {summary['cases']}")
    ctx.sample(dict(kind="attribute case", containers=[cw, cz], index_labels=[x - 1 for x in ix],
                    law="weights[idx] and redshifts[idx] hit the same position of the tables as passed, no draw raises",
                    spec_positions_per_drawn_index={i - 1: [p - 1 for p in v] for i, v in cases[(cw, cz, ix)].items()}))


# ---------------------------------------------------------------------------
# D. code -> spec: random operation sequences validated by TLC
# ---------------------------------------------------------------------------


def record_traces(ctx, worlds, rng, ntraces: int, big: bool) -> list:
    """Random public-operation sequences on the real code; returns
    [(world, sc, ops(recorded), arrays per op)]."""
    from yaw.catalog.readers import RandomReader

    out = []
    small = [dict(kind="box", N=N, C=C, k=k, p=p) for (N, C, k, p) in
             [(1000, 300, 0, 0), (2500, 1000, 0, 0), (3000, 1000, 0, 0), (999, 1000, 0, 0), (1001, 1000, 2, 500), (600, 0, 0, 0),
              (2000, 1000, 1, 0), (5, 1, 0, 0), (40, 7, 3, 30), (4097, 4096, 0, 0)]]
    large = [dict(kind="box", N=N, C=C, k=k, p=p) for (N, C, k, p) in
             [(250_000, 100_000, 0, 0), (300_000, 100_000, 2, 0), (100_001, 50_000, 1, 100_000), (1_000_000, 0, 0, 0)]]
    for t in range(ntraces):
        sc = rng.choice(large if (big and t % 4 == 3) else small)
        world = worlds["box"][rng.randrange(len(worlds["box"]))]
        st = State()
        ops, arrays = [], []
        nops = 0
        length = rng.randint(4, 7 if sc["N"] > 50_000 else 12)
        # the construction: seed 0 in the first traces, then any seed of the domain
        a0 = 0 if t < 2 else rng.choice(SPEC_SEEDS)
        try:
            st.gen = lib(world.new_gen, world.seedmap[a0], keep_log=True)
        except LibError as err:
            world.ctor_failed(world.seedmap[a0], err.exc, ctx)
            out.append(dict(world=world, sc=sc, nops=0, ops=[], arrays=[], ctor_failed=a0))
            continue
        ops.append(dict(op="new", a=a0, out="ok", prn=[], resn=[], ev=[list(x) for x in log_events(world, take_log(st.gen))]))
        arrays.append([])
        while nops < length:
            choices = ["call", "frame", "reseed", "reader", "from_random"]
            if st.reader is not None:
                choices += ["probe", "pass", "pass"]
            op = rng.choice(choices)
            rec = dict(op=op, a=0, out="ok", prn=[], resn=[], ev=[])
            arrs: list = []
            try:
                if op in ("call", "frame"):
                    rec["a"] = rng.choice([0, 1, 17, 256])
                    lib(st.gen, rec["a"]) if op == "call" else lib(st.gen.generate_dataframe, rec["a"])
                    log = take_log(st.gen)
                    rec["resn"] = [len(x[2]) for x in log if x[0] == "call"]
                    arrs = [x[2] for x in log if x[0] == "call"]
                elif op == "reseed":
                    rec["a"] = rng.choice([NOSEED, 0, 0, 1, 2])
                    lib(st.gen.reseed, world.seedmap[rec["a"]]) if rec["a"] != NOSEED else lib(st.gen.reseed)
                    log = take_log(st.gen)
                elif op == "reader":
                    rec["a"] = sc["N"]
                    st.reader = lib(RandomReader, st.gen, sc["N"], sc["C"] or None)
                    log = take_log(st.gen)
                elif op == "probe":
                    rec["a"] = rng.choice([1, 10, sc["N"], sc["N"] + 1])
                    try:
                        lib(st.reader.get_probe, rec["a"], allow=(ValueError,))
                    except ValueError as exc:
                        if not probe_rejection(exc):
                            raise LibError(exc) from exc
                        rec["out"] = "ValueError"
                    log = take_log(st.gen)
                    rec["prn"] = [len(x[2]) for x in log if x[0] == "call"]
                    arrs = [x[2] for x in log if x[0] == "call"]
                elif op == "pass":
                    rec["a"] = sc["N"]
                    it = lib(iter, st.reader)
                    nchunks = -(-sc["N"] // (sc["C"] or DEFAULT_CHUNK))
                    stop_after = nchunks if rng.random() < 0.7 or nchunks == 0 else rng.randrange(0, nchunks)
                    got = 0
                    rec["out"] = "abandoned"
                    while True:
                        if got == stop_after and stop_after < nchunks:
                            nops += 1  # the Abandon operation
                            break
                        try:
                            lib(next, it, allow=(StopIteration,))
                            got += 1
                        except StopIteration:
                            rec["out"] = "complete"
                            break
                        if got > nchunks + 3:
                            break
                    log = take_log(st.gen)
                    rec["resn"] = [len(x[2]) for x in log if x[0] == "call"]
                    arrs = [x[2] for x in log if x[0] == "call"]
                else:
                    rec["a"] = sc["N"]
                    kwargs = dict(chunksize=sc["C"] or None, max_workers=1, overwrite=True)
                    if sc["k"]:
                        kwargs["patch_num"] = sc["k"]
                        if sc["p"]:
                            kwargs["probe_size"] = sc["p"]
                    else:
                        kwargs["patch_centers"] = world.centers()
                    shutil.rmtree(world.root / f"tr{world.idx}", ignore_errors=True)
                    try:
                        cat = lib(world.yaw.Catalog.from_random, world.root / f"tr{world.idx}", st.gen, sc["N"], allow=(ValueError,), **kwargs)
                        nrec = int(sum(lib(cat.get_num_records)))
                    except ValueError as exc:
                        if empty_patch_rejection(exc) and sc["k"] > 1:
                            take_log(st.gen)
                            break  # admissible refusal; the trace ends here
                        if not probe_rejection(exc):
                            raise LibError(exc) from exc
                        rec["out"] = "ValueError"
                        nrec = None
                    log = take_log(st.gen)
                    calls = [x for x in log if x[0] == "call"]
                    npr = 1 if (sc["k"] and rec["out"] == "ok") else 0
                    rec["prn"] = [len(x[2]) for x in calls[:npr]]
                    rec["resn"] = [len(x[2]) for x in calls[npr:]]
                    arrs = [x[2] for x in calls]
                    rec["nrec"] = nrec
                rec["ev"] = [list(x) for x in log_events(world, log)]
            except LibError as err:
                icls = seed_class(None if rec["a"] == NOSEED else world.seedmap[rec["a"]]) if op == "reseed" else size_class(sc['N'], sc['C'])
                ctx.violation(f"C16|{op_entry_point(op, world.clsname)}|{icls}|raises_{type(err.exc).__name__}",
                              dict(world=world.describe(), scenario=sc, ops=[o["op"] for o in ops] + [op], error=repr(err.exc),
                                   traceback=tb_text(err.exc)))
                break
            nops += 1
            ops.append(rec)
            arrays.append(arrs)
        out.append(dict(world=world, sc=sc, nops=nops, ops=ops, arrays=arrays))
    return out


def validate_traces(ctx, traces, observed, label) -> list:
    """TLC decides whether each recorded operation log is a behaviour of RandomGen;
    returns [(accepted, matched_prefix, hist or None)]."""
    sizes = sorted({o["a"] for t in traces for o in t["ops"] if o["op"] in ("call", "frame")} | {0})
    psizes = sorted({o["a"] for t in traces for o in t["ops"] if o["op"] == "probe"} | {1})
    ks = sorted({t["sc"]["k"] for t in traces if t["sc"]["k"]} | {1})
    defprobe = "(" + " @@ ".join(f"{k} :> {def_probe(k)}" for k in ks) + ")"
    mod = ("---- MODULE RandomGenTrace_MC ----\nEXTENDS RandomGenTrace\nDefProbeDef == %s\n====\n" % defprobe)
    fd, name = tempfile.mkstemp(prefix="c16traces_", suffix=".ndjson", dir=os.environ.get("VERIF_TMP"))
    os.close(fd)
    path = Path(name)
    try:
        with path.open("w") as f:
            for t in traces:
                ops = [dict(op=o["op"], a=o["a"], out=o["out"], prn=o["prn"], resn=o["resn"], ev=o["ev"]) for o in t["ops"]]
                f.write(json.dumps(dict(sc=t["sc"], nops=t["nops"], ops=ops)) + "\n")
        invs = [i for i in invariants_for(observed) if i != "TypeOK"]
        consts = dict(Scenarios="{}", DefProbe="<- DefProbeDef", Seeds=tla_set(SPEC_SEEDS), InitSeeds=tla_set(SPEC_SEEDS), CallSizes=tla_set(sizes), FrameSizes=tla_set(sizes), ProbeSizes=tla_set(psizes),
                      Ops=tla_set(ALL_OPS), MaxOps=1000, DefaultChunk=DEFAULT_CHUNK, Deviations=tla_set(sorted(observed)))
        cfg = tlc.make_cfg(spec="TSpec", constants=consts, invariants=["Progress"] + invs, constraints=["Consistent"],
                           postcondition="Post", deadlock=False)
        res = tlc.run("RandomGenTrace_MC", cfg, workers=1, extra_modules={"RandomGenTrace_MC": mod}, env={"TRACE_FILE": str(path)},
                      timeout=1800)
    finally:
        path.unlink(missing_ok=True)
    ctx.add_tlc(label, res)
    verdicts = res.printed("verdict")
    ctx.require(bool(verdicts), f"trace validation produced no verdict: {res.out[-800:]}")
    v = verdicts[-1]
    seq = [v[k] for k in sorted(v)] if isinstance(v, dict) else list(v)
    hists = {}
    for line in re.findall(r'^<<"acceptedj", "(.*)">>$', res.out, re.M):
        doc = json.loads(json.loads('"' + line + '"'))
        hists[doc["tid"]] = [norm_entry(e) for e in doc["hist"]]
    out = []
    for i, item in enumerate(seq):
        out.append((item[1] is True, int(item[0]), hists.get(i + 1)))
    ctx.require(res.ok or res.error_kind == "invariant", f"trace validation failed: {res.error_kind}")
    if not res.ok:
        ctx.extra.setdefault("trace_invariant_violations", []).append(res.error_name)
    return out, res


def trace_validation(ctx, worlds, rng, observed) -> None:
    quick = ctx.quick
    traces = record_traces(ctx, worlds, rng, 12 if quick else 80, big=not quick)
    ctx.require(any(t["ops"] and t["ops"][0]["a"] == 0 for t in traces) or any(t.get("ctor_failed") == 0 for t in traces),
                "no recorded trace of a generator constructed with seed 0")
    traces = [t for t in traces if len(t["ops"]) > 1]
    # binding demonstration: a corrupted copy of the first trace with a pass must be rejected
    bad = None
    for t in traces:
        for i, o in enumerate(t["ops"]):
            if o["op"] in ("pass", "from_random") and o["out"] in ("complete", "ok") and len(o["resn"]) >= 2:
                bad = dict(t, ops=[dict(x) for x in t["ops"]])
                sizes = list(o["resn"])
                sizes[-1] += 1
                sizes[0] -= 1
                bad["ops"][i]["resn"] = sizes
                bad["ops"][i]["ev"] = [list(x) for x in o["ev"]]
                break
        if bad:
            break
    ctx.require(bad is not None, "no recorded trace with a multi-chunk pass")
    verdicts, res = validate_traces(ctx, traces + [bad], observed, "RandomGenTrace (recorded operation logs of the real code)")
    ctx.require(verdicts[-1][0] is False, "binding demonstration failed: corrupted trace accepted by TLC")
    rejected = []
    for t, (acc, matched, hist) in zip(traces, verdicts[:-1]):
        world, sc = t["world"], t["sc"]
        ctx.validated(1)
        ctx.evaluated(len(t["ops"]), ("trace", world.idx, sc_key(sc), tuple(o["op"] for o in t["ops"])))
        # property predicates on the recorded outputs, whatever TLC says
        for o, arrs in zip(t["ops"], t["arrays"]):
            ep = op_entry_point(o["op"], world.clsname)
            for arr in arrs:
                badp = world.points_bad(arr)
                if badp:
                    ctx.violation(f"C16|{ep}|{world.key_class(badp)}|{badp}", dict(world=world.describe(), scenario=sc))
            total = sum(o["resn"])
            if o["op"] == "from_random" and o["out"] == "ok" and (total != sc["N"] or o.get("nrec") != sc["N"]):
                ctx.violation(f"C16|{ep}|{'patch_num' if sc['k'] else 'patch_centers'},{size_class(sc['N'], sc['C'])}|size_"
                              + ("short" if min(total, o.get("nrec") or 0) < sc["N"] else "long"),
                              dict(world=world.describe(), scenario=sc, chunk_sizes=o["resn"], num_records=o.get("nrec")))
            if o["op"] == "pass" and o["out"] == "complete" and total != sc["N"]:
                ctx.violation(f"C16|{ep}|{size_class(sc['N'], sc['C'])}|size_" + ("short" if total < sc["N"] else "long"),
                              dict(world=world.describe(), scenario=sc, chunk_sizes=o["resn"]))
            if o["op"] == "from_random" and o["out"] == "ValueError" and not (sc["k"] and sc["p"] >= 10 * sc["k"]):
                ctx.violation(f"C16|{ep}|patch_num,probe_size=library_default>N|raises_ValueError",
                              dict(world=world.describe(), scenario=sc))
            if o["op"] in ("call", "frame") and o["resn"] != [o["a"]]:
                ctx.violation(f"C16|{ep}|direct|size_" + ("short" if sum(o["resn"]) < o["a"] else "long"),
                              dict(world=world.describe(), requested=o["a"], got=o["resn"]))
        if not acc:
            rejected.append(dict(scenario=sc, matched_ops=matched, first_unexplained=t["ops"][matched] if matched < len(t["ops"]) else None))
            ctx.drift("C16|trace|not_a_behaviour_of_RandomGen", dict(scenario=sc, matched_ops=matched,
                                                                      op=t["ops"][matched]["op"] if matched < len(t["ops"]) else None))
            continue
        # tokens of the accepted behaviour vs the recorded arrays
        used = False
        for e, o, arrs in zip(hist, t["ops"], t["arrays"]):
            toks = list(e["pr"]) + list(e["res"])
            chunked = e["op"] in ("pass", "from_random", "probe")
            for arr, tok in zip(arrs, toks):
                if not world.realisable(tok) or len(arr) != tok[4]:
                    continue
                if tok[4] > 200_000 and not chunked:
                    continue
                claimed = chunked or len(tok[3]) == 0
                if world.differs(arr, tok):
                    ep = op_entry_point(e["op"], world.clsname)
                    if claimed:
                        ctx.violation(f"C16|{ep}|history={'used' if used else 'fresh'}{world.seed_sfx(tok)}|not_reproducible",
                                      dict(world=world.describe(), scenario=sc, token=list(tok), real_seed=world.seedmap[tok[0]],
                                           reference=world.ref_note(tok), ops=[(x["op"], x["a"]) for x in t["ops"]]))
                    else:
                        ctx.drift(f"C16|{ep}|stream_position_differs_from_spec", dict(scenario=sc, token=list(tok)))
                    break
            used = used or e["op"] != "new"
        world.pending.flush(ctx)
        world._cache.clear()
    ctx.extra["trace_validation"] = dict(traces=len(traces), accepted=len(traces) - len(rejected), rejected=rejected[:5],
                                         corrupted_trace_rejected=True,
                                         sample=dict(scenario=traces[0]["sc"], ops=[dict(op=o["op"], a=o["a"], out=o["out"], chunks=o["resn"])
                                                                                   for o in traces[0]["ops"]][:6]))


# ---------------------------------------------------------------------------
# E. worker pool path of from_random (records must be the same points)
# ---------------------------------------------------------------------------


def pool_runs(ctx, worlds, rng) -> None:
    n = 2 if ctx.quick else 8
    for i in range(n):
        world = worlds["box"][(3 * i) % len(worlds["box"])]
        N, C = rng.choice([(1000, 300), (999, 333), (2000, 1000), (2001, 1000)])
        recs = {}
        real_seed = world.seedmap[i % 2]  # seed 0 and a non-zero seed
        try:
            for W in (1, 2 if i % 2 == 0 else 3):
                try:
                    g = lib(world.new_gen, real_seed)
                except LibError as err:
                    world.ctor_failed(real_seed, err.exc, ctx)
                    raise
                shutil.rmtree(world.root / f"pool{W}", ignore_errors=True)
                cat = lib(world.yaw.Catalog.from_random, world.root / f"pool{W}", g, N, patch_centers=world.centers(2), chunksize=C,
                          max_workers=W, overwrite=True)
                rec = [lib(p.load_data) for p in cat.values()]
                recs[W] = (int(sum(lib(cat.get_num_records))), sorted_rows(np.concatenate(rec)))
        except LibError as err:
            if empty_patch_rejection(err.exc) or real_seed in world.ctor_broken:
                continue  # documented refusal of a patch centre without data / constructor failure (reported above)
            ctx.violation(f"C16|Catalog.from_random[BoxRandoms]|max_workers>1|raises_{type(err.exc).__name__}",
                          dict(world=world.describe(), N=N, chunksize=C, seed=real_seed, error=repr(err.exc), traceback=tb_text(err.exc)))
            continue
        ctx.evaluated(2, ("pool", world.idx, N, C))
        (n1, r1), (n2, r2) = recs.values()
        if n2 != N:
            ctx.violation(f"C16|Catalog.from_random[BoxRandoms]|max_workers>1,{size_class(N, C)}|size_{'short' if n2 < N else 'long'}",
                          dict(world=world.describe(), N=N, chunksize=C, got=n2))
        elif r1.tobytes() != r2.tobytes():
            ctx.violation("C16|Catalog.from_random[BoxRandoms]|max_workers>1|not_reproducible",
                          dict(world=world.describe(), N=N, chunksize=C, note="records differ from the max_workers=1 run"))


# ---------------------------------------------------------------------------


def run(ctx) -> None:
    """Verdict keys: a reproducibility finding on the edge-value seed 0 carries the input class ``...,seed=0``, an attribute
    finding on samples passed as pandas Series the class ``...,container=series[_perm]``.  Such a key stays a key of its
    own only if the same entry point / class does NOT fail for the general case as well (non-zero seeds / numpy arrays):
    then the defect is specific to the sub-class; otherwise it is an instance of the general defect and counted under
    the general key."""
    held: list = []
    general: set = set()
    report = ctx.violation
    special = re.compile(r",(seed=0|container=[\w+]+)(?=[|,])")  # input classes that are sub-classes of a general one

    def violation(key, detail):
        if special.search(key):
            held.append((key, detail))
        else:
            general.add(key)
            report(key, detail)

    ctx.violation = violation
    try:
        _run(ctx)
    finally:  # also after a machinery failure: what the real code showed before is evidence (harness.core reports it)
        ctx.violation = report
        for key, detail in held:
            base = special.sub("", key)
            report(base if base in general else key, detail)


def _run(ctx) -> None:
    quick = ctx.quick
    rng = random.Random(ctx.seed)
    t0 = time.time()
    yaw = data.import_yaw()
    from yaw import randoms
    from yaw.utils import parallel as yaw_parallel

    # the library runs `lscpu` in a subprocess on every get_size() call (several per catalog): cache the answer
    yaw_parallel._get_physical_cores = functools.lru_cache(maxsize=None)(yaw_parallel._get_physical_cores)

    ctx.require(randoms.HEALPY_ENABLED, "healpy stand-in was not installed before yaw was imported")
    ctx.require(fakehealpy.selftest() == [], f"healpy stand-in fails its defining properties: {fakehealpy.selftest()}")
    ctx.rule = (
        "one evaluation = one public operation (Randoms(seed=s), gen(n), generate_dataframe, reseed, RandomReader(), get_probe, a pass, "
        "Catalog.from_random) executed on the real library inside a TLC-generated history and compared with the spec's "
        "expectation (outcome, sizes, generator events, tokens realised on a brand-new generator, bit-exact); non-trivial = "
        "a probe/pass/catalog that is preceded by other use of the same generator; distinct = (generator configuration, "
        "scenario, operation sequence)"
    )
    ctx.assume("numpy's Generator is a deterministic function of the SeedSequence child it is built from (the token abstraction)")
    ctx.assume("seed domain: the real seed 0 (falsy edge value) + two non-zero seeds per generator configuration (rotating over 1, 2, 7, "
               "12345, 2**31, 2**32-1, 2**32, 2**63, 2**64+11, ...), each used for construction and for reseed(s) at any point of a "
               "history; negative seeds are rejected by numpy's SeedSequence (invalid input, not explored)")
    ctx.assume("attribute samples: numpy arrays (float64, float32, int64), pandas Series (default index, integer index that is a "
               "permutation of 0..n-1, filtered / string index), Python lists and tuples, weights and redshifts in the same or in "
               "different containers (all 36 pairs); the oracle is the table by position (np.asarray(values)[k]).  Re-assigning "
               "generator.weights / .redshifts after construction is not an operation of the property (the samples are those "
               "supplied to the constructor)")
    ctx.assume("interleaving direct draws or a second reader INTO a running pass is outside the property ('used before'): "
               "the spec allows other operations only between passes (Abandon ends a pass early)")
    ctx.assume("healpy is not installed: HealPixRandoms runs on harness/fakehealpy.py (HEALPix nested/ring index arithmetic, "
               "self-tested: bijection, ring order, pix2ang/ang2pix round trip at nside 1..8, sub-pixel centres inside parent)")
    ctx.assume("ra_min > ra_max is not a wrap-around window for the library (numpy rejects low > high): not explored; "
               "RA is compared modulo 2 pi, Dec with a tolerance of 1e-12 + 4e-16/cos(dec_limit) rad (arcsin conditioning at the poles)")
    ctx.extra["not_decided"] = ("'uniformly distributed in area' is decided only against gross deviations: cell fractions of the "
                                "RandomWindow grid within 6 sigma (1e5/1e6 points per window); fine-scale uniformity, independence "
                                "of points and the uniformity of the attribute-row draw are NOT decided")

    if ctx.replay:
        with scratch("c16r_") as root:
            replay_file(ctx, yaw, root)
        return

    with scratch("c16p_") as root:
        observed = detect_probe_rule(ctx, yaw, root)
    ctx.extra["probe_rule_of_the_tree"] = list(observed) or ["unbounded (ideal)"]
    mc = model_check(ctx, observed)

    with scratch("c16_") as root:
        worlds = make_worlds(yaw, root, ctx.seed)
        shown = replay_counterexamples(ctx, worlds, mc["cex"])
        ctx.extra["deviation_replays"] = shown
        binding_selfcheck(ctx, worlds, mc["hist"])

        nbox = len(worlds["box"])
        # size sweep: every scenario on one generator configuration (rotating), more of them in the thorough tier
        per = 1 if quick else 3
        c1 = replay_histories(ctx, worlds, mc["size"], "size sweep", deadline=time.time() + (45 if quick else 900),
                              world_pick=lambda i, sc: [worlds["box"][(i * 5 + j * 7) % (8 if sc["k"] else nbox)] for j in range(per)])
        ctx.sample(dict(kind="size sweep", scenarios=c1["scenarios"], histories=c1.get("histories"),
                        example="from_random(N=12, chunksize=4) ; from_random again ; RandomReader pass: each 12 records in chunks 4,4,4"))
        # histories: full depth on rotating configurations
        deadline = time.time() + (75 if quick else 1500)
        c2 = replay_histories(ctx, worlds, mc["hist"], "histories", deadline=deadline,
                              world_pick=lambda i, sc: [worlds["box"][(i * 3 + j * 5 + ctx.seed) % (8 if sc["k"] else nbox)]
                                                        for j in range(1 if (quick or i == 0) else 2)])
        allh = [x for r in mc["hist"] for x in printed_hist(r)
                if x[1][-1]["op"] in ("from_random", "pass") and len({e["op"] for e in x[1]}) >= 3]
        for sc, hist in allh[:: max(1, len(allh) // 3)][:3]:
            ctx.sample(dict(scenario=sc, history=[op_text(e, sc) for e in hist],
                            expected_tokens_of_last_operation=[list(t[:3]) + [list(t[3]), t[4]] for t in hist[-1]["res"]]))
        c3 = replay_histories(ctx, worlds, mc["healpix"], "healpix histories",
                              world_pick=lambda i, sc: worlds["healpix"][: (1 if sc["k"] else 2) if quick else 3])
        for c in (c1, c2, c3):
            ctx.require(c["cut_by_time_budget"] or c.get("histories", 0) > 20, "too few histories replayed")
        ctx.extra["worlds"] = [w.describe() for w in worlds["box"][:3]] + [worlds["healpix"][0].describe()]

        window_check(ctx, yaw, ctx.seed)
        attr_check(ctx, yaw, worlds, ctx.seed)
        trace_validation(ctx, worlds, rng, observed)
        pool_runs(ctx, worlds, rng)
    ctx.exhaustive = not (c2["cut_by_time_budget"] or c1["cut_by_time_budget"])
