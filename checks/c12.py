"""C12 - patch metadata describe the patch, and patch i belongs to centre i.

Spec      : spec/Sky.tla - Nearest / Members / NumRecords / SumW / Radius per patch
            and catalog (MetaDescribesPatch), for every scenario of a family with
            three centres, single-object patches and unequal patch extents.
spec->code: scenarios are realised with the centres given in every order (patch i
            must be centre i whatever the order), in patch-index mode (patch_name)
            and with generated centres (patch_num); the reported keys, record
            counts, weight sums, centres and radii are compared with the model
            (radius = k * delta), every record must lie within the stored radius of
            the stored centre, and re-assigning the records to get_centers()
            must reproduce the partition.  Loading is repeated on the fake
            multiprocessing runtime with scrambled completion orders.
            Refusal: catalogs with different patch index sets, or with
            corresponding centres farther apart than the patch radius, must raise
            InconsistentPatchesError; catalogs with centres closer than half the
            radius must be accepted.
"""

from __future__ import annotations

import itertools
import math
import random

import numpy as np

from harness import data, detrt, par, sky
from harness.yawenv import scratch


def ang_dist(a, b):
    """great-circle distance (rad) of two (ra, dec) in rad, independent of the library."""
    va = np.array([math.cos(a[1]) * math.cos(a[0]), math.cos(a[1]) * math.sin(a[0]), math.sin(a[1])])
    vb = np.array([math.cos(b[1]) * math.cos(b[0]), math.cos(b[1]) * math.sin(b[0]), math.sin(b[1])])
    return 2.0 * math.asin(min(1.0, np.linalg.norm(va - vb) / 2.0))


def check_meta(ctx, yaw, cat, exp_num, exp_sw, exp_rad_steps, centres_given, delta_rad, mode, tag, detail, records_by_patch=None):
    keys = list(cat.keys())
    n = len(exp_num)
    if keys != list(range(n)):
        ctx.violation(f"C12|{mode}|{tag}|patch_ids_not_0_to_N-1", dict(detail, keys=keys))
        return False
    num, sw = list(cat.get_num_records()), list(cat.get_sum_weights())
    if num != list(exp_num) or sw != [float(x) for x in exp_sw]:
        ctx.violation(f"C12|{mode}|{tag}|count_or_weight_sum_differs", dict(detail, num=num, sw=sw, expected_num=list(exp_num), expected_sw=list(exp_sw)))
        return False
    cen = cat.get_centers().data
    rad = cat.get_radii().data
    if centres_given is not None:
        for i in range(n):
            if ang_dist(cen[i], centres_given[i]) > 1e-12:
                ctx.violation(f"C12|{mode}|{tag}|patch_i_is_not_centre_i", dict(detail, patch=i, stored=cen[i].tolist(), given=list(centres_given[i])))
                return False
            if exp_rad_steps is not None and abs(rad[i] - exp_rad_steps[i] * delta_rad) > 1e-9:
                ctx.violation(f"C12|{mode}|{tag}|radius_differs", dict(detail, patch=i, stored=float(rad[i]), expected=exp_rad_steps[i] * delta_rad))
                return False
    # every record within the stored radius of the stored centre; nearest stored centre reproduces the partition
    for pid, patch in cat.items():
        co = patch.coords.data
        for k in range(len(co)):
            d = ang_dist(co[k], cen[pid])
            if d > rad[pid] + 1e-12:
                ctx.violation(f"C12|{mode}|{tag}|record_outside_stored_radius", dict(detail, patch=pid, distance=d, radius=float(rad[pid])))
                return False
            if centres_given is not None:
                near = min(range(n), key=lambda j: ang_dist(co[k], cen[j]))
                if near != pid:
                    ctx.violation(f"C12|{mode}|{tag}|reported_centres_do_not_reproduce_partition", dict(detail, patch=pid, nearest=near))
                    return False
    return True


def run(ctx) -> None:
    yaw = data.import_yaw()
    from yaw.catalog.catalog import InconsistentPatchesError

    rng = random.Random(ctx.seed)
    quick = ctx.quick
    ctx.rule = ("scenarios of a 3-centre family enumerated by TLC, realised with every order of the centre list, by patch index and with generated "
                "centres; non-trivial = unequal patch sizes or radii")
    sc = sky.SkyConfig(nref=4, nunk=3, zcells="{2}", weights="{1, 2}", centres=(1, 5, 9), slots="{0, 1, 3, 5, 6, 9}", rmin=(2.5,), rmax=(12.5,)).derive()
    res, scen = sky.model_check(ctx, "Sky ideal, 3 centres, 4+3 objects, weights", sc, ["MetaDescribesPatch", "LinkSymmetric", "SelfLinked"], print_inv="PrintMeta")
    ctx.require(res.ok and scen, f"Sky ideal violated: {res.error_name}")
    ctx.extra["scenarios_enumerated"] = len(scen)
    delta = math.radians(sc.delta)
    embs = list(sky.EMBEDDINGS)
    perms = list(itertools.permutations(range(3)))
    chosen = rng.sample(scen, min(len(scen), 160 if quick else 1200))
    with scratch("c12_") as root:
        par.pmap(ctx, realise_job, [(n, exp, sc, str(root / f"job{n}"), ctx.seed) for n, exp in enumerate(chosen)])
        refusal(ctx, yaw, root, sc, rng, InconsistentPatchesError)
        refusal_roles(ctx, yaw, root, sc, InconsistentPatchesError)
        big_patch(ctx, yaw, root)
        generated(ctx, yaw, root, rng)


def realise_job(ctx, job) -> None:
    import shutil
    from pathlib import Path

    yaw = data.import_yaw()
    n, exp, sc, root, seed = job
    root = Path(root)
    root.mkdir(parents=True, exist_ok=True)
    delta = math.radians(sc.delta)
    embs = list(sky.EMBEDDINGS)
    perms = list(itertools.permutations(range(3)))
    try:
        _realise(ctx, yaw, n, exp, sc, root, delta, embs, perms)
    finally:
        shutil.rmtree(root, ignore_errors=True)


def _realise(ctx, yaw, n, exp, sc, root, delta, embs, perms) -> None:
        emb = embs[n % len(embs)]
        perm = perms[n % len(perms)]
        # centres given in permuted order: patch k must be the k-th GIVEN centre
        cen = sky.centre_coords(sc, emb, perm=perm)
        dref, dunk = sky.frames(sc, exp, emb, order=n)
        inv = [perm.index(i) for i in range(3)]           # model patch i (0-based) -> real patch id
        detail = dict(embedding=emb, centre_order=list(perm), ref=[dict(o) for o in exp["ref"]])
        nontriv = len(set(exp["num1"])) > 1 or len(set(exp["rad1"])) > 1
        ctx.evaluated(1, (emb, perm, repr(exp["ref"])) if nontriv else None)
        ctx.validated(1)
        try:
            cat = yaw.Catalog.from_dataframe(root / "a", dref, ra_name="ra", dec_name="dec", weight_name="w", redshift_name="z",
                                             patch_centers=cen, overwrite=True, max_workers=1, chunksize=2)
        except Exception as exc:  # noqa: BLE001
            ctx.violation(f"C12|apply|creation_raises_{type(exc).__name__}", dict(detail, error=repr(exc)[:200]))
            return
        e_num = [exp["num1"][perm[k]] for k in range(3)]
        e_sw = [exp["sumw1"][perm[k]] for k in range(3)]
        e_rad = [exp["rad1"][perm[k]] for k in range(3)]
        given = cen.data.copy()
        ok = check_meta(ctx, yaw, cat, e_num, e_sw, e_rad, given, delta, "apply", "centres_permuted" if perm != (0, 1, 2) else "centres_in_order", detail)
        if ok:
            # the catalog must not alias the caller's centre array
            cen.data[:] = cen.data[::-1] + 0.3
            if not np.array_equal(cat.get_centers().data, given):
                ctx.violation("C12|apply|centres_array_modified_afterwards|reported_centres_follow_the_callers_array", dict(detail))
            cen = sky.centre_coords(sc, emb, perm=perm)
        if ok and n % 3 == 0:
            # reload with several workers and scrambled completion orders (metadata recomputed)
            data.copy_cache(root / "a", root / "b")
            s, outcome = detrt.run_main(lambda: yaw.Catalog(root / "b", max_workers=3), seed=n)
            if outcome[0] == "ok":
                # metadata without given centres: centre = weighted mean; only counts and containment are fixed
                check_meta(ctx, yaw, outcome[1], e_num, e_sw, None, None, delta, "reload_parallel", "scrambled_completion_order", detail)
            else:
                ctx.violation(f"C12|reload_parallel|{outcome[0]}", dict(detail, error=repr(outcome[1])[:200]))
        if ok and n % 3 == 2:
            # a multi-step history on ONE cache directory in ONE process: restore the catalog sequentially (metadata read
            # from meta.yml), then overwrite it with the same records under another order of the centres; the metadata of
            # the new catalog must describe the new patches (nothing remembered from the directory's previous content)
            try:
                r1 = yaw.Catalog(root / "a", max_workers=1)
                check_meta(ctx, yaw, r1, e_num, e_sw, e_rad, given, delta, "restore_sequential", "unchanged_cache", detail)
                perm2 = (perm[1], perm[2], perm[0])
                cen2 = sky.centre_coords(sc, emb, perm=perm2)
                o1 = yaw.Catalog.from_dataframe(root / "a", dref, ra_name="ra", dec_name="dec", weight_name="w", redshift_name="z",
                                                patch_centers=cen2, overwrite=True, max_workers=1, chunksize=2)
                ctx.evaluated(1, ("overwrite_after_restore", emb, perm))
                for tag, c_ in (("overwrite_after_restore_in_same_process", o1), ("overwrite_after_restore_then_restore", yaw.Catalog(root / "a", max_workers=1))):
                    check_meta(ctx, yaw, c_, [exp["num1"][perm2[k]] for k in range(3)], [exp["sumw1"][perm2[k]] for k in range(3)],
                               [exp["rad1"][perm2[k]] for k in range(3)], cen2.data.copy(), delta, "apply", tag, dict(detail, centre_order_before=list(perm), centre_order=list(perm2)))
            except Exception as exc:  # noqa: BLE001
                ctx.violation(f"C12|apply|overwrite_after_restore_in_same_process|raises_{type(exc).__name__}", dict(detail, error=repr(exc)[:200]))
        if n % 4 == 0:
            # patch-index mode: ids from the model's assignment
            dd = dref.copy()
            pts = np.deg2rad(dd[["ra", "dec"]].to_numpy())
            dd["pid"] = [min(range(3), key=lambda j: ang_dist(p, cen.data[j])) for p in pts]
            c2 = yaw.Catalog.from_dataframe(root / "c", dd, ra_name="ra", dec_name="dec", weight_name="w", redshift_name="z",
                                            patch_name="pid", overwrite=True, max_workers=1)
            check_meta(ctx, yaw, c2, e_num, e_sw, None, None, delta, "divide", "patch_index_column", detail)
        if n % 4 == 2:
            # centres given TOGETHER with a (stale, disagreeing) patch index column: documented - the column is ignored
            dd = dref.copy()
            pts = np.deg2rad(dd[["ra", "dec"]].to_numpy())
            near = [min(range(3), key=lambda j: ang_dist(p, cen.data[j])) for p in pts]
            dd["pid"] = [(k + 1) % 3 for k in near]
            c4 = yaw.Catalog.from_dataframe(root / "d", dd, ra_name="ra", dec_name="dec", weight_name="w", redshift_name="z",
                                            patch_centers=cen, patch_name="pid", overwrite=True, max_workers=1, chunksize=2)
            check_meta(ctx, yaw, c4, e_num, e_sw, e_rad, cen.data.copy(), delta, "apply", "centres_and_stale_patch_column", detail)
        if n % 3 == 1:
            # a given centre that attracts no object (far side of the ring), at every position of the list: creation must
            # refuse (C09) - a catalog that comes back must still have patch i = centre i for the N given centres
            pos = (n // 3) % 4
            far = np.deg2rad(np.array([sky.embed(36 + 2 * (n % 3), sc.M, emb)]))
            pts = np.insert(cen.data, pos, far, axis=0)
            ctx.evaluated(1, ("empty_centre", emb, perm, pos))
            try:
                c3 = yaw.Catalog.from_dataframe(root / "e", dref, ra_name="ra", dec_name="dec", weight_name="w", redshift_name="z",
                                                patch_centers=yaw.AngularCoordinates(pts), overwrite=True, max_workers=1, chunksize=3)
            except Exception:  # noqa: BLE001 - refused
                c3 = None
            if c3 is not None:
                keys = list(c3.keys())
                place = ["first", "middle", "middle", "last"][pos]
                d3 = dict(detail, given_centres=pts.tolist(), empty_centre_position=pos, keys=keys)
                if keys != list(range(4)):
                    ctx.violation(f"C12|apply|centre_without_objects_{place}|patch_ids_not_0_to_N-1", d3)
                else:
                    got = c3.get_centers().data
                    if any(ang_dist(got[i], pts[i]) > 1e-12 for i in range(4)):
                        ctx.violation(f"C12|apply|centre_without_objects_{place}|patch_i_is_not_centre_i", dict(d3, stored=got.tolist()))
        if len(ctx.samples) < 4 and nontriv:
            ctx.sample(dict(detail, expected_num=e_num, expected_radius_steps=e_rad))


def refusal(ctx, yaw, root, sc, rng, Err):
    """measurements refuse misaligned catalogs"""
    import pandas as pd

    cfg = sc.yaw_config()

    def mk(path, pts, pid, z=True):
        df = pd.DataFrame(dict(ra=[p[0] for p in pts], dec=[p[1] for p in pts], w=1.0, z=0.3, pid=pid))
        kw = dict(ra_name="ra", dec_name="dec", weight_name="w", patch_name="pid", overwrite=True, max_workers=1)
        if z:
            kw["redshift_name"] = "z"
        return yaw.Catalog.from_dataframe(path, df, **kw)

    cases = []
    # (name, ref points/pids, unk points/pids, expectation)
    base = [(20.0, 0.0), (21.0, 0.5), (40.0, 0.0), (41.0, 0.5)]
    cases.append(("different_patch_ids", (base, [0, 0, 1, 1]), (base + [(60.0, 0.0)], [0, 0, 1, 1, 2]), "must_refuse"))
    cases.append(("patches_swapped", (base, [0, 0, 1, 1]), (base, [1, 1, 0, 0]), "must_refuse"))
    cases.append(("centre_farther_than_radius", (base, [0, 0, 1, 1]), ([(25.0, 0.0), (25.5, 0.2), (40.0, 0.0), (41.0, 0.5)], [0, 0, 1, 1]), "must_refuse"))
    cases.append(("single_object_patch_elsewhere", ([(90.0, 0.0), (40.0, 0.0), (41.0, 0.5), (42.0, 0.1)], [0, 1, 1, 1]),
                  ([(55.0, 5.0), (40.2, 0.0), (41.0, 0.4)], [0, 1, 1]), "must_refuse"))
    big = [(40.0 + 0.1 * k, 0.05 * (k % 7)) for k in range(9)] + [(20.0 + 0.1 * k, 0.05 * (k % 5)) for k in range(9)]
    # the FIRST catalog is the smaller one and is misaligned with the (larger) later catalog
    cases.append(("first_catalog_smaller_but_aligned", (base, [1, 1, 0, 0]), (big, [0] * 9 + [1] * 9), "must_accept"))
    cases.append(("first_catalog_smaller_and_misaligned", (base, [0, 0, 1, 1]), (big, [0] * 9 + [1] * 9), "must_refuse"))
    cases.append(("aligned", (base, [0, 0, 1, 1]), ([(20.2, 0.1), (20.9, 0.4), (40.1, 0.1), (40.9, 0.4)], [0, 0, 1, 1]), "must_accept"))
    cases.append(("aligned_shifted_a_little", (base, [0, 0, 1, 1]), ([(20.1, 0.0), (21.1, 0.5), (40.1, 0.0), (41.1, 0.5)], [0, 0, 1, 1]), "must_accept"))
    for name, (rp, rid), (up, uid), want in cases:
        ref = mk(root / "r_ref", rp, rid)
        unk = mk(root / "r_unk", up, uid, z=False)
        for ep in ("crosscorrelate", "autocorrelate"):
            try:
                if ep == "crosscorrelate":
                    yaw.crosscorrelate(cfg, ref, unk, unk_rand=unk, max_workers=1)
                else:
                    yaw.autocorrelate(cfg, ref, mk(root / "r_rnd", up, uid), count_rr=False, max_workers=1)
                got = "accepted"
            except Err:
                got = "refused"
            except Exception as exc:  # noqa: BLE001
                got = f"raises_{type(exc).__name__}"
            ctx.evaluated(1, ("refusal", name, ep))
            if want == "must_refuse" and got != "refused":
                ctx.violation(f"C12|{ep}|{name}|not_refused_{got}", dict(case=name, ref=rp, unk=up))
            if want == "must_accept" and got != "accepted":
                ctx.violation(f"C12|{ep}|{name}|aligned_catalogs_{got}", dict(case=name, ref=rp, unk=up))


def refusal_roles(ctx, yaw, root, sc, Err):
    """crosscorrelate with all four catalogs: the guard must look at EVERY catalog, whichever role the misaligned one
    has, and a catalog with legitimately wider patches must not widen the tolerance for the others."""
    import pandas as pd

    cfg = sc.yaw_config()

    def mk(name, pts, pid, z):
        df = pd.DataFrame(dict(ra=[p[0] for p in pts], dec=[p[1] for p in pts], w=1.0, z=0.3, pid=pid))
        kw = dict(ra_name="ra", dec_name="dec", weight_name="w", patch_name="pid", overwrite=True, max_workers=1)
        if z:
            kw["redshift_name"] = "z"
        return yaw.Catalog.from_dataframe(root / name, df, **kw)

    def blob(ra0, n, spread=1.0):
        return [(ra0 + spread * (k / max(n - 1, 1)), 0.5 * ((k * 7) % 5) / 4.0) for k in range(n)]

    good = lambda n: (blob(20.0, n) + blob(40.0, n), [0] * n + [1] * n)                 # noqa: E731
    swapped = lambda n: (blob(20.0, n) + blob(40.0, n), [1] * n + [0] * n)              # noqa: E731
    shifted = lambda n: (blob(21.8, n) + blob(40.0, n), [0] * n + [1] * n)              # noqa: E731 - patch 0 off by 1.8 deg (radius ~0.55)
    extra = lambda n: (blob(20.0, n) + blob(40.0, n) + blob(60.0, n), [0] * n + [1] * n + [2] * n)   # noqa: E731
    wide = lambda n: (blob(15.5, n, spread=10.0) + blob(40.0, n), [0] * n + [1] * n)    # noqa: E731 - same centre, patch 0 ten times as wide
    sizes = dict(reference=12, unknown=3, ref_rand=9, unk_rand=8)       # the reference is the largest catalog in every patch
    for badname, bad in (("patches_swapped", swapped), ("centre_farther_than_radius", shifted), ("different_patch_ids", extra)):
        for role in ("unknown", "ref_rand", "unk_rand"):
            for widen in (None, "unk_rand", "ref_rand"):
                if widen == role:
                    continue
                cats = {}
                for r, n in sizes.items():
                    pts, pid = (bad if r == role else wide if r == widen else good)(n)
                    cats[r] = mk(f"rr_{r}", pts, pid, z=r in ("reference", "ref_rand"))
                try:
                    yaw.crosscorrelate(cfg, cats["reference"], cats["unknown"], ref_rand=cats["ref_rand"], unk_rand=cats["unk_rand"], max_workers=1)
                    got = "accepted"
                except Err:
                    got = "refused"
                except Exception as exc:  # noqa: BLE001
                    got = f"raises_{type(exc).__name__}"
                ctx.evaluated(1, ("refusal_roles", badname, role, widen))
                if got != "refused":
                    ctx.violation(f"C12|crosscorrelate|{badname},misaligned={role}{',wide_patches_in=' + widen if widen else ''}|not_refused_{got}",
                                  dict(case=badname, misaligned_catalog=role, catalog_with_wide_patch=widen, sizes=sizes))
    # aligned catalogs, one of them with a legitimately wider patch: must be accepted
    for widen in ("unk_rand", "ref_rand", "unknown"):
        cats = {}
        for r, n in sizes.items():
            pts, pid = (wide if r == widen else good)(n)
            cats[r] = mk(f"rr_{r}", pts, pid, z=r in ("reference", "ref_rand"))
        try:
            yaw.crosscorrelate(cfg, cats["reference"], cats["unknown"], ref_rand=cats["ref_rand"], unk_rand=cats["unk_rand"], max_workers=1)
            got = "accepted"
        except Exception as exc:  # noqa: BLE001
            got = f"raises_{type(exc).__name__}"
        ctx.evaluated(1, ("refusal_roles", "aligned", widen))
        if got != "accepted":
            ctx.violation(f"C12|crosscorrelate|aligned,wide_patches_in={widen}|aligned_catalogs_{got}", dict(catalog_with_wide_patch=widen))


def big_patch(ctx, yaw, root) -> None:
    """A patch with more than 2^20 records whose outskirts arrive last (index arithmetic at scale): every record
    within the stored radius of the stored centre, counts and weight sums exact, after creation and after reopening."""
    import pandas as pd

    n0, n1 = 1_102_000, 101_000
    rng = np.random.default_rng(5)
    # six chunks of 200000 rows hold the 1.1 million central records of patch 0 (and 100000 of patch 1); the 2000
    # records in the outskirts of patch 0 arrive alone in the seventh chunk: they are the last ones in its data file
    ra = np.concatenate([20.0 + rng.uniform(-0.3, 0.3, n0 - 2000), 40.0 + rng.uniform(-0.3, 0.3, n1 - 1000),
                         20.0 + rng.uniform(0.7, 0.8, 2000), 40.0 + rng.uniform(-0.3, 0.3, 1000)])
    dec = rng.uniform(-0.05, 0.05, n0 + n1)
    df = pd.DataFrame(dict(ra=ra, dec=dec, w=np.ones(n0 + n1)))
    cen = yaw.AngularCoordinates(np.deg2rad([[20.0, 0.0], [40.0, 0.0]]))
    cat = yaw.Catalog.from_dataframe(root / "big", df, ra_name="ra", dec_name="dec", weight_name="w", patch_centers=cen, chunksize=200_000,
                                     overwrite=True, max_workers=1)
    for label, c in (("created", cat), ("reopened", yaw.Catalog(root / "big", max_workers=1))):
        ctx.evaluated(1, ("big_patch", label))
        num = list(c.get_num_records())
        if num != [n0, n1]:
            ctx.violation(f"C12|apply|patch_with_more_than_2^20_records,{label}|count_or_weight_sum_differs", dict(num=num, expected=[n0, n1]))
            continue
        centers, radii = c.get_centers().data, c.get_radii().data
        for pid, patch in c.items():
            d = patch.load_data()
            r0, d0 = centers[pid]
            # great-circle distance of every record to the stored centre (haversine, vectorised)
            h = np.sin((d["dec"] - d0) / 2) ** 2 + np.cos(d["dec"]) * np.cos(d0) * np.sin((d["ra"] - r0) / 2) ** 2
            dist = 2 * np.arcsin(np.sqrt(np.clip(h, 0, 1)))
            if float(dist.max()) > float(radii[pid]) + 1e-12:
                ctx.violation(f"C12|apply|patch_with_more_than_2^20_records,{label}|record_outside_stored_radius",
                              dict(patch=int(pid), stored_radius_deg=float(np.rad2deg(radii[pid])), farthest_record_deg=float(np.rad2deg(dist.max())),
                                   records=int(len(d))))
                break


def generated(ctx, yaw, root, rng):
    """patch_num mode (k-means centres are not fixed by the property): metadata must still describe the patches"""
    df = data.frame(ctx.seed + 5, 400, 4, sep_deg=6.0, spread_deg=2.5, int_weights=True)
    cat = yaw.Catalog.from_dataframe(root / "gen", df, ra_name="ra", dec_name="dec", weight_name="w", redshift_name="z", patch_num=4,
                                     overwrite=True, max_workers=1, probe_size=200)
    cen, rad = cat.get_centers().data, cat.get_radii().data
    tot = 0
    for pid, patch in cat.items():
        d = patch.load_data()
        tot += len(d)
        if patch.meta.num_records != len(d) or abs(patch.meta.sum_weights - float(d["weights"].sum())) > 0:
            ctx.violation("C12|create|generated_centres|count_or_weight_sum_differs", dict(patch=pid))
        for k in range(len(d)):
            if ang_dist((d["ra"][k], d["dec"][k]), cen[pid]) > rad[pid] + 1e-12:
                ctx.violation("C12|create|generated_centres|record_outside_stored_radius", dict(patch=pid))
                break
    ctx.evaluated(1, ("generated",))
    if tot != 400 or list(cat.keys()) != [0, 1, 2, 3]:
        ctx.violation("C12|create|generated_centres|patch_ids_or_total_differ", dict(total=tot, keys=list(cat.keys())))
