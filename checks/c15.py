"""C15 - configurations mean what their parameters say; modify equals create.

Spec      : spec/Config.tla.  Declarative layer (Verdict / Declared / Merge:
            what the property says a parameter record means, incl. the class
            "open" where it says nothing) and operational layer (one action per
            code step of Configuration.create / .modify, the sub-configurations'
            create / modify / from_dict / to_dict / __eq__, parse_cosmology, the
            unit -> distance-measure table).  TLC checks, for every parameter
            record and every history of modifications of the explored domains,
            that the operational design yields exactly the declared
            configuration: Validation, ModifyEqualsCreate, WellFormed (incl.
            "comoving edges are those of the configuration's cosmology" and
            "edges span exactly [zmin, zmax]"), EqualParamsCompareEqual,
            EqNeverRaises, RoundTripIdentity, OriginalUnchanged, Termination.
            Deviation configs (the code as found, plus "PhysicalViaComoving":
            D_A derived as D_C/(1+z)) must each produce their counterexample,
            which is replayed on the real code.  The cosmology dimension has
            kinds with AND without the identity D_A = D_C/(1+z) (flat astropy
            models / curved LambdaCDM open + closed / CustomCosmology with its
            own angular_diameter_distance): the spec names which distance
            method of which cosmology an angle is r / D(z) of, and TLC shows
            that a domain of flat cosmologies alone cannot tell the two
            measures apart (PhysicalViaComoving passes there).
spec->code: TLC prints one line per completed public operation (history, verdict,
            expected abstract object, expected sub-result of every code step,
            expected observations).  EVERY such history of every slice is executed
            on the real library (history trees, each edge once; forked workers);
            after each operation the real objects are projected to the abstract
            state (bin edges are matched numerically against the formula the
            abstract binning names: exact rationals / ln(1+z) / equal comoving
            distance for each candidate cosmology, computed independently with
            astropy + brentq) and compared with TLC's state; the code steps are
            bound to the real ScalesConfig / BinningConfig / parse_cosmology
            calls; angles are compared with r / D(z), D = the distance method
            the spec names (angular_diameter_distance for kpc/Mpc,
            comoving_distance for kpc/h, Mpc/h) of the configured cosmology
            object itself, for EVERY observation of the operation's schedule
            (create/modify: the new object twice; a configuration built with
            the public constructor from the parts OBJECTS of a donor and another
            cosmology: donor and new object in both orders, each repeatedly -
            conversions are pure); a mismatch is classified by a fresh Scales
            object (conversion wrong / state carried between conversions); the curved / custom distances are cross-checked
            against an own Friedmann integral resp. the closed forms.
oracle    : a violation is raised only from the real objects: outcome class
            (raised / returned) against the declared verdict, projection against
            the declared configuration, modify result against a real
            Configuration.create(**merged), original object bit-identical before
            and after, `==` of equal-parameter twins, angles vs. astropy.
            Where the property leaves the outcome open (verdict "open") only
            drift is recorded.  A subtree below a divergence is not replayed.
keys      : C15|<entry point>|<input class>|<outcome>; the input class is taken
            from the SMALLEST sub-modification that shows the same symptom
            (siblings with fewer parameters are replayed first), so all
            instances of one defect share the key of its minimal trigger.
"""

from __future__ import annotations

import concurrent.futures
import itertools
import json
import math
import os
import random
import re
import time
import warnings
from fractions import Fraction

import numpy as np

from harness import data, tlaval, tlc
from harness.core import Ctx
from harness.tlaval import to_tla
from harness.yawenv import scratch

INVS = ["TypeOK", "Validation", "ModifyEqualsCreate", "RebuildEqualsCreate", "OriginalUnchanged", "WellFormed", "EqualParamsCompareEqual",
        "EqNeverRaises", "RoundTripIdentity", "AnglesUseConfiguredCosmology"]
ACTIONS = ["SomeCreate", "CreateParseCosmology", "CreateScales", "CreateBinning", "CreateConstruct", "SomeModify",
           "ModifyScales", "ModifyBinning", "ModifyCosmology", "ModifyConstruct", "SomeRebuild", "RebuildConstruct", "Raise", "ObserveAngles", "ObserveEq",
           "ObserveToDict", "ObserveFromDict", "Finish"]
KEYS = ["rmin", "rmax", "unit", "rw", "res", "zmin", "zmax", "nb", "method", "edges", "closed", "cosmo", "workers"]
PFIELDS = KEYS  # order of CompactParams
NONE = -1

# deviation -> (invariant its counterexample must violate, aspect of the final state that
# shows it, minimal domain (P, D) that triggers this deviation and no other defect)
DEVIATIONS = {
    "EqRbinNum": ("EqualParamsCompareEqual", "eq", dict(), dict()),
    "CustomFromDictStrict": ("RoundTripIdentity", "rt", dict(zpairs=[(NONE, NONE)], edges=[(10, 30, 70)]), dict()),
    "CustomModifyDropsEdges": ("ModifyEqualsCreate", "outcome", dict(zpairs=[(NONE, NONE)], edges=[(10, 30, 70)]), dict(closed=["left"])),
    "ModifyPassesRawCosmology": ("ModifyEqualsCreate", "outcome", dict(methods=["comoving"], cosmos=["WMAP9"]), dict(rmin=[(50,)])),
    "ForwardRefIsinstance": ("Validation", "outcome", dict(cosmos=["custom"]), dict()),
    "ComovingZeroZmin": ("Validation", "outcome", dict(methods=["comoving"], zpairs=[(0, 100)]), dict()),
    "ModifyEdgesNoneIsCustom": ("ModifyEqualsCreate", "outcome", dict(), dict(edges=[()])),
    "ComovingCustomFloats": ("Validation", "binning_step", dict(methods=["comoving"], cosmos=["custom"]), dict()),
    "InexactEndPoints": ("Validation", "end_points", dict(methods=["comoving"]), dict()),
    "PhysicalViaComoving": ("AnglesUseConfiguredCosmology", "angle", dict(cosmos=["open"]), dict()),
    "AngleMemoIgnoresCosmology": ("AnglesUseConfiguredCosmology", "angle_seq", dict(), dict(rebuild=[("WMAP9", ("d", "n"))])),
    "AngularInPlace": ("AnglesUseConfiguredCosmology", "angle_seq", dict(units=["arcmin"]), dict()),
}
# observation schedules of a rebuild ("d" donor, "n" new configuration): both orders, each object repeatedly
SCHEDS_QUICK = [("d", "n", "d"), ("n", "d", "n")]
SCHEDS_FULL = SCHEDS_QUICK + [("d", "n"), ("n", "d"), ("d", "d", "n", "n"), ("n", "n", "d", "d")]
# cosmology kinds: with / without the identity D_A(z) = D_C(z) / (1+z)
CUSTOM = ("custom", "customDA")
CURVED = ("open", "closed")
FLRW_KINDS = ("Planck15", "WMAP9", "anon") + CURVED
REL_TIED, REL_FREE = "DA=DC/(1+z)", "independent"

# ---------------------------------------------------------------------------
# domains (TLA+ text).  z in 1/100; scales, rweight tokens are opaque ints.
# ---------------------------------------------------------------------------

S1 = ((100,), (1000,))
S2 = ((100, 500), (1000, 2500))
S3 = ((100, 200), (1000, 500))  # overlapping ranges
SBAD = [((1000,), (100,)), ((500,), (500,)), ((100, 500), (1000, 500))]
SMIS = ((100, 500), (1000,))
E1 = (10, 30, 70)
E2 = (5, 20, 50, 100, 300)
EBAD = [(10, 10, 30), (30, 10)]
UNITS = ["kpc", "Mpc", "rad", "deg", "arcmin", "arcsec", "kpc/h", "Mpc/h"]
COSMOS = ["omitted", "none", "Planck15", "WMAP9", "s:Planck15", "s:WMAP9", "anon", "open", "closed", "custom", "customDA", "s:Bogus", "badtype"]


def tset(values) -> str:
    return "{" + ", ".join(to_tla(v) for v in values) + "}"


def make_slice(name, P, D=None, modkeys=(), maxmods=0, maxdelta=0, workers=2):
    base_p = dict(scales=[S1], units=["kpc"], rw=[(NONE, NONE)], zpairs=[(10, 100)], numbins=[3], methods=["linear"],
                  edges=[()], closeds=["right"], cosmos=["omitted"], workers=[NONE])
    base_p.update(P)
    base_d = dict(rmin=[], rmax=[], unit=[], rw=[], res=[], zmin=[], zmax=[], nb=[], method=[], edges=[], closed=[],
                  cosmo=[], workers=[], rebuild=[])
    base_d.update(D or {})
    if not modkeys:
        modkeys = [k for k in KEYS if base_d[k]]
    return dict(name=name, P=base_p, D=base_d, modkeys=list(modkeys), maxmods=maxmods, maxdelta=maxdelta, workers=workers)


def mc_module(sl, devs=()) -> str:
    def rec(d):
        return "[" + ", ".join(f"{k} |-> {tset(v)}" for k, v in d.items()) + "]"

    return (
        "---- MODULE Config_MC ----\nEXTENDS Config\n"
        f"PDef == {rec(sl['P'])}\nDDef == {rec(sl['D'])}\n"
        f"ModKeysDef == {tset(sl['modkeys'])}\nDevDef == {tset(sorted(devs))}\n====\n"
    )


def run_slice(sl, devs=(), invariants=None, printing=True, coverage=True, liveness=False):
    invs = list(invariants if invariants is not None else INVS)
    if printing:
        invs.append("PrintCases")
    cfg = tlc.make_cfg(
        constants=dict(P="<- PDef", D="<- DDef", ModKeys="<- ModKeysDef", Deviations="<- DevDef",
                       MaxMods=sl["maxmods"], MaxDelta=sl["maxdelta"]),
        invariants=invs, properties=["Termination"] if liveness else [], deadlock=True,
    )
    return tlc.run("Config_MC", cfg, extra_modules={"Config_MC": mc_module(sl, devs)}, coverage=coverage,
                   workers=sl["workers"], timeout=3000)


def slices(quick: bool) -> list[dict]:
    dsmall = dict(
        rmin=[(50,), (2000,)], rmax=[(5000,)], unit=["deg", "kpc/h", "pc"], rw=[2], res=[10],
        zmin=[20, 150], zmax=[200], nb=[2], method=["linear", "comoving", "logspace", "custom", "bogus"],
        edges=[(), E2, EBAD[1]], closed=["left", "right"], cosmo=["WMAP9", "none", "s:WMAP9", "s:Bogus", "custom"],
        workers=[4, NONE],
    )
    dfull = dict(
        rmin=[(50,), (50, 60), (2000,)], rmax=[(5000,), (5000, 6000)], unit=["Mpc", "deg", "arcsec", "kpc/h", "pc"],
        rw=[NONE, 2], res=[NONE, 10], zmin=[20, 0, 150], zmax=[200, 5], nb=[1, 2], method=["linear", "comoving", "logspace", "custom", "bogus"],
        edges=[(), E2, EBAD[0], EBAD[1]], closed=["left", "right"],
        cosmo=["WMAP9", "Planck15", "none", "s:WMAP9", "s:Planck15", "s:Bogus", "custom", "anon", "badtype", "open", "customDA"], workers=[4, NONE],
    )
    out = [
        make_slice("create-generated", dict(
            zpairs=[(10, 100), (0, 300), (50, 50), (100, 50), (NONE, NONE), (10, NONE), (NONE, 100)] + ([] if quick else [(1, 150), (20, 21)]),
            numbins=[1, 3, 0] if quick else [1, 2, 3, 30, 0],
            methods=["linear", "comoving", "logspace", "custom", "bogus"], closeds=["right", "left"])),
        make_slice("create-custom", dict(
            zpairs=[(NONE, NONE), (10, NONE)], edges=[(), E1, E2, EBAD[0], EBAD[1], (30,)] + ([] if quick else [(0, 1), (10, 30, 20)]),
            methods=["linear", "comoving", "custom", "bogus"], closeds=["right", "left"])),
        make_slice("create-both", dict(
            zpairs=[(10, 100), (100, 50)], edges=[E1, EBAD[0]], methods=["linear", "comoving", "bogus"])),
        make_slice("create-cosmology", dict(
            units=["kpc", "Mpc/h"], methods=["linear", "comoving", "logspace"], edges=[(), E1], cosmos=COSMOS, workers=[NONE, 2],
            zpairs=[(10, 100), (NONE, NONE)], numbins=[1, 3, 30])),
        make_slice("create-scales", dict(
            scales=[S1, S2, S3, SMIS] + SBAD, units=UNITS + ["pc"], rw=[(NONE, NONE), (1, NONE), (1, 20), (2, 50)],
            cosmos=["omitted", "WMAP9", "custom", "open", "customDA"])),
        # cosmologies whose angular diameter distance is NOT comoving distance / (1+z): every unit, single and multiple scales
        make_slice("create-curved", dict(
            scales=[S1, S2], units=UNITS, methods=["linear", "comoving"], numbins=[3] if quick else [1, 3],
            cosmos=["open", "closed", "customDA", "custom", "anon"])),
        make_slice("modify-curved", dict(
            scales=[S1, S2], units=["kpc", "Mpc/h"], methods=["linear", "comoving"], cosmos=["omitted", "open", "closed", "customDA"]),
            dict(cosmo=["open", "closed", "customDA", "custom", "WMAP9", "none"], unit=["Mpc", "kpc/h", "deg"] if quick else ["Mpc", "kpc", "kpc/h", "Mpc/h", "deg"],
                 rmin=[(50,), (50, 60)], rmax=[(5000,), (5000, 6000)], rw=[2], zmin=[20], nb=[2], method=["comoving"] if quick else ["comoving", "linear"],
                 closed=["left"], workers=[4]),
            maxmods=1, maxdelta=2, workers=4),
        make_slice("histories-curved", dict(units=["Mpc"], cosmos=["open", "customDA"], methods=["linear", "comoving"]),
                   dict(cosmo=["closed", "customDA", "none"], unit=["kpc/h", "kpc"], rmin=[(50,)], zmax=[200], method=["comoving"]),
                   maxmods=2 if quick else 3, maxdelta=1, workers=4),
        make_slice("modify-generated", dict(
            methods=["linear", "comoving"] if quick else ["linear", "comoving", "logspace"],
            cosmos=["omitted", "WMAP9"] if quick else ["omitted", "WMAP9", "anon"],
            scales=[S1] if quick else [S1, S2], closeds=["right"] if quick else ["right", "left"]),
            dsmall if quick else dfull, maxmods=1, maxdelta=2, workers=4),
        make_slice("modify-logspace", dict(methods=["logspace"], cosmos=["s:WMAP9"], closeds=["left"], scales=[S2], units=["arcmin"]),
                   dfull, maxmods=1, maxdelta=1),
        make_slice("modify-custom", dict(
            zpairs=[(NONE, NONE)], edges=[E1], cosmos=["omitted", "WMAP9"], closeds=["right", "left"]),
            dsmall if quick else dfull, maxmods=1, maxdelta=2, workers=4),
        make_slice("histories", dict(
            zpairs=[(10, 100), (NONE, NONE)], edges=[(), E1], methods=["linear", "comoving"], cosmos=["omitted", "WMAP9"]),
            dict(rmin=[(50,)], unit=["Mpc/h"], rw=[2], zmin=[20], zmax=[200], nb=[2], method=["comoving", "linear"],
                 edges=[E2, ()], closed=["left"], cosmo=["WMAP9", "none"], workers=[4]),
            maxmods=2 if quick else 3, maxdelta=1, workers=4),
    ]
    # Configuration(scales, binning, cosmology=...) from the PARTS of an existing configuration (shared parts objects), angles observed
    # on donor and new configuration in both orders and repeatedly: every unit; then histories (rebuild of a rebuild, modify after it)
    scheds = SCHEDS_QUICK if quick else SCHEDS_FULL
    rtoks = ["WMAP9", "open", "customDA", "none", "s:Bogus"] + ([] if quick else ["closed", "custom", "s:WMAP9", "badtype"])
    out.append(make_slice("rebuild", dict(scales=[S1, S2], units=UNITS, methods=["linear"] if quick else ["linear", "logspace"],
                                          cosmos=["omitted", "open", "customDA", "WMAP9"]),
                          dict(rebuild=[(t, sc) for t in rtoks for sc in scheds]), maxmods=1, maxdelta=0, workers=4))
    out.append(make_slice("rebuild-histories", dict(units=["kpc", "Mpc/h", "arcmin"] if quick else ["kpc", "Mpc", "Mpc/h", "arcsec"],
                                                    zpairs=[(10, 100), (NONE, NONE)], edges=[(), E1], cosmos=["omitted", "open"]),
                          dict(rebuild=[(t, sc) for t in ["WMAP9", "customDA", "none"] for sc in scheds[:4]],
                               unit=["Mpc"], cosmo=["closed"], rmin=[(50,)]), maxmods=2 if quick else 3, maxdelta=1, workers=4))
    # modifications to FALSY values (None, 0.0) must be honoured like any other value
    out.append(make_slice("modify-falsy", dict(rw=[(1, 20), (3, 50)], cosmos=["omitted"], workers=[NONE, 4]),
                          dict(rw=[NONE, 0, 2], res=[NONE, 10], workers=[NONE, 4]), maxmods=1, maxdelta=1 if quick else 2))
    if not quick:
        out.append(make_slice("modify-3keys", dict(methods=["linear", "comoving"], cosmos=["omitted", "WMAP9"]),
                              dict(rmin=[(50,)], unit=["kpc/h"], zmin=[20], zmax=[200], nb=[2], method=["comoving", "logspace"],
                                   edges=[E2], closed=["left"], cosmo=["WMAP9", "none", "s:Planck15"], workers=[4]),
                              maxmods=1, maxdelta=3, workers=4))
        out.append(make_slice("modify-scales-units", dict(scales=[S1, S2], units=UNITS, rw=[(NONE, NONE), (1, 20)], cosmos=["omitted", "WMAP9"]),
                              dict(rmin=[(50,), (50, 60), (2000,)], rmax=[(5000,), (5000, 6000), (20,)], unit=UNITS + ["pc"],
                                   rw=[NONE, 2], res=[NONE, 10], cosmo=["WMAP9", "none"]),
                              maxmods=1, maxdelta=2, workers=4))
    return out


def deviation_slice() -> dict:
    """Small domain that contains a trigger for every deviation."""
    return make_slice(
        "deviations",
        dict(zpairs=[(10, 100), (0, 100), (NONE, NONE)], edges=[(), E1], methods=["linear", "comoving"],
             cosmos=["omitted", "WMAP9", "custom", "open"], units=["kpc", "arcmin"]),
        dict(rmin=[(50,)], closed=["left"], edges=[()], cosmo=["s:WMAP9"], workers=[4], rebuild=[("WMAP9", ("d", "n"))]),
        maxmods=1, maxdelta=1, workers=1,
    )


# ---------------------------------------------------------------------------
# parsing of TLC's case lines
# ---------------------------------------------------------------------------

_CASE_LINE = re.compile(r'^"(<<\\"case\\",.*>>)"$', re.M)


def _tup(x):
    return tuple(_tup(y) for y in x) if isinstance(x, list) else x


def case_texts(out: str) -> list[str]:
    """TLC prints every case as ONE line (a TLA+ string: ToString(CaseLine)),
    because the lines of different TLC workers may interleave."""
    return [m.group(1).replace('\\"', '"') for m in _CASE_LINE.finditer(out)]


def parse_cases(out: str) -> list:
    """Fast path: the compact case lines contain only tuples, strings and
    integers, so '<<' '>>' -> '[' ']' makes them JSON."""
    return [_tup(json.loads(t.replace("<<", "[").replace(">>", "]"))) for t in case_texts(out)]


class Case:
    __slots__ = ("p0", "mods", "op", "out", "err", "step", "verdict", "obj", "decl", "rs", "rb", "rc", "angle", "eq", "rt", "seq")

    def __init__(self, t) -> None:
        (_, self.p0, self.mods, (self.op, self.out, self.err, self.step, self.verdict), self.obj, self.decl,
         self.rs, self.rb, self.rc, self.angle, self.eq, self.rt, self.seq) = t  # seq: ((who, measure, div, pow, cosmology), ...)

    @property
    def key(self):
        return (self.p0, self.mods)


# ---------------------------------------------------------------------------
# concretisation (abstract -> real arguments) and projection (real -> abstract)
# ---------------------------------------------------------------------------

RW = {NONE: None, 0: 0.0, 1: -1.0, 2: 0.5, 3: 2.0}
Z_PROBE = (0.07, 0.5, 1.3)
TOL = {"linear": 0.0, "custom": 0.0, "logspace": 1e-9, "comoving": 1e-6}


class World:
    def __init__(self) -> None:
        self.yaw = data.import_yaw()
        import astropy.cosmology as ac
        from scipy.optimize import brentq

        from yaw.config import BinningConfig, Configuration, ScalesConfig
        from yaw.config import combined
        from yaw.cosmology import CustomCosmology, cosmology_is_equal

        self.Configuration, self.BinningConfig, self.ScalesConfig = Configuration, BinningConfig, ScalesConfig
        self.parse_cosmology = combined.parse_cosmology
        self.cosmology_is_equal = cosmology_is_equal
        self.brentq = brentq
        base = ac.FlatLambdaCDM(H0=68.0, Om0=0.31)

        class PlainCosmology(CustomCosmology):
            """custom cosmology as documented: returns plain floats in Mpc"""

            def comoving_distance(self, z):
                return base.comoving_distance(z).value

            def angular_diameter_distance(self, z):
                return base.angular_diameter_distance(z).value

            def __repr__(self):
                return "PlainCosmology()"

        class SkewCosmology(CustomCosmology):
            """custom cosmology whose angular diameter distance is deliberately NOT
            comoving_distance / (1+z) (the interface does not promise that)"""

            def comoving_distance(self, z):
                return 3000.0 * np.asarray(z, dtype=float)

            def angular_diameter_distance(self, z):
                z = np.asarray(z, dtype=float)
                return 2000.0 * z / (1.0 + 0.5 * z)

            def __repr__(self):
                return "SkewCosmology()"

        self.cosmo = {"Planck15": ac.Planck15, "WMAP9": ac.WMAP9, "anon": ac.FlatLambdaCDM(H0=70.0, Om0=0.3),
                      "open": ac.LambdaCDM(H0=70.0, Om0=0.3, Ode0=0.5), "closed": ac.LambdaCDM(H0=70.0, Om0=0.3, Ode0=0.9),
                      "custom": PlainCosmology(), "customDA": SkewCosmology()}
        # independent distances (Mpc) of the kinds without the identity D_A = D_C/(1+z): (D_C, D_A)(z)
        self.reference = {"open": lambda z: friedmann_distances(70.0, 0.3, 0.5, z), "closed": lambda z: friedmann_distances(70.0, 0.3, 0.9, z),
                          "customDA": lambda z: (3000.0 * z, 2000.0 * z / (1.0 + 0.5 * z))}
        self._comov = {}
        self._dist = {}

    def distance(self, cid, measure, z) -> float:
        """the distance method `measure` of cosmology `cid` ITSELF, in Mpc"""
        if measure == "comoving_distance/(1+z)":
            return self.distance(cid, "comoving_distance", z) / (1.0 + z)
        key = (cid, measure, z)
        if key not in self._dist:
            d = getattr(self.cosmo[cid], measure)(z)
            self._dist[key] = float(getattr(d, "value", d))
        return self._dist[key]

    def relation(self, cid) -> str:
        """does THIS cosmology object tie its two distance methods by D_A = D_C/(1+z)?"""
        dev = max(abs(self.distance(cid, "angular_diameter_distance", z) * (1.0 + z) / self.distance(cid, "comoving_distance", z) - 1.0) for z in Z_PROBE)
        return REL_TIED if dev < 1e-12 else (REL_FREE if dev > 1e-3 else f"unclear({dev:.1e})")

    def oracle_problems(self) -> list:
        """self-check of the expectation: the distance methods used as oracle agree
        with an own Friedmann integral (curved models) resp. the closed forms, and
        the two measures differ by > 1e-4 at EVERY probe redshift for these kinds."""
        out = []
        for cid, ref in self.reference.items():
            for z in Z_PROBE:
                dc, da = ref(z)
                for measure, val in (("comoving_distance", dc), ("angular_diameter_distance", da)):
                    if abs(self.distance(cid, measure, z) / val - 1.0) > 1e-7:
                        out.append((cid, measure, z, self.distance(cid, measure, z), val))
                if abs(da * (1.0 + z) / dc - 1.0) < 1e-4:
                    out.append((cid, "measures_too_close", z, da * (1.0 + z), dc))
        return out

    # -- abstract -> real ---------------------------------------------------
    def cosmo_arg(self, tok):
        if tok == "none":
            return None
        if tok.startswith("s:"):
            return tok[2:]
        if tok == "badtype":
            return 5
        return self.cosmo[tok]

    @staticmethod
    def scale_arg(toks, variant):
        vals = [float(t) for t in toks]
        if len(vals) == 1 and variant % 2 == 0:
            return vals[0]
        return vals

    def create_kwargs(self, p, variant=0) -> dict:
        q = dict(zip(PFIELDS, p))
        kw = dict(rmin=self.scale_arg(q["rmin"], variant), rmax=self.scale_arg(q["rmax"], variant // 2), unit=q["unit"],
                  rweight=RW[q["rw"]], resolution=None if q["res"] == NONE else q["res"],
                  zmin=None if q["zmin"] == NONE else q["zmin"] / 100, zmax=None if q["zmax"] == NONE else q["zmax"] / 100,
                  num_bins=None if q["nb"] == NONE else q["nb"], method=q["method"],
                  edges=[e / 100 for e in q["edges"]] if q["edges"] else None, closed=q["closed"],
                  max_workers=None if q["workers"] == NONE else q["workers"])
        if q["cosmo"] != "omitted":
            kw["cosmology"] = self.cosmo_arg(q["cosmo"])
        return kw

    def delta_kwargs(self, d, variant=0) -> dict:
        kw = {}
        for k, v in d:
            if k in ("rmin", "rmax"):
                kw[k] = self.scale_arg(v, variant)
            elif k == "unit":
                kw["unit"] = v
            elif k == "rw":
                kw["rweight"] = RW[v]
            elif k == "res":
                kw["resolution"] = None if v == NONE else v
            elif k in ("zmin", "zmax"):
                kw[k] = None if v == NONE else v / 100
            elif k == "nb":
                kw["num_bins"] = None if v == NONE else v
            elif k == "method":
                kw["method"] = v
            elif k == "edges":
                kw["edges"] = [e / 100 for e in v] if v else None
            elif k == "closed":
                kw["closed"] = v
            elif k == "cosmo":
                kw["cosmology"] = self.cosmo_arg(v)
            elif k == "workers":
                kw["max_workers"] = None if v == NONE else v
            elif k == "rebuild":  # not a modify: Configuration(cfg.scales, cfg.binning, cosmology=..., max_workers=cfg.max_workers)
                kw["cosmology"] = self.cosmo_arg(v[0])
        return kw

    # -- real -> abstract ---------------------------------------------------
    def cosmo_id(self, obj) -> str:
        for k, v in self.cosmo.items():
            if obj is v:
                return k
        for k in FLRW_KINDS:
            try:
                if obj == self.cosmo[k]:
                    return k
            except Exception:
                pass
        return "?"

    @staticmethod
    def _tok(x, scale=1.0):
        v = float(x) * scale
        r = round(v)
        return int(r) if float(r) / scale == float(x) else "?"

    def proj_scales(self, sc) -> tuple:
        rmin = tuple(self._tok(x) for x in np.atleast_1d(sc.scales.scale_min))
        rmax = tuple(self._tok(x) for x in np.atleast_1d(sc.scales.scale_max))
        rw = next((k for k, v in RW.items() if v == sc.rweight and type(v) is type(sc.rweight)), "?")
        res = NONE if sc.resolution is None else sc.resolution
        return (rmin, rmax, str(sc.unit), rw, res)

    def comoving_edges(self, cid, z0, z1, nb):
        key = (cid, z0, z1, nb)
        if key not in self._comov:
            c = self.cosmo[cid]

            def dist(z):
                d = c.comoving_distance(z)
                return float(getattr(d, "value", d))

            d0, d1 = dist(z0), dist(z1)
            edges = [z0]
            for i in range(1, nb):
                target = d0 + (d1 - d0) * i / nb
                edges.append(self.brentq(lambda z: dist(z) - target, z0, z1, xtol=1e-13, rtol=1e-13))
            edges.append(z1)
            self._comov[key] = np.array(edges)
        return self._comov[key]

    def proj_binning(self, bc, prefer_gen="-", taint=0.0) -> tuple:
        method = str(bc.method)
        edges = np.asarray(bc.edges, dtype=float)
        nb = int(bc.num_bins)
        tol = max(TOL.get(method, 0.0), taint)  # taint: inexact zmin/zmax inherited from an earlier comoving/logspace binning

        def ztok(x):
            r = round(float(x) * 100)
            return int(r) if abs(r / 100 - float(x)) <= tol else "?"

        zmin, zmax = ztok(edges[0]), ztok(edges[-1])
        etoks = tuple(ztok(e) for e in edges) if method == "custom" else ()
        gen = "-"
        if method == "comoving":
            gen = "?"
            if zmin != "?" and zmax != "?" and len(edges) == nb + 1:
                cands = [c for c in (prefer_gen,) + FLRW_KINDS + CUSTOM if c in self.cosmo]
                for c in dict.fromkeys(cands):
                    if np.max(np.abs(edges - self.comoving_edges(c, zmin / 100, zmax / 100, nb))) < 1e-6:
                        gen = c
                        break
        inexact = 0
        if method != "custom" and zmin != "?" and zmax != "?":
            inexact = int(float(edges[0]) != zmin / 100 or float(edges[-1]) != zmax / 100)
        return (method, nb, zmin, zmax, etoks, str(bc.closed), gen, inexact)

    def proj_config(self, cfg, prefer_gen="-", taint=0.0) -> tuple:
        return self.proj_scales(cfg.scales) + self.proj_binning(cfg.binning, prefer_gen, taint) + (
            self.cosmo_id(cfg.cosmology), NONE if cfg.max_workers is None else cfg.max_workers)

    def edge_problems(self, bc, taint=0.0) -> tuple[list, float]:
        """numeric part of 'nb strictly increasing bins spanning [zmin, zmax]' for
        the formula the method names; returns (problems, end point error)."""
        method = str(bc.method)
        edges = np.asarray(bc.edges, dtype=float)
        probs = []
        if len(edges) != int(bc.num_bins) + 1:
            probs.append("number_of_edges")
        if not np.all(np.diff(edges) > 0):
            probs.append("edges_not_increasing")
        if float(bc.zmin) != edges[0] or float(bc.zmax) != edges[-1]:
            probs.append("zmin_zmax_not_edges")
        nb = len(edges) - 1
        z0, z1 = round(edges[0] * 100) / 100, round(edges[-1] * 100) / 100
        end_err = max(abs(edges[0] - z0), abs(edges[-1] - z1))
        if method == "linear" and nb >= 1:
            exact = np.array([float(Fraction(round(z0 * 100), 100) + Fraction(round(z1 * 100) - round(z0 * 100), 100) * Fraction(i, nb))
                              for i in range(nb + 1)])
            if np.max(np.abs(edges - exact)) > max(1e-12, 2 * taint):
                probs.append("edges_not_linear")
        elif method == "logspace" and nb >= 1:
            exact = np.expm1(np.log1p(z0) + (np.log1p(z1) - np.log1p(z0)) * np.arange(nb + 1) / nb)
            if np.max(np.abs(edges - exact)) > max(1e-9, 2 * taint):
                probs.append("edges_not_logspace")
        return probs, end_err

    def snapshot(self, cfg) -> tuple:
        return (cfg.binning.edges.tobytes(), str(cfg.binning.closed), str(cfg.binning.method),
                cfg.scales.scales.scale_min.tobytes(), cfg.scales.scales.scale_max.tobytes(), str(cfg.scales.scales.unit),
                repr(cfg.scales.rweight), repr(cfg.scales.resolution), id(cfg.cosmology), repr(cfg.max_workers),
                id(cfg.scales), id(cfg.binning), id(cfg.binning.binning), id(cfg.scales.scales))

    def expected_angle(self, r, measure, div, cid, z, pow=1):
        r = np.atleast_1d(np.asarray(r, dtype=float)) / float(div) ** pow
        if measure == "rad":
            return r
        if measure == "deg":
            return r * math.pi / 180.0
        return r / self.distance(cid, measure, z)

    def angle_diagnosis(self, got, toks, div, cid, z) -> str:
        """which distance method of which cosmology reproduces the real angle"""
        for c in dict.fromkeys((cid,) + FLRW_KINDS + CUSTOM):
            for m in ("angular_diameter_distance", "comoving_distance", "comoving_distance/(1+z)"):
                for dv in dict.fromkeys((div, 1, 1000)):
                    exp = self.expected_angle([float(t) for t in toks], m, dv, c, z)
                    if np.shape(got) == np.shape(exp) and np.allclose(got, exp, rtol=1e-10, atol=0.0):
                        return f"r/{dv} / {m}(z) of cosmology {c}"
        return "none of the distance methods of the known cosmologies"


def friedmann_distances(H0: float, Om0: float, Ode0: float, z: float) -> tuple:
    """(line-of-sight comoving distance, angular diameter distance) in Mpc of a
    matter + Lambda + curvature model, integrated here (no astropy)."""
    from scipy.integrate import quad

    ok = 1.0 - Om0 - Ode0
    dh = 299792.458 / H0
    dc = dh * quad(lambda x: 1.0 / math.sqrt(Om0 * (1 + x) ** 3 + ok * (1 + x) ** 2 + Ode0), 0.0, z, epsabs=0.0, epsrel=1e-13)[0]
    if ok > 0:
        dm = dh / math.sqrt(ok) * math.sinh(math.sqrt(ok) * dc / dh)
    elif ok < 0:
        dm = dh / math.sqrt(-ok) * math.sin(math.sqrt(-ok) * dc / dh)
    else:
        dm = dc
    return dc, dm / (1.0 + z)


def call(fn, *a, **kw):
    """('ok', value) | ('raises', exception) - never swallows silently: the
    caller compares the class with the model."""
    with warnings.catch_warnings():
        warnings.simplefilter("ignore")
        try:
            return "ok", fn(*a, **kw)
        except Exception as exc:  # noqa: BLE001 - classified by the caller
            return "raises", exc


def pyrepr(kw: dict) -> str:
    def r(v):
        if isinstance(v, float):
            return repr(v)
        if isinstance(v, (list, tuple)):
            return "[" + ", ".join(r(x) for x in v) + "]"
        if v is None or isinstance(v, (int, str)):
            return repr(v)
        if repr(v) in ("PlainCosmology()", "SkewCosmology()"):
            return repr(v)
        if getattr(v, "name", None):
            return v.name
        if type(v).__name__ == "LambdaCDM":
            return f"LambdaCDM(H0={v.H0.value}, Om0={v.Om0}, Ode0={v.Ode0})"
        return "FlatLambdaCDM(H0=70.0, Om0=0.3)"

    return ", ".join(f"{k}={r(v)}" for k, v in kw.items())


# ---------------------------------------------------------------------------
# the replay driver
# ---------------------------------------------------------------------------

OBJ_FIELDS = ["rmin", "rmax", "unit", "rweight", "resolution", "method", "num_bins", "zmin", "zmax", "edges", "closed",
              "comoving_edges_cosmology", "end_points_inexact", "cosmology", "max_workers"]
SCALE_FIELDS = set(OBJ_FIELDS[:5])
BIN_FIELDS = set(OBJ_FIELDS[5:13])
I_FUZZ, I_COSMO, I_WORKERS = 12, 13, 14


def same_obj(a: tuple, b: tuple) -> bool:
    """equality of abstract objects up to the end-point flag (reported on its
    own, it must not hide or prune anything else)"""
    return len(a) == len(b) and a[:I_FUZZ] == b[:I_FUZZ] and a[I_FUZZ + 1:] == b[I_FUZZ + 1:]


def same_binning(a: tuple, b: tuple) -> bool:
    return a[:7] == b[:7]


def cosmo_class(tok: str) -> str:
    if tok in CUSTOM:
        return "custom"
    if tok in CURVED:
        return "anon"  # an unnamed FLRW object, too
    if tok in ("omitted", "none", "anon", "badtype"):
        return tok
    if tok.startswith("s:"):
        return "unknown_str" if tok == "s:Bogus" else "str"
    return "named"


def is_rebuild(delta) -> bool:
    return bool(delta) and delta[0][0] == "rebuild"


def resolved_default(tok: str) -> str:
    return "default" if tok in ("omitted", "none", "Planck15", "s:Planck15") else "nondefault"


class Replayer:
    def __init__(self, ctx: Ctx, world: World, quick: bool) -> None:
        self.ctx, self.w, self.quick = ctx, world, quick
        self.poisoned: set = set()
        self.by_key: dict = {}    # history -> case
        self.symptoms: dict = {}  # history -> {"entry|outcome"} reported for it
        self.passed: list[Case] = []  # accepted cases whose real result matched (for the binding demonstration)
        self.passed_angles: list[Case] = []  # ... physical unit, cosmology without D_A = D_C/(1+z), real angles matched
        self.passed_rebuilds: list = []  # (create case, rebuild case): distance unit, other cosmology, all scheduled angles matched
        self.served: dict = {}  # id(Scales object) -> (object, [cosmology ids it converted angles for, in order])
        self.stats = dict(cases=0, skipped_below_divergence=0, open_cases=0, accept=0, reject=0, comoving=0, substeps=0,
                          angles=0, angles_measures_differ=0, angles_repeated=0, angles_on_shared_parts_other_cosmology=0, rebuilds=0, eq=0, roundtrips=0, files=0, end_point_error=dict(logspace=0.0, comoving=0.0))

    # ---- classes for the structural keys -----------------------------------
    def binning_class(self, case: Case, parent_obj, to_obj, cosmo=True) -> str:
        """coarse input class of a binning problem: target kind of bins (custom
        bins kept / replaced), explicit edges=None, and - for comoving targets -
        where the cosmology comes from."""
        if case.op == "create":
            q = dict(zip(PFIELDS, case.p0))
            kind = "custom" if (q["edges"] and (q["zmin"] == NONE or q["zmax"] == NONE)) else q["method"]
            s = f"binning={kind}"
            if kind == "comoving" and cosmo:
                if q["zmin"] == 0:
                    s += ",zmin=0"
                if q["cosmo"] in CUSTOM:
                    s += ",cosmology=custom"
            return s
        frm = parent_obj[5] if parent_obj else "?"
        d = dict(case.mods[-1])
        to = to_obj[5] if to_obj else (d.get("method", "custom" if d.get("edges") else frm))
        if frm == "custom":
            kept = "edges" not in d and not any(k in d for k in ("zmin", "zmax", "nb", "method"))
            s = "binning=custom(kept)" if kept else f"binning=custom->{to}"
        else:
            s = f"binning={to}"
        if to == "comoving" and cosmo:
            if d.get("zmin", parent_obj[7] if parent_obj and frm != "custom" else NONE) == 0:
                s += ",zmin=0"
            if "cosmo" in d:
                s += f",cosmology=->{cosmo_class(d['cosmo'])}"
            else:
                cur = parent_obj[I_COSMO] if parent_obj else "?"
                s += f",cosmology=kept({'custom' if cur in CUSTOM else resolved_default(cur)})"
        if "edges" in d and not d["edges"]:
            s += ",edges=None"
        return s

    def scales_class(self, case: Case, parent_obj) -> str:
        """the class of a scales problem is the (in)validity class of the scales
        the operation asks for: valid / unknown_unit / length_mismatch / rmin>=rmax"""
        if case.op == "create":
            q = dict(zip(PFIELDS, case.p0))
        else:
            d = dict(case.mods[-1])
            q = dict(rmin=d.get("rmin", parent_obj[0] if parent_obj else ()), rmax=d.get("rmax", parent_obj[1] if parent_obj else ()),
                     unit=d.get("unit", parent_obj[2] if parent_obj else "kpc"))
        if q["unit"] not in UNITS:
            return "scales=unknown_unit"
        if len(q["rmin"]) != len(q["rmax"]):
            return "scales=length_mismatch"
        if any(a >= b for a, b in zip(q["rmin"], q["rmax"])):
            return "scales=rmin>=rmax"
        return "scales=valid"

    def binning_reject_class(self, case: Case, parent_obj) -> str:
        """why the declared verdict of the binning part is 'reject'"""
        if case.op == "create":
            q = dict(zip(PFIELDS, case.p0))
        else:
            d = dict(case.mods[-1])
            gen = parent_obj is not None and parent_obj[5] != "custom"
            q = dict(zmin=d.get("zmin", parent_obj[7] if gen else NONE), zmax=d.get("zmax", parent_obj[8] if gen else NONE),
                     method=d.get("method", parent_obj[5] if parent_obj else "linear"),
                     edges=d.get("edges", () if gen else (parent_obj[9] if parent_obj else ())))
            if d.get("edges"):
                q.update(zmin=NONE, zmax=NONE)
        hasz = q["zmin"] != NONE and q["zmax"] != NONE
        if not hasz and not q["edges"]:
            return "binning=neither_edges_nor_zmin_zmax"
        if hasz and q["method"] not in ("linear", "comoving", "logspace", "custom"):
            return "binning=unknown_method"
        if hasz and q["zmin"] >= q["zmax"]:
            return "binning=zmin>=zmax"
        if q["edges"] and any(a >= b for a, b in zip(q["edges"], q["edges"][1:])):
            return "binning=edges_not_increasing"
        return "binning=invalid"

    def cosmology_class(self, case: Case) -> str:
        if case.op == "create":
            return f"cosmology={cosmo_class(dict(zip(PFIELDS, case.p0))['cosmo'])}"
        d = dict(case.mods[-1])
        if "rebuild" in d:
            return f"cosmology={cosmo_class(d['rebuild'][0])}"
        return f"cosmology={cosmo_class(d['cosmo']) if 'cosmo' in d else 'kept'}"

    def class_for(self, group: str, case: Case, parent_obj, to_obj=None, cosmo=True) -> str:
        if group == "scales":
            return self.scales_class(case, parent_obj)
        if group == "binning":
            return self.binning_class(case, parent_obj, to_obj, cosmo)
        if group == "cosmology":
            return self.cosmology_class(case)
        return "any"

    @staticmethod
    def first_diff(real: tuple, exp: tuple):
        for name, a, b in zip(OBJ_FIELDS, real, exp):
            if a != b and name != "end_points_inexact":
                return name
        return None

    @staticmethod
    def group_of(field: str) -> str:
        if field in SCALE_FIELDS:
            return "scales"
        if field in BIN_FIELDS:
            return "binning"
        return "cosmology" if field == "cosmology" else "other"

    # ---- structural keys: class of the SMALLEST modification with the same symptom ----
    def representative(self, case: Case, sym: str) -> Case:
        """the sibling history whose last modification sets the fewest of this
        one's parameters and showed the same symptom (siblings with smaller
        deltas are replayed first): every instance of one defect is keyed by
        its minimal trigger."""
        if case.op != "modify" or not case.mods[-1]:
            return case
        last = case.mods[-1]
        for n in range(len(last)):
            for sub in itertools.combinations(last, n):
                k = (case.p0, case.mods[:-1] + (tuple(sub),))
                if sym in self.symptoms.get(k, ()):
                    return self.by_key[k]
        return case

    def report_op(self, case: Case, entry: str, group: str, outcome: str, parent_obj, detail: dict, demanded=True, field=None) -> None:
        sym = f"{entry}|{outcome}"
        rep = self.representative(case, sym)
        if group not in ("scales", "binning", "cosmology") and rep.op == "modify":
            keys = {k for k, _ in rep.mods[-1]}  # the group the minimal trigger belongs to
            for g, ks in (("scales", {"rmin", "rmax", "unit", "rw", "res"}), ("binning", {"zmin", "zmax", "nb", "method", "edges", "closed"}), ("cosmology", {"cosmo"})):
                if keys and keys <= ks:
                    group = g
        if outcome == "accepted_invalid" and group == "binning":
            cls = self.binning_reject_class(rep, parent_obj)
        else:
            cls = self.class_for(group, rep, parent_obj, rep.obj or None, field is None or field == "comoving_edges_cosmology")
        self.symptoms.setdefault(case.key, set()).add(sym)
        if rep is not case:
            detail = dict(detail, minimal_trigger=self.repro(rep))
        (self.ctx.violation if demanded else self.ctx.drift)(f"C15|{entry}|{cls}|{outcome}", detail)

    # ---- one path -----------------------------------------------------------
    def repro(self, case: Case, upto=None) -> str:
        v = self.variant(case.p0)
        s = f"cfg = Configuration.create({pyrepr(self.w.create_kwargs(case.p0, v))})"
        mods = case.mods if upto is None else case.mods[:upto]
        for d in mods:
            if is_rebuild(d):
                s += f"; donor = cfg; cfg = Configuration(donor.scales, donor.binning, {pyrepr(self.w.delta_kwargs(d, v))}, max_workers=donor.max_workers)"
                s += "; " + "; ".join(f"{'cfg' if who == 'n' else 'donor'}.scales.scales.get_angle_radian(z, {'cfg' if who == 'n' else 'donor'}.cosmology)" for who in d[0][1][1])
            else:
                s += f"; cfg = cfg.modify({pyrepr(self.w.delta_kwargs(d, v))})"
        return s

    @staticmethod
    def variant(p0) -> int:
        return hash(p0) % 4

    def detail(self, case: Case, **kw) -> dict:
        d = dict(history=self.repro(case), tlc_case=dict(p0=dict(zip(PFIELDS, case.p0)), mods=[dict(m) for m in case.mods],
                                                          verdict=case.verdict, expected_outcome=case.out,
                                                          expected_object=dict(zip(OBJ_FIELDS, case.obj)) if case.obj else None))
        d.update(kw)
        return d

    def replay_tree(self, cases: list[Case]) -> None:
        """cases of one TLC run; parents are replayed before their children and
        every edge of the history tree is executed exactly once."""
        cases = sorted(cases, key=lambda c: (len(c.mods), len(c.mods[-1]) if c.mods else 0))
        for c in cases:
            self.by_key[c.key] = c
        real: dict = {}  # history key -> (real cfg, abstract obj, taint) ; missing = pruned
        for case in cases:
            if case.op == "create":
                parent = None
            else:
                pk = (case.p0, case.mods[:-1])
                if pk not in real or real[pk][0] is None or id(real[pk][0]) in self.poisoned:
                    self.stats["skipped_below_divergence"] += 1
                    continue
                parent = real[pk]
            res = self.step(case, parent)
            if res is not None:
                real[case.key] = res

    def step(self, case: Case, parent):
        """execute the last operation of `case` on the real library; returns the
        (real cfg, abstract obj) current afterwards or None when the real state
        left the model (subtree is pruned)."""
        w, ctx = self.w, self.ctx
        self.stats["cases"] += 1
        v = self.variant(case.p0)
        entry = {"create": "Configuration.create", "rebuild": "Configuration.__init__"}.get(case.op, "Configuration.modify")
        if case.op == "create":
            kwargs = w.create_kwargs(case.p0, v)
            parent_cfg, parent_obj, taint, tsrc = None, None, 0.0, None
            kind, val = call(w.Configuration.create, **kwargs)
        else:
            parent_cfg, parent_obj, taint, tsrc = parent
            kwargs = w.delta_kwargs(case.mods[-1], v)
            before = w.snapshot(parent_cfg)
            if case.op == "rebuild":  # the public constructor on the donor's own parts objects
                self.stats["rebuilds"] += 1
                kind, val = call(w.Configuration, parent_cfg.scales, parent_cfg.binning, max_workers=parent_cfg.max_workers, **kwargs)
            else:
                kind, val = call(parent_cfg.modify, **kwargs)
            if w.snapshot(parent_cfg) != before:
                self.report_op(case, entry, "other", "original_mutated", parent_obj, self.detail(case))
                self.poisoned.add(id(parent_cfg))  # this object no longer is what the model thinks: stop using it
        comoving = "comoving" in (case.obj[5] if case.obj else "", parent_obj[5] if parent_obj else "",
                                  dict(zip(PFIELDS, case.p0))["method"] if case.op == "create" else dict(case.mods[-1]).get("method", ""))
        nontrivial = case.op == "modify" or case.verdict != "accept" or dict(zip(PFIELDS, case.p0))["cosmo"] != "omitted"
        ctx.evaluated(1, (case.key) if nontrivial else None)
        ctx.validated(1)
        self.stats[{"accept": "accept", "reject": "reject"}.get(case.verdict, "open_cases")] += 1
        if comoving:
            self.stats["comoving"] += 1

        exp_out = case.out  # "ok" | "rejects"
        real_out = "ok" if kind == "ok" else "rejects"
        keep_parent = (parent_cfg, parent_obj, taint, tsrc) if case.op != "create" else None
        if case.obj and TOL.get(case.obj[5], 0.0) > taint:
            taint, tsrc = TOL[case.obj[5]], case.obj[5]  # end points of these bins are only approximately zmin/zmax
        self.taint, self.tsrc = taint, tsrc
        substeps_done = False

        def substeps(force=False):
            nonlocal substeps_done
            if substeps_done:
                return None
            if force or not comoving or hash(case.key) % 4 == 0:
                substeps_done = True
                return self.bind_substeps(case, parent_cfg, parent_obj, kwargs)
            return None

        # ---- outcome class ---------------------------------------------------
        if case.verdict == "open":
            if real_out != exp_out:
                ctx.drift(f"C15|{entry}|open_class|model_{exp_out}_real_{real_out}",
                          self.detail(case, real=repr(val)[:300]))
                return None
            if real_out == "rejects":
                return keep_parent
            proj = w.proj_config(val, prefer_gen=case.obj[11], taint=taint)
            if not same_obj(proj, case.obj):
                ctx.drift(f"C15|{entry}|open_class|{self.first_diff(proj, case.obj)}_differs_from_model",
                          self.detail(case, real_object=dict(zip(OBJ_FIELDS, proj))))
                return None
            substeps()
            self.observe(case, val, parent_cfg, demanded=False)
            return (val, case.obj, taint, tsrc)

        if case.verdict == "reject":
            if real_out == "ok":
                self.report_op(case, entry, self.failing_step_accept(case), "accepted_invalid", parent_obj,
                               self.detail(case, real_object=dict(zip(OBJ_FIELDS, w.proj_config(val)))))
                return None
            substeps()
            return keep_parent

        # verdict accept: must return the declared configuration
        if real_out == "rejects":
            step = self.failing_step(case, parent_cfg, kwargs, val)
            self.report_op(case, entry, step, f"raises_{type(val).__name__}", parent_obj,
                           self.detail(case, error=repr(val)[:300], failing_step=step))
            substeps(force=True)
            return None
        proj = w.proj_config(val, prefer_gen=case.obj[11], taint=taint)
        ok = True
        if not same_obj(proj, case.obj):
            field = self.first_diff(proj, case.obj)
            group = self.group_of(field)
            outcome = f"{field}_differs"
            if field == "comoving_edges_cosmology":
                outcome = "comoving_edges_of_other_cosmology" if proj[11] != "?" else "edges_not_comoving"
            self.report_op(case, entry, group, outcome, parent_obj,
                           self.detail(case, real_object=dict(zip(OBJ_FIELDS, proj)), edges=val.binning.edges.tolist()), field=field)
            substeps(force=True)
            ok = False
        probs, end_err = w.edge_problems(val.binning, taint)
        meth = str(val.binning.method)
        for pr in probs:
            self.report_op(case, entry, "binning", pr, parent_obj, self.detail(case, edges=val.binning.edges.tolist()), field=pr)
            ok = False
        if ok and proj[I_FUZZ] > min(case.obj[I_FUZZ], 1):
            # 'spanning exactly [zmin, zmax]': the generated end points are not the requested floats
            src = tsrc or meth
            self.stats["end_point_error"][src] = max(self.stats["end_point_error"].get(src, 0.0), float(end_err))
            ctx.violation(f"C15|{entry}|binning={src}|end_points_not_exact",
                          self.detail(case, edges=val.binning.edges.tolist(), error=float(end_err),
                                      note="edges[0] / edges[-1] differ from the requested zmin / zmax (numerical inversion resp. "
                                           "exp(log(1+z))-1); modify()/from_dict() regenerate the bins from these inexact end points"))
        if not ok:
            return None
        substeps()
        # modify result vs. a real create from the merged parameters
        self.observe(case, val, parent_cfg, demanded=True)
        if len(self.passed) < 2000:
            self.passed.append(case)
        return (val, case.obj, taint, tsrc)

    # ---- which code step is responsible --------------------------------------
    def failing_step(self, case: Case, parent_cfg, kwargs, exc) -> str:
        """re-run the real sub-calls the way the real code makes them; the first
        one raising the same exception type is the failing step."""
        w = self.w
        et = type(exc)
        if case.op == "rebuild":
            k, c = call(w.parse_cosmology, kwargs["cosmology"])
            return "cosmology" if k == "raises" and type(c) is et else "whole"
        sk = {k: kwargs[k] for k in ("rmin", "rmax", "unit", "rweight", "resolution") if k in kwargs}
        bk = {k: kwargs[k] for k in ("zmin", "zmax", "num_bins", "method", "edges", "closed") if k in kwargs}
        if case.op == "create":
            craw = kwargs.get("cosmology", "Planck15")
            k, c = call(w.parse_cosmology, craw)
            steps = [("cosmology", (k, c)), ("scales", call(w.ScalesConfig.create, **sk))]
            if k == "ok":
                steps.append(("binning", call(w.BinningConfig.create, **bk, cosmology=c)))
        else:
            extra = {"cosmology": kwargs["cosmology"]} if "cosmology" in kwargs else {}
            steps = [("scales", call(parent_cfg.scales.modify, **sk)), ("binning", call(parent_cfg.binning.modify, **bk, **extra))]
            if extra:
                steps.append(("cosmology", call(w.parse_cosmology, kwargs["cosmology"])))
        for name, (k, r) in steps:
            if k == "raises" and type(r) is et:
                return name
        return "whole"

    def failing_step_accept(self, case: Case) -> str:
        """which declared component made the verdict 'reject' (for the class of
        an accepted_invalid violation): the step the model raised in."""
        return case.step if case.step in ("scales", "binning", "cosmology") else "other"

    # ---- binding of the code steps to the real sub-calls ----------------------
    def bind_substeps(self, case: Case, parent_cfg, parent_obj, kwargs) -> None:
        """ScalesConfig.create/modify, BinningConfig.create/modify (with the
        cosmology the design hands over), parse_cosmology: outcome class and
        projection must equal the model's sub-results of the steps it reached."""
        w, ctx = self.w, self.ctx
        sk = {k: kwargs[k] for k in ("rmin", "rmax", "unit", "rweight", "resolution") if k in kwargs}
        bk = {k: kwargs[k] for k in ("zmin", "zmax", "num_bins", "method", "edges", "closed") if k in kwargs}
        demanded = case.verdict != "open"

        def compare(entry, group, model, kind, val, projector):
            st, err, mv = model[0], model[1], model[2]
            self.stats["substeps"] += 1
            if st == "-":
                return
            if (kind == "ok") != (st == "ok"):
                if kind == "raises" and case.verdict == "accept":
                    # a rejection is only wrong if the whole operation was to be accepted
                    self.report_op(case, entry, group, f"raises_{type(val).__name__}", parent_obj,
                                   self.detail(case, error=repr(val)[:300], model=dict(st=st, err=err)))
                elif kind == "ok" and case.verdict == "reject" and case.step == group:
                    self.report_op(case, entry, group, "accepted_invalid", parent_obj, self.detail(case))
                else:
                    ctx.drift(f"C15|{entry}|substep_outcome_differs_from_model", self.detail(case, model=dict(st=st, err=err), real=kind))
                return
            if kind == "ok":
                proj = projector(val)
                if not (same_binning(proj, mv) if group == "binning" else proj == mv):
                    names = {"binning": OBJ_FIELDS[5:12], "scales": OBJ_FIELDS[:5]}.get(group)
                    field = next((n for n, a, b in zip(names, proj, mv) if a != b), "result") if names else "result"
                    outcome = f"{field}_differs"
                    if field == "comoving_edges_cosmology":
                        outcome = "comoving_edges_of_other_cosmology" if proj[6] != "?" else "edges_not_comoving"
                    self.report_op(case, entry, group, outcome, parent_obj, self.detail(case, real=repr(proj), model=repr(mv)),
                                   demanded=demanded, field=field)
            elif type(val).__name__ != err:
                ctx.drift(f"C15|{entry}|exception_type_{type(val).__name__}_model_{err}", self.detail(case))

        if case.op == "create":
            craw = kwargs.get("cosmology", "Planck15")
            k, c = call(w.parse_cosmology, craw)
            compare("parse_cosmology", "cosmology", case.rc, k, c, w.cosmo_id)
            if case.rs[0] != "-":
                k2, r = call(w.ScalesConfig.create, **sk)
                compare("ScalesConfig.create", "scales", case.rs, k2, r, w.proj_scales)
            if case.rb[0] != "-" and k == "ok":
                k3, r = call(w.BinningConfig.create, **bk, cosmology=c)
                compare("BinningConfig.create", "binning", case.rb[:3], k3, r, lambda b: w.proj_binning(b, case.rb[2][6], self.taint))
            return
        if case.op == "rebuild":
            k4, c = call(w.parse_cosmology, kwargs["cosmology"])
            compare("parse_cosmology", "cosmology", case.rc, k4, c, w.cosmo_id)
            return
        k2, r = call(parent_cfg.scales.modify, **sk)
        compare("ScalesConfig.modify", "scales", case.rs, k2, r, w.proj_scales)
        if case.rb[0] != "-":
            carg = case.rb[3]
            if carg in w.cosmo:  # the design hands the configuration's (new) cosmology over
                k3, r = call(parent_cfg.binning.modify, **bk, cosmology=w.cosmo[carg])
                compare("BinningConfig.modify", "binning", case.rb[:3], k3, r, lambda b: w.proj_binning(b, case.rb[2][6], self.taint))
        if case.rc[0] != "-" and "cosmology" in kwargs:
            k4, c = call(w.parse_cosmology, kwargs["cosmology"])
            compare("parse_cosmology", "cosmology", case.rc, k4, c, w.cosmo_id)

    # ---- observations on a configuration the model also has --------------------
    def observe(self, case: Case, cfg, parent_cfg, demanded: bool) -> None:
        w, ctx = self.w, self.ctx
        report = ctx.violation if demanded else ctx.drift
        obj = case.obj
        unit = obj[2]
        # angles: EVERY observation of the schedule is r / D(z) for the unit's distance measure and the cosmology of the
        # configuration observed, whatever was observed before on it or on a configuration sharing its parts (purity)
        measure, div, cid, rel = case.angle
        if rel == REL_FREE and measure in ("angular_diameter_distance", "comoving_distance"):
            self.stats["angles_measures_differ"] += 1  # a case that tells the two distance measures apart
        if case.op == "rebuild" and (cfg.scales is not parent_cfg.scales or cfg.binning is not parent_cfg.binning):
            ctx.drift("C15|Configuration.__init__|parts_not_shared_with_the_donor", self.detail(case))
        angles_ok, shared_other = True, False
        for who, measure, div, pw, cid in case.seq:
            target = cfg if who == "n" else parent_cfg
            sc = target.scales.scales
            served = self.served.setdefault(id(sc), (sc, []))[1]  # cosmologies this Scales object served before (and keeps it alive)
            state = "" if not served else (",repeated" if all(h == cid for h in served) else ",parts_shared_other_cosmology")
            if state:
                self.stats["angles_repeated" if state == ",repeated" else "angles_on_shared_parts_other_cosmology"] += 1
                shared_other = shared_other or state != ",repeated"
            before = (sc.scale_min.tobytes(), sc.scale_max.tobytes())
            bad = False
            for zi, z in enumerate(Z_PROBE):
                self.stats["angles"] += 1
                k, ang = call(sc.get_angle_radian, z, target.cosmology)
                if k == "raises":
                    bad = True
                    report(f"C15|get_angle_radian|unit={unit},cosmology={cosmo_class(cid) if cid in CUSTOM + CURVED + ('anon',) else 'named'}|raises_{type(ang).__name__}",
                           self.detail(case, z=z, error=repr(ang)[:300], observed="new" if who == "n" else "donor"))
                    break
                for got, toks in zip(ang, (obj[0], obj[1])):
                    exp = w.expected_angle([float(t) for t in toks], measure, div, cid, z, pw)
                    if np.shape(got) != np.shape(exp) or not np.allclose(got, exp, rtol=1e-10, atol=0.0):
                        # a defect of the conversion itself or of state carried between conversions?  a FRESH Scales object tells
                        cls = state or (",repeated" if zi > 0 else "")  # conversions at earlier redshifts count as well
                        if cls:
                            kf, fresh = call(lambda: w.ScalesConfig.create(rmin=[float(t) for t in obj[0]], rmax=[float(t) for t in obj[1]], unit=unit)
                                             .scales.get_angle_radian(z, target.cosmology))
                            if kf == "raises" or not all(np.shape(f) == np.shape(e) and np.allclose(f, e, rtol=1e-10, atol=0.0) for f, e in zip(
                                    fresh, (w.expected_angle([float(t) for t in tk], measure, div, cid, z, pw) for tk in (obj[0], obj[1])))):
                                cls = ""
                        report(f"C15|get_angle_radian|unit={unit}{cls}|angle_differs",
                               self.detail(case, z=z, got=np.asarray(got).tolist(), expected=exp.tolist(), measure=measure, divisor=div, cosmology=cid,
                                           observed="new" if who == "n" else "donor", schedule="".join(x[0] for x in case.seq),
                                           this_scales_object_served_before=list(served), distance_measures_of_this_cosmology=rel,
                                           real_angle_is=w.angle_diagnosis(got, toks, div, cid, z) if np.ndim(got) == 1 else "?"))
                        bad = True
                        break
                if bad:
                    break
            served.append(cid)
            if (sc.scale_min.tobytes(), sc.scale_max.tobytes()) != before:
                report(f"C15|get_angle_radian|unit={unit}|configuration_mutated",
                       self.detail(case, observed="new" if who == "n" else "donor", scale_min=sc.scale_min.tolist(), scale_max=sc.scale_max.tolist()))
                self.poisoned.update((id(cfg), id(target)))  # these objects no longer are what the model thinks
                return
            if bad:
                angles_ok = False
                break
        if angles_ok and demanded and rel == REL_FREE and unit in ("kpc", "Mpc") and case.op == "create" and len(self.passed_angles) < 8:
            self.passed_angles.append(case)
        if (angles_ok and demanded and case.op == "rebuild" and len(case.mods) == 1 and shared_other and unit in ("kpc", "Mpc", "kpc/h", "Mpc/h")
                and len(self.passed_rebuilds) < 4):
            self.passed_rebuilds.append((self.by_key[(case.p0, ())], case))
        # twin: a configuration freshly created from the declared (merged) parameters
        tk, twin = call(w.Configuration.create, **w.create_kwargs(case.decl, 3))
        if tk == "raises":
            if demanded:
                ctx.violation(f"C15|Configuration.create|merged_parameters,binning={obj[5]}|raises_{type(twin).__name__}",
                              self.detail(case, error=repr(twin)[:300], merged=dict(zip(PFIELDS, case.decl))))
            return
        taint = self.taint
        tproj = w.proj_config(twin, prefer_gen=obj[11], taint=taint)
        if not same_obj(tproj, obj):
            report(f"C15|Configuration.create|merged_parameters,binning={obj[5]}|{self.first_diff(tproj, obj)}_differs",
                   self.detail(case, real_object=dict(zip(OBJ_FIELDS, tproj))))
            return
        if case.op != "create":
            if cfg.binning.edges.shape != twin.binning.edges.shape or not np.allclose(cfg.binning.edges, twin.binning.edges, rtol=0.0, atol=2 * taint + 1e-15):
                report(f"C15|{'Configuration.__init__' if case.op == 'rebuild' else 'Configuration.modify'}|binning={obj[5]}|edges_differ_from_create_of_merged_parameters",
                       self.detail(case, modify=cfg.binning.edges.tolist(), create=twin.binning.edges.tolist()))
        # equality
        self.stats["eq"] += 1
        eqb, eqs, eqc, eq, eqprev = case.eq
        for entry, model, fn in (
            ("BinningConfig.__eq__", eqb, lambda: cfg.binning == twin.binning),
            ("ScalesConfig.__eq__", eqs, lambda: cfg.scales == twin.scales),
            ("cosmology_is_equal", eqc, lambda: w.cosmology_is_equal(cfg.cosmology, twin.cosmology)),
            ("Configuration.__eq__", eq, lambda: cfg == twin),
        ):
            k, r = call(fn)
            if k == "raises":
                report(f"C15|{entry}|equal_parameters|raises_{type(r).__name__}", self.detail(case, error=repr(r)[:200]))
            elif model == "true" and r is not True:
                fuzz = f",binning={self.tsrc}" if (self.tsrc and entry != "ScalesConfig.__eq__" and np.allclose(
                    cfg.binning.edges, twin.binning.edges, rtol=0.0, atol=2 * taint)) else ""
                report(f"C15|{entry}|equal_parameters{fuzz}|returns_{r!r}", self.detail(
                    case, edges=cfg.binning.edges.tolist(), twin_edges=twin.binning.edges.tolist()))
        if parent_cfg is not None and eqprev != "-":
            k, r = call(lambda: cfg == parent_cfg)
            pproj = w.proj_config(parent_cfg, prefer_gen=obj[11], taint=taint)
            cls = "equal_parameters" if same_obj(pproj, obj) else "other_parameters"
            if k == "raises":
                report(f"C15|Configuration.__eq__|{cls}|raises_{type(r).__name__}", self.detail(case, error=repr(r)[:200], compared_with="the configuration it was modified from"))
            elif (r is True) != (eqprev == "true"):
                if cls == "equal_parameters" and r is not True:
                    fuzz = f",binning={self.tsrc}" if self.tsrc else ""
                    report(f"C15|Configuration.__eq__|equal_parameters{fuzz}|returns_{r!r}", self.detail(case, compared_with="the configuration it was modified from"))
                else:
                    ctx.drift(f"C15|Configuration.__eq__|unequal_parameters|returns_{r!r}_model_{eqprev}", self.detail(case))
        # a configuration rebuilt from its own parameter dictionary
        todict, rt, rterr = case.rt
        self.stats["roundtrips"] += 1
        k, dct = call(cfg.to_dict)
        if (k == "ok") != (todict == "ok"):
            if k == "raises" and todict == "ok":
                report(f"C15|Configuration.to_dict|cosmology={cosmo_class(obj[I_COSMO])}|raises_{type(dct).__name__}", self.detail(case, error=repr(dct)[:200]))
            else:
                ctx.drift("C15|Configuration.to_dict|outcome_differs_from_model", self.detail(case))
            return
        if k != "ok":
            return
        import copy

        k, back = call(w.Configuration.from_dict, copy.deepcopy(dct))
        if k == "raises":
            report(f"C15|Configuration.from_dict|binning={obj[5]}|raises_{type(back).__name__}", self.detail(case, error=repr(back)[:200], the_dict=dct))
            kb, rb = call(w.BinningConfig.from_dict, copy.deepcopy(dct["binning"]), cosmology=cfg.cosmology)
            if kb == "raises":
                report(f"C15|BinningConfig.from_dict|binning={obj[5]}|raises_{type(rb).__name__}", self.detail(case, error=repr(rb)[:200], the_dict=dct["binning"]))
        else:
            bproj = w.proj_config(back, prefer_gen=obj[11], taint=taint)
            if not same_obj(bproj, obj):
                fld = self.first_diff(bproj, obj)
                report(f"C15|Configuration.from_dict|{'binning=' + obj[5] if fld in BIN_FIELDS else 'any'}|{fld}_differs",
                       self.detail(case, real_object=dict(zip(OBJ_FIELDS, bproj)), the_dict=dct))
            ks, rs = call(w.ScalesConfig.from_dict, copy.deepcopy(dct["scales"]))
            if ks == "raises":
                report(f"C15|ScalesConfig.from_dict|any|raises_{type(rs).__name__}", self.detail(case))
            elif w.proj_scales(rs) != obj[:5]:
                fld = next(n for n, a, b in zip(OBJ_FIELDS, w.proj_scales(rs), obj) if a != b)
                report(f"C15|ScalesConfig.from_dict|any|{fld}_differs", self.detail(case))
        if self.tmpdir is not None and (not self.quick or hash(case.key) % 16 == 0):
            self.stats["files"] += 1
            path = self.tmpdir / f"config_{os.getpid()}.yml"
            k, _ = call(cfg.to_file, path)
            if k == "ok":
                k, back = call(w.Configuration.from_file, path)
            if k == "raises":
                report(f"C15|Configuration.from_file|binning={obj[5]}|raises_{type(back if k == 'raises' else _).__name__}", self.detail(case))
            else:
                bproj = w.proj_config(back, prefer_gen=obj[11], taint=taint)
                if not same_obj(bproj, obj):
                    fld = self.first_diff(bproj, obj)
                    report(f"C15|Configuration.from_file|{'binning=' + obj[5] if fld in BIN_FIELDS else 'any'}|{fld}_differs", self.detail(case))

    tmpdir = None
    taint = 0.0
    tsrc = None


# ---------------------------------------------------------------------------
# deviations: TLC counterexample -> replay on the real code
# ---------------------------------------------------------------------------


def compact_params(p: dict) -> tuple:
    return tuple(_tup(p[k]) if isinstance(p[k], list) else p[k] for k in PFIELDS)


def compact_delta(d: dict) -> tuple:
    unset = dict(rmin=[-2], rmax=[-2], unit="~", rw=-2, res=-2, zmin=-2, zmax=-2, nb=-2, method="~", edges=[-2], closed="~",
                 cosmo="~", workers=-2, rebuild=[])
    return tuple((k, _tup(d[k]) if isinstance(d[k], list) else d[k]) for k in KEYS + ["rebuild"] if d[k] != unset[k])


def compact_obj(o: dict) -> tuple:
    if not o["ok"]:
        return ()
    s, b = o["scales"], o["binning"]
    return (_tup(s["rmin"]), _tup(s["rmax"]), s["unit"], s["rw"], s["res"], b["method"], b["nb"], b["zmin"], b["zmax"],
            _tup(b["edges"]), b["closed"], b["gen"], min(b["fuzz"], 1), o["cosmo"], o["workers"])


def replay_counterexample(world: World, state: dict, aspect: str) -> dict:
    """Execute the history of a TLC counterexample state on the real library
    and compare with what the DEVIATION model predicts (outcome, object, eq,
    round trip).  present=True: the real code shows the deviation's behaviour."""
    p0 = compact_params(state["p0"])
    mods = tuple(compact_delta(d) for d in state["mods"])
    last = state["last"]
    v = Replayer.variant(p0)
    kind, cfg = call(world.Configuration.create, **world.create_kwargs(p0, v))
    hist = f"Configuration.create({pyrepr(world.create_kwargs(p0, v))})"
    prev, exc = None, (cfg if kind != "ok" else None)
    for i, d in enumerate(mods):
        if kind != "ok":
            break
        prev = cfg
        kw = world.delta_kwargs(d, v)
        if is_rebuild(d):
            hist = f"Configuration(({hist}).scales, (...).binning, {pyrepr(kw)})"
            kind, new = call(world.Configuration, cfg.scales, cfg.binning, max_workers=cfg.max_workers, **kw)
        else:
            hist += f".modify({pyrepr(kw)})"
            kind, new = call(cfg.modify, **kw)
        if kind == "ok":
            cfg = new
        elif i < len(mods) - 1:
            kind = "ok"  # a rejected intermediate modification leaves the configuration as it was
        else:
            exc = new
    model = dict(out=last["out"], err=last["err"], obj=compact_obj(state["cur"]), eq=last["obs"]["eq"], rt=last["obs"]["rt"])
    real = dict(out="ok" if kind == "ok" else "rejects", err="-" if kind == "ok" else type(exc).__name__)
    if kind == "ok":
        real["obj"] = world.proj_config(cfg, prefer_gen=model["obj"][11] if model["obj"] else "-")
        tk, twin = ("none", None)
        if state["decl"]["cosmo"] != "-":
            tk, twin = call(world.Configuration.create, **world.create_kwargs(compact_params(state["decl"]), 3))
        if tk == "ok":
            k, r = call(lambda: cfg == twin)
            real["eq"] = "raises" if k == "raises" else ("true" if r is True else "false")
        k, dct = call(cfg.to_dict)
        if k == "ok":
            k, back = call(world.Configuration.from_dict, dct)
            if k == "raises":
                real["rt"] = "raises"
            else:  # "same" = bit-identical edges (the model's fuzz counter distinguishes regenerated inexact edges)
                same = world.proj_config(back, prefer_gen=real["obj"][11]) == real["obj"] and np.array_equal(back.binning.edges, cfg.binning.edges)
                real["rt"] = "same" if same else "differs"
    else:
        real["obj"] = world.proj_config(prev, prefer_gen="-") if prev is not None else ()
    if aspect == "binning_step":  # the top level call is masked by another defect: bind the step itself
        kw = world.create_kwargs(p0, v)
        bk = {k: kw[k] for k in ("zmin", "zmax", "num_bins", "method", "edges", "closed")}
        k, r = call(world.BinningConfig.create, **bk, cosmology=world.cosmo[last["carg"]])
        model["binning_step"] = (last["rb"]["st"], last["rb"]["err"])
        real["binning_step"] = ("ok", "-") if k == "ok" else ("raises", type(r).__name__)
        present = model["binning_step"] == real["binning_step"]
    elif aspect == "angle":  # which distance method reproduces the real angles (cosmology without D_A = D_C/(1+z))
        a = last["obs"]["angle"]
        model["angle"] = (a["measure"], a["div"], a["cosmo"])
        present = False
        if kind == "ok" and model["obj"]:
            def matches(measure) -> bool:
                for z in Z_PROBE:
                    got = cfg.scales.scales.get_angle_radian(z, cfg.cosmology)
                    for g, toks in zip(got, (model["obj"][0], model["obj"][1])):
                        if not np.allclose(g, world.expected_angle([float(t) for t in toks], measure, a["div"], a["cosmo"], z), rtol=1e-10, atol=0.0):
                            return False
                return True

            real["angle"] = dict(matches_deviation=matches(a["measure"]), matches_declared=matches("angular_diameter_distance"))
            present = real["angle"]["matches_deviation"] and not real["angle"]["matches_declared"]
    elif aspect == "angle_seq":  # the scheduled observations, in order, on the real objects ("d": the donor of the last operation)
        seq = [(o["who"], o["angle"]["measure"], o["angle"]["div"], o["angle"]["pow"], o["angle"]["cosmo"]) for o in last["obs"]["seq"]]
        model["angle_seq"] = seq
        present = False
        if kind == "ok" and model["obj"]:
            unit_measure = {"kpc": "angular_diameter_distance", "Mpc": "angular_diameter_distance", "kpc/h": "comoving_distance",
                            "Mpc/h": "comoving_distance", "rad": "rad"}.get(model["obj"][2], "deg")
            dev_ok, decl_ok = True, True
            for who, measure, div, pw, cid in seq:
                target = cfg if who == "n" else prev
                own = world.cosmo_id(target.cosmology)
                for z in Z_PROBE:
                    got = target.scales.scales.get_angle_radian(z, target.cosmology)
                    for g, toks in zip(got, (model["obj"][0], model["obj"][1])):
                        r = [float(t) for t in toks]
                        dev_ok = dev_ok and bool(np.allclose(g, world.expected_angle(r, measure, div, cid, z, pw), rtol=1e-10, atol=0.0))
                        decl_ok = decl_ok and bool(np.allclose(g, world.expected_angle(r, unit_measure, div, own, z, 1), rtol=1e-10, atol=0.0))
            real["angle_seq"] = dict(matches_deviation=dev_ok, matches_declared=decl_ok)
            present = dev_ok and not decl_ok
    elif aspect == "outcome":
        present = real["out"] == model["out"] and (real["err"] == model["err"] if real["out"] == "rejects" else same_obj(real.get("obj", ()), model["obj"]))
    elif aspect == "end_points":
        present = real["out"] == model["out"] == "ok" and real["obj"][I_FUZZ] == model["obj"][I_FUZZ] == 1
    else:
        present = real["out"] == model["out"] == "ok" and real.get(aspect, "-") == model[aspect]
    return dict(history=hist, model=model, real=real, present_in_code=bool(present))


# ---------------------------------------------------------------------------
# main
# ---------------------------------------------------------------------------


def run(ctx: Ctx) -> None:
    quick = ctx.quick
    rng = random.Random(ctx.seed)
    ctx.rule = (
        "every history (create, then up to MaxMods modifications of up to MaxDelta parameters) that TLC enumerates for the "
        "slice domains is executed on the real library and compared after each operation with TLC's abstract state; "
        "non-trivial = modification, or create with non-default cosmology / not plainly valid parameters; distinct = history"
    )
    ctx.assume("the projection matches bin edges against the formula named by the abstract binning with tolerances: exact for "
               "linear/custom, 1e-9 for logspace, 1e-6 for comoving (z_at_value is a numerical inversion); a defect smaller than "
               "that is invisible")
    ctx.assume("redshift / scale values are a small grid (1/100 steps, a few scale tokens); cosmologies are Planck15 (default), "
               "WMAP9, one unnamed flat FLRW object, two curved LambdaCDM objects (Ok0 = +0.2 / -0.2), one CustomCosmology returning the "
               "plain floats of a flat model and one whose angular_diameter_distance is unrelated to comoving_distance/(1+z)")
    ctx.assume("the distance measure of kpc/h and Mpc/h is cosmology.comoving_distance(z) (line of sight; the only comoving distance of "
               "the CustomCosmology interface), of kpc and Mpc cosmology.angular_diameter_distance(z); angles are probed at z = 0.07, 0.5, 1.3")
    world = World()

    if ctx.replay:
        replay_file(ctx, world)
        return

    # ---- A. TLC: ideal design on all slices (concurrently), deviations, liveness ----
    t_start = time.time()
    sls = slices(quick)
    dsl = deviation_slice()
    jobs = {}
    with concurrent.futures.ThreadPoolExecutor(max_workers=6) as ex:
        for sl in sls:
            jobs[("ideal", sl["name"])] = ex.submit(run_slice, sl)
        for dev, (_, _, dp, dd) in DEVIATIONS.items():
            dev_sl = make_slice("dev-" + dev, dp, dd, maxmods=1 if dd else 0, maxdelta=1 if dd else 0, workers=1)
            # (the ideal design on these domains is covered by the run on their union, `dsl`)
            for k, vals in list(dp.items()) + list(dd.items()):
                assert set(vals) <= set(dsl["P"].get(k, []) + dsl["D"].get(k, [])), (dev, k)
            jobs[("dev", dev)] = ex.submit(run_slice, dev_sl, (dev,), None, False, False)
        jobs[("live", "")] = ex.submit(run_slice, dsl, (), None, False, True, True)
        # the same defect on a domain of cosmologies that all have D_A = D_C/(1+z): TLC cannot see it
        blind_sl = make_slice("dev-blind", dict(units=["kpc", "Mpc", "Mpc/h"], scales=[S1, S2], cosmos=["omitted", "WMAP9", "anon", "custom"]),
                              dict(cosmo=["WMAP9", "custom", "none"]), maxmods=1, maxdelta=1, workers=1)
        jobs[("blind", "")] = ex.submit(run_slice, blind_sl, ("PhysicalViaComoving",), None, False, False)
        results = {k: f.result() for k, f in jobs.items()}

    res = results[("live", "")]
    ctx.add_tlc("Config ideal design, deviation domain, + Termination", res)
    ctx.require(res.ok, f"Config ideal design fails on the deviation domain: {res.error_kind} {res.error_name}")
    for act in ACTIONS:
        ctx.require(res.coverage.get(act, (0, 0))[1] > 0, f"Config action {act} never taken on the deviation domain")

    res = results[("blind", "")]
    ctx.add_tlc("Config deviation PhysicalViaComoving, only cosmologies with D_A = D_C/(1+z) (must pass: the two measures coincide there)", res)
    ctx.require(res.ok, f"deviation PhysicalViaComoving is visible on flat cosmologies (model of the distance identity broken): {res.error_kind} {res.error_name}")
    probs = world.oracle_problems()
    ctx.require(not probs, f"distance oracle: methods of the curved / custom cosmologies disagree with the independent formulas or do not differ: {probs[:3]}")
    ctx.extra["distance_measures"] = {cid: dict(relation=world.relation(cid), **{f"DA*(1+z)/DC-1 at z={z}": world.distance(cid, "angular_diameter_distance", z) * (1 + z) / world.distance(cid, "comoving_distance", z) - 1 for z in Z_PROBE})
                                      for cid in world.cosmo}

    devinfo = {}
    for dev, (inv, aspect, _, _) in DEVIATIONS.items():
        res = results[("dev", dev)]
        ctx.add_tlc(f"Config deviation {dev}", res)
        ctx.require(not res.ok and res.error_kind == "invariant" and res.error_name == inv,
                    f"deviation {dev} no longer yields its counterexample (stale model): {res.error_kind} {res.error_name}")
        info = replay_counterexample(world, res.trace[-1]["state"], aspect)
        info["invariant"] = res.error_name
        info["trace_actions"] = [s["action"] for s in res.trace]
        devinfo[dev] = info
        ctx.validated(1)
    ctx.extra["deviations"] = devinfo

    # ---- B. replay of every TLC history on the real library ----
    per_slice = {}
    all_cases = {}
    taken: dict = {}
    groups = []  # (slice name, [cases of one history tree])
    t_parse = time.time()
    for sl in sls:
        res = results[("ideal", sl["name"])]
        ctx.add_tlc(f"Config ideal, slice {sl['name']}", res, maxmods=sl["maxmods"], maxdelta=sl["maxdelta"])
        ctx.require(res.ok, f"Config ideal design violated in TLC on slice {sl['name']}: {res.error_kind} {res.error_name}")
        for act in ACTIONS:  # every action must be exercised by the slices together, each slice must create and finish
            taken[act] = taken.get(act, 0) + res.coverage.get(act, (0, 0))[1]
        for act in ["SomeCreate", "CreateScales"] + (["SomeModify", "ModifyScales"] if sl["maxmods"] else []):
            ctx.require(res.coverage.get(act, (0, 0))[1] > 0, f"slice {sl['name']}: action {act} never taken (vacuous)")
        cases = [Case(t) for t in parse_cases(res.out)]
        ctx.require(len(cases) > 0, f"slice {sl['name']}: TLC printed no case")
        # fast parser self-check against the reference parser on a sample
        head = case_texts(res.out[:200_000])[:8]
        ctx.require(len(head) >= 1 and [tlaval.parse_value(t) for t in head] == [c for c in parse_cases(res.out[:200_000])[:len(head)]],
                    f"slice {sl['name']}: fast case parser disagrees with harness.tlaval")
        per_slice[sl["name"]] = dict(tlc_cases=len(cases), replayed=0,
                                     verdicts={v: sum(1 for c in cases if c.verdict == v) for v in ("accept", "reject", "open")})
        trees: dict = {}
        for c in cases:
            all_cases[c.key] = c
            trees.setdefault(c.p0, []).append(c)
        groups += [(sl["name"], t) for t in trees.values()]
        c = cases[rng.randrange(len(cases))]
        ctx.sample(dict(slice=sl["name"], history=Replayer(ctx, world, quick).repro(c), verdict=c.verdict, expected_outcome=c.out,
                        expected_object=dict(zip(OBJ_FIELDS, c.obj)) if c.obj else None))
        res.out = ""  # free the text
    for act in ACTIONS:
        ctx.require(taken.get(act, 0) > 0, f"action {act} never taken in any slice (vacuous)")
    # the spec's classification of the cosmology kinds is that of the real objects, and the domains contain, for every
    # kind WITHOUT the identity D_A = D_C/(1+z): create / modify(cosmology=...) / modify of other parameters, single and multiple scales
    classes = set()
    relmap = {cid: world.relation(cid) for cid in world.cosmo}
    for c in all_cases.values():
        if c.out == "ok" and c.verdict == "accept":
            _, _, cid, rel = c.angle
            ctx.require(relmap.get(cid) == rel, f"cosmology {cid}: the spec says {rel}, the real object {relmap.get(cid)}")
            if rel == REL_FREE and c.obj[2] in ("kpc", "Mpc", "kpc/h", "Mpc/h"):
                how = "create" if c.op == "create" else ("modify_cosmology" if "cosmo" in dict(c.mods[-1]) else "modify_other")
                classes.add((how, "multi" if len(c.obj[0]) > 1 else "single", "physical" if c.obj[2] in ("kpc", "Mpc") else "comoving", cid))
    missing = [k for k in itertools.product(("create", "modify_cosmology", "modify_other"), ("single", "multi"), ("physical", "comoving"), CURVED + ("customDA",))
               if k not in classes]
    ctx.require(not missing, f"domains lack accepted cases for cosmologies without D_A = D_C/(1+z): {missing[:6]}")
    # repeated observation of one object for every unit; configurations built from the parts of a donor with ANOTHER cosmology,
    # observed donor-first and new-first, each of them repeatedly, physical and comoving units, single and multiple scales
    rclasses, repeated_units = set(), set()
    for c in all_cases.values():
        if c.out != "ok" or c.verdict != "accept":
            continue
        whos = [o[0] for o in c.seq]
        ctx.require(len(whos) >= 2 and whos.count("n") >= 1, f"case without repeated angle observation: {c.key}")
        if whos.count("n") >= 2:
            repeated_units.add(c.obj[2])
        if c.op == "rebuild" and {o[4] for o in c.seq if o[0] == "d"} - {c.angle[2]} and c.obj[2] in ("kpc", "Mpc", "kpc/h", "Mpc/h"):
            rclasses.add((whos[0], "physical" if c.obj[2] in ("kpc", "Mpc") else "comoving", "multi" if len(c.obj[0]) > 1 else "single",
                          "both_repeated" if whos.count("d") + whos.count("n") >= 3 else "once"))
    ctx.require(repeated_units >= set(UNITS), f"no repeated angle observation for units {sorted(set(UNITS) - repeated_units)}")
    missing = [k for k in itertools.product(("d", "n"), ("physical", "comoving"), ("single", "multi"), ("both_repeated",)) if k not in rclasses]
    ctx.require(not missing, f"domains lack rebuilds (shared parts, other cosmology) for: {missing[:6]}")
    t_replay = time.time()
    with scratch("c15_") as tmp:
        nproc = 4 if quick else 8
        merged = replay_parallel(ctx, world, groups, tmp, nproc)
        for name, n in merged["per_slice"].items():
            per_slice[name]["replayed"] += n
        binding_demo(ctx, world, all_cases, merged["passed"], tmp, merged["passed_angles"], merged["passed_rebuilds"])
    stats = merged["stats"]
    ctx.extra["slices"] = per_slice
    ctx.extra["replay"] = stats
    ctx.extra["timing_s"] = dict(tlc=round(t_parse - t_start, 1), parse=round(t_replay - t_parse, 1), replay=round(time.time() - t_replay, 1),
                                 replay_processes=nproc)
    ctx.exhaustive = True
    ctx.require(stats["accept"] > 0 and stats["reject"] > 0 and stats["comoving"] > 0 and stats["angles"] > 0,
                "replay did not reach accepted, rejected and comoving cases")
    ctx.require((stats["angles_repeated"] > 0 and stats["angles_on_shared_parts_other_cosmology"] > 0 and stats["rebuilds"] > 0) or bool(ctx._violations),
                "replay made no repeated angle observation / none on parts shared with a configuration of another cosmology")
    ctx.require(stats["angles_measures_differ"] > 0 or bool(ctx._violations),
                "replay compared no angle for a cosmology whose distance measures differ although nothing was reported")


_SHARED = None  # (tier, seed, quick, world, buckets, tmp): inherited by the forked replay workers


def _replay_bucket(i: int) -> dict:
    tier, seed, quick, world, buckets, tmp = _SHARED
    ctx = Ctx("C15", tier, seed)
    rep = Replayer(ctx, world, quick)
    rep.tmpdir = tmp
    per_slice: dict = {}
    for name, cases in buckets[i]:
        before = rep.stats["cases"]
        rep.replay_tree(cases)
        per_slice[name] = per_slice.get(name, 0) + rep.stats["cases"] - before
    return dict(viol=ctx._violations, drift=ctx._drift, evaluations=ctx.evaluations, nontrivial=[hash(k) for k in ctx.nontrivial],
                validated=ctx.traces_validated, stats=rep.stats, per_slice=per_slice, passed=[tuple_of(c) for c in rep.passed[:40]],
                passed_angles=[tuple_of(c) for c in rep.passed_angles],
                passed_rebuilds=[(tuple_of(a), tuple_of(b)) for a, b in rep.passed_rebuilds])


def tuple_of(c: Case) -> tuple:
    return ("case", c.p0, c.mods, (c.op, c.out, c.err, c.step, c.verdict), c.obj, c.decl, c.rs, c.rb, c.rc, c.angle, c.eq, c.rt, c.seq)


def replay_parallel(ctx: Ctx, world: World, groups: list, tmp, nproc: int) -> dict:
    """Replay the history trees on `nproc` forked workers (each tree is
    replayed by exactly one worker) and merge verdicts into ctx."""
    global _SHARED
    import multiprocessing

    buckets = [[] for _ in range(nproc)]
    load = [0] * nproc
    for name, tree in sorted(groups, key=lambda g: -len(g[1])):
        i = load.index(min(load))
        buckets[i].append((name, tree))
        load[i] += len(tree)
    _SHARED = (ctx.tier, ctx.seed, ctx.quick, world, buckets, tmp)
    if nproc == 1:
        outs = [_replay_bucket(0)]
    else:
        with multiprocessing.get_context("fork").Pool(nproc) as pool:
            outs = pool.map(_replay_bucket, range(nproc))
    _SHARED = None
    stats: dict = {}
    per_slice: dict = {}
    passed, passed_angles, passed_rebuilds = [], [], []
    for o in outs:
        for v in o["viol"]:
            for _ in range(v["count"]):
                ctx.violation(v["key"], v["detail"])
        for v in o["drift"]:
            for _ in range(v["count"]):
                ctx.drift(v["key"], v["detail"])
        ctx.evaluations += o["evaluations"]
        ctx.nontrivial.update(o["nontrivial"])
        ctx.validated(o["validated"])
        for k, v in o["stats"].items():
            if isinstance(v, dict):
                d = stats.setdefault(k, {})
                for kk, vv in v.items():
                    d[kk] = max(d.get(kk, 0.0), vv)
            else:
                stats[k] = stats.get(k, 0) + v
        for k, v in o["per_slice"].items():
            per_slice[k] = per_slice.get(k, 0) + v
        passed += [Case(t) for t in o["passed"]]
        passed_angles += [Case(t) for t in o["passed_angles"]]
        passed_rebuilds += [(Case(a), Case(b)) for a, b in o["passed_rebuilds"]]
    return dict(stats=stats, per_slice=per_slice, passed=passed, passed_angles=passed_angles, passed_rebuilds=passed_rebuilds)


def binding_demo(ctx: Ctx, world: World, all_cases: dict, passed: list, tmp, passed_angles=(), passed_rebuilds=()) -> None:
    """Binding demonstration: a case whose EXPECTED state is corrupted must be
    flagged by the comparison with the real library (on a private context).
    Uses cases the real library passed; if it passes none (a badly broken
    tree) the demonstration is skipped - the violations are reported anyway."""
    creates = [c for c in passed if c.op == "create"]
    comov = [c for c in creates if c.obj[5] == "comoving" and c.obj[6] > 1]
    rejects = [c for c in all_cases.values() if c.op == "create" and c.verdict == "reject"]
    if not creates or not rejects:
        ctx.require(bool(ctx._violations), "no case for the binding demonstration although nothing was reported")
        ctx.extra["binding_demonstration"] = "skipped: the library under test passed no create case"
        return

    def flagged(t, *more) -> list:
        private = Ctx("C15", ctx.tier, ctx.seed)
        rp = Replayer(private, world, True)
        rp.tmpdir = tmp
        rp.replay_tree([Case(t)] + [Case(m) for m in more])
        return [v["key"] for v in private._violations]

    demos = {}
    trials = [("num_bins", creates[0], lambda o: o[:6] + (o[6] + 1,) + o[7:]), ("unit", creates[0], lambda o: o[:2] + ("Mpc" if o[2] != "Mpc" else "kpc",) + o[3:]),
              ("max_workers", creates[0], lambda o: o[:I_WORKERS] + (7,))]
    if comov:
        trials.append(("comoving_edges_cosmology", comov[0], lambda o: o[:11] + ("WMAP9" if o[11] != "WMAP9" else "Planck15",) + o[12:]))
    for name, case, mutate in trials:
        keys = flagged(tuple_of(case)[:4] + (mutate(case.obj),) + tuple_of(case)[5:])
        demos[name] = keys[:2]
        ctx.require(any(k.endswith("_differs") or "other_cosmology" in k for k in keys),
                    f"binding demonstration failed: corrupted expectation ({name}) was not noticed")
    # angles: an expectation naming the other distance measure / another cosmology must be noticed for a cosmology
    # without D_A = D_C/(1+z) - and is NOT noticeable (the reason for these kinds) for a flat one
    if passed_angles:
        a = passed_angles[0]
        t = tuple_of(a)
        other = "Planck15" if a.angle[2] != "Planck15" else "WMAP9"
        for name, seq in (("angle_distance_measure", tuple((o[0], "comoving_distance/(1+z)") + o[2:] for o in a.seq)),
                          ("angle_cosmology", tuple(o[:4] + (other,) for o in a.seq)),
                          ("angle_of_repeated_observation", a.seq[:-1] + (a.seq[-1][:4] + (other,),)),
                          ("angle_divisor_applied_twice", a.seq[:-1] + (a.seq[-1][:3] + (2,) + a.seq[-1][4:],) if a.seq[-1][2] != 1 else None)):
            if seq is None:
                continue
            keys = flagged(t[:12] + (seq,))
            demos[name] = keys[:2]
            ctx.require(any(k.endswith("angle_differs") for k in keys), f"binding demonstration failed: corrupted expectation ({name}) was not noticed")
        flat = [c for c in creates if c.angle[3] == REL_TIED and c.angle[0] == "angular_diameter_distance"]
        if flat:
            t = tuple_of(flat[0])
            keys = flagged(t[:12] + (tuple((o[0], "comoving_distance/(1+z)") + o[2:] for o in flat[0].seq),))
            demos["angle_distance_measure_on_flat_cosmology(invisible)"] = [k for k in keys if "angle" in k]
    else:
        ctx.require(bool(ctx._violations), "no physical-unit case with a cosmology without D_A = D_C/(1+z) passed although nothing was reported")
        demos["angle_distance_measure"] = "skipped: the library under test passed no such case"
    # shared parts: the expectation "the donor returns the angles of the NEW configuration's cosmology" (what a memo on the
    # shared Scales object would give) must be noticed, the untouched pair must be silent
    if passed_rebuilds:
        par, reb = passed_rebuilds[0]
        tp, tr = tuple_of(par), tuple_of(reb)
        newc = reb.angle[2]
        keys = flagged(tp, tr[:12] + (tuple(o[:4] + (newc,) if o[0] == "d" else o for o in reb.seq),))
        demos["angle_of_donor_sharing_parts"] = keys[:2]
        ctx.require(any(k.endswith("angle_differs") for k in keys), "binding demonstration failed: corrupted expectation (donor's angles after a rebuild) was not noticed")
        ctx.require(not any("get_angle_radian" in k for k in flagged(tp, tr)), "binding demonstration failed: an unmodified create + rebuild pair is flagged")
    else:
        ctx.require(bool(ctx._violations), "no rebuild case (distance unit, other cosmology) passed although nothing was reported")
        demos["angle_of_donor_sharing_parts"] = "skipped: the library under test passed no such case"
    # a rejected case presented as 'accept' / an accepted one as 'reject'
    g, c = creates[0], rejects[0]
    keys = flagged(("case", c.p0, c.mods, (c.op, "ok", "-", "done", "accept"), g.obj, g.decl, c.rs, c.rb, c.rc, g.angle, g.eq, g.rt, g.seq))
    ctx.require(any("raises_" in k for k in keys), "binding demonstration failed: wrong verdict not noticed")
    keys = flagged(("case", g.p0, g.mods, (g.op, "rejects", "ValueError", "binning", "reject"), (), g.decl, g.rs, g.rb, g.rc, g.angle, g.eq, g.rt, g.seq))
    ctx.require(any(k.endswith("accepted_invalid") for k in keys), "binding demonstration failed: accepted case presented as reject not noticed")
    # the untouched case itself must be silent
    ctx.require(not flagged(tuple_of(g)) or all("__eq__" in k or "from_" in k or "end_points" in k for k in flagged(tuple_of(g))),
                "binding demonstration failed: an unmodified passed case is flagged")
    ctx.extra["binding_demonstration"] = dict(corrupted_expectations_flagged=demos, wrong_verdicts_flagged=True)


def replay_file(ctx: Ctx, world: World) -> None:
    """./check C15 --replay <file>: re-run the recorded history (TLC on the
    singleton domain of that history, then the usual comparison)."""
    doc = json.loads(open(ctx.replay).read())
    tc = doc["detail"]["tlc_case"]
    p = tc["p0"]
    P = dict(scales=[(_tup(p["rmin"]), _tup(p["rmax"]))], units=[p["unit"]], rw=[(p["rw"], p["res"])], zpairs=[(p["zmin"], p["zmax"])],
             numbins=[p["nb"]], methods=[p["method"]], edges=[_tup(p["edges"])], closeds=[p["closed"]], cosmos=[p["cosmo"]],
             workers=[p["workers"]])
    D = {}
    for m in tc["mods"]:
        for k, v in m.items():
            D.setdefault(k, [])
            v = _tup(v) if isinstance(v, list) else v
            if v not in D[k]:
                D[k].append(v)
    sl = make_slice("replay", P, D, maxmods=len(tc["mods"]), maxdelta=max([len(m) for m in tc["mods"]] + [0]), workers=1)
    res = run_slice(sl)
    ctx.add_tlc("Config ideal, replayed history", res)
    ctx.require(res.ok, "ideal design violated on the replay domain")
    rep = Replayer(ctx, world, False)
    with scratch("c15r_") as tmp:
        rep.tmpdir = tmp
        rep.replay_tree([Case(t) for t in parse_cases(res.out)])
    ctx.extra["replay"] = rep.stats
