"""C07 - measurements are independent of what was cached before.

Spec      : spec/CacheFS.tla, machine "trees" without Crash: histories of builds
            (any binning, forced or not) and measurements on one cache; TLC:
            HistoryIndependent / NeverWrongTrees for all histories up to the bound,
            and a counterexample for the deviation "ClosedSideIgnored".
spec->code: TLC-simulated and exhaustively enumerated crash-free histories are
            replayed on a real catalog cache (Catalog.build_trees, autocorrelate /
            crosscorrelate with the binning as reference or unknown role, reopening
            the catalog in between); after every operation the projection of the
            real cache (binning file decoded, trees recognised by content) must
            equal the model state (reuse vs rebuild decision included).
oracle    : every measurement of the history equals the measurement obtained from
            a freshly created cache (bit-exact CorrFunc digest).
"""

from __future__ import annotations

import itertools
import pickle
import random

import numpy as np

from harness import cachework as cw
from harness import data, tlc
from harness.yawenv import scratch

BIN = '{"N", "A", "A2", "B", "C", "A3", "D", "E"}'


def consts(dev="{}", maxb=4):
    return dict(Workload='"trees"', Binnings=BIN, MaxBuilds=maxb, NPatch=2, Deviations=dev)


def decode_marker(path):
    """Name of the binning a 'binning' file decodes to (as BinnedTrees.__init__ does)."""
    if not path.exists():
        return "absent"
    raw = path.read_bytes()
    closed = "left" if (len(raw) > 0 and raw[0] != 0) else "right"
    edges = np.frombuffer(raw[1:], dtype="f8") if len(raw) > 1 else np.empty(0)
    if len(edges) == 0:
        return "N"
    for name, val in cw.BINNINGS.items():
        if val is not None and len(val[0]) == len(edges) and np.array_equal(val[0], edges) and val[1] == closed:
            return name
    return "other"


def tree_digest(path):
    if not path.exists():
        return None
    with open(path, "rb") as f:
        t = pickle.load(f)
    if isinstance(t, tuple):
        return ("binned", tuple((x.num_records, float(x.sum_weights)) for x in t))
    return ("single", t.num_records, float(t.sum_weights))


class _Interrupt(Exception):
    pass


def parallel_build(cat, b, force, aux=None):
    """build_trees on two real worker processes - for every catalog the next measurement with
    binning b will use, so that the measurement itself finds all trees up to date"""
    yaw = data.import_yaw()

    def bt(c, name):
        if cw.BINNINGS[name] is None:
            c.build_trees(None, force=force, max_workers=2)
        else:
            edges, closed = cw.BINNINGS[name]
            c.build_trees(edges, closed=closed, force=force, max_workers=2)

    bt(cat, b)
    if aux is not None:
        rnd = yaw.Catalog(aux / "rnd", max_workers=1)
        if b == "N":
            bt(yaw.Catalog(aux / "refaux", max_workers=1), "A")
            bt(rnd, "A")
        else:
            bt(rnd, b)


def interrupted_build(cat, b):
    """build_trees that is interrupted (exception) when the second patch is about to be built."""
    from yaw.catalog import trees as trees_mod

    orig = trees_mod.BinnedTrees.build.__func__
    calls = {"n": 0}

    def build(cls, patch, binning, **kw):
        calls["n"] += 1
        if calls["n"] >= 2:
            raise _Interrupt()
        return orig(cls, patch, binning, **kw)

    trees_mod.BinnedTrees.build = classmethod(build)
    try:
        cw.build(cat, b)
    except _Interrupt:
        pass
    finally:
        trees_mod.BinnedTrees.build = classmethod(orig)


def strip_world(ctx, base) -> None:
    """A strip of six small patches measured with physical scales at high and at low redshift: which patch pairs are
    linked differs between the two configurations (same catalogs, same scales), so nothing derived from an earlier
    measurement may be reused for the later one."""
    src = cw.strip_make(base / "strip_src")
    ref = cw.strip_fresh_process(src, list(cw.STRIP_CONFIGS), base)
    for k, v in ref.items():
        ctx.require(isinstance(v, dict), f"strip world: reference measurement {k} failed in a fresh process: {str(v)[:300]}")
    ctx.require(ref["hi"] != ref["lo"], "strip world: configurations do not differ (vacuous)")
    for hi_, h in enumerate((["hi", "lo"], ["lo", "hi"], ["hi", "hi", "lo", "hi"], ["lo", "hi", "lo"])):
        work = base / f"strip_work{hi_}"
        for which in ("data", "rnd"):
            data.copy_cache(src / which, work / which)
        ctx.evaluated(1, ("strip", tuple(h)))
        ctx.validated(1)
        for si, name in enumerate(h):
            try:
                got = cw.strip_measure(work, name)
            except Exception as exc:  # noqa: BLE001
                ctx.violation(f"C07|measure|strip_of_small_patches|history_raises_{type(exc).__name__}", dict(history=h, step=si, error=repr(exc)[:300]))
                break
            if got != ref[name]:
                ctx.violation("C07|measure|after_same_scales_at_other_redshift|result_differs_from_fresh_cache", dict(history=h, step=si, configuration=name))
                break


def run(ctx) -> None:
    yaw = data.import_yaw()
    rng = random.Random(ctx.seed)
    quick = ctx.quick
    ctx.rule = ("crash-free histories of build_trees(binning, force) and measurements with 6 binnings (none, A, A with the other closed side, "
                "A with an edge moved by 2e-6, other edges, other bin count) and configuration variants of A (other scales, custom cosmology parameters) replayed on a real cache; non-trivial = history of >= 2 operations with at least two different binnings")
    inv = ["NeverWrongTrees", "HistoryIndependent"]
    res = tlc.run("CacheFS", tlc.make_cfg(constants=consts(), invariants=inv, deadlock=False), coverage=True)
    ctx.add_tlc("CacheFS trees machine, ideal, histories <= 4 ops (with and without crash)", res)
    ctx.require(res.ok, f"CacheFS ideal violated: {res.error_name}")
    res = tlc.run("CacheFS", tlc.make_cfg(constants=consts('{"ClosedSideIgnored"}'), invariants=inv, constraints=["NoCrash"], deadlock=False))
    ctx.add_tlc("CacheFS deviation ClosedSideIgnored (crash-free)", res)
    ctx.require(not res.ok, "deviation ClosedSideIgnored yields no counterexample")
    cex = [(t["action"], t["context"]) for t in res.trace[1:] if t["action"] in ("StartBuild", "Use")]
    ctx.extra["tlc_counterexample_ClosedSideIgnored"] = cex
    # histories: exhaustive short ones + TLC-simulated longer ones
    names = list(cw.BINNINGS)
    hist = []
    ops1 = [("build", b, f) for b in names for f in (False, True)] + [("use", b, False) for b in names]
    for a in ops1:
        for u in names:
            hist.append([a, ("use", u, False)])
    if not quick:
        for a, b in itertools.product(ops1, ops1):
            for u in names:
                hist.append([a, b, ("use", u, False)])
    nsim = 40 if quick else 400
    r2, behaviours = tlc.simulate("CacheFS", tlc.make_cfg(constants=consts(maxb=5), invariants=inv, constraints=["NoCrash"], deadlock=False),
                                  num=nsim, depth=60, seed=rng.randrange(1 << 20))
    ctx.add_tlc("CacheFS simulate crash-free histories (<= 5 ops)", r2, behaviours=len(behaviours))
    for beh in behaviours:
        h = []
        for act, params, st in beh:
            if act == "StartBuild":
                h.append(("build", str(params[0]), bool(params[1])))
            elif act == "Use":
                h.append(("use", str(params[0]), False))
        if h and h[-1][0] != "use":
            h.append(("use", rng.choice(names), False))
        if h:
            hist.append(h)
    # the deviation's counterexample as a history
    hist.append([("build" if a == "StartBuild" else "use", str(c["b"]), bool(c.get("force", False))) for a, c in cex])
    # histories with an INTERRUPTED build (exception after the first patch): per patch the model is the same
    # machine, patch 0 sees a completed build, patch 1 sees nothing
    for _ in range(12 if quick else 80):
        a, b, u = rng.choice(names), rng.choice(names), rng.choice(names)
        hist.append([("build", a, False), ("ibuild", b, False), ("use", rng.choice([b, u]), False)])
    # histories in which a build runs on a REAL pool of worker processes between in-process measurements
    # (state cached in the parent process must not survive a rebuild done by child processes)
    for _ in range(4 if quick else 30):
        a, b = rng.sample(names, 2)
        hist.append([("use", a, False), ("pbuild", b, rng.random() < 0.3), ("use", b, False)])
    # histories of measurements whose configurations share the binning (same trees) but differ in scales or only in
    # the parameters of a custom cosmology: nothing kept in memory from the earlier measurement may leak into the later
    for a, b in (("A", "A3"), ("A3", "A"), ("A", "D"), ("D", "A"), ("B", "D"), ("A", "E"), ("N", "E"), ("E", "A")):
        for f in (False, True):
            hist.append([("build", a, f), ("use", b, False)])
        hist.append([("use", a, False), ("use", b, False), ("use", a, False)])
    # two handles of one cache directory: H1 stays open while the directory is used through fresh handles in between
    # ("huse" = measure through H1); what H1 remembers must not override what the directory holds
    for _ in range(10 if quick else 60):
        a, b = rng.sample(names, 2)
        hist.append([("huse", a, False), (rng.choice(["use", "build"]), b, rng.random() < 0.3), ("huse", a, False)])
        hist.append([("huse", a, False), ("use", b, False), ("huse", b, False), ("use", a, False)])
    vnames = ["A"] + list(cw.VARIANTS)
    vh = [[("use", a, False), ("use", b, False)] for a, b in itertools.permutations(vnames, 2)]
    for _ in range(6 if quick else 40):
        vh.append([("use", rng.choice(vnames + names), False) for _ in range(rng.choice([3, 4]))])
    hist += vh
    keep = 45 + len(vh) + 24 + (20 if quick else 120)
    if quick and len(hist) > 115 + keep:
        head = hist[-keep:]
        hist = rng.sample(hist[:-keep], 115) + head

    with scratch("c07_") as base:
        aux = base / "aux"
        cw.prepare_aux(aux)
        src = base / "src"
        cw.make(src, "new")
        # the reference: every configuration measured in a NEW process on its own fresh copy of the cache
        ref = cw.measure_fresh_process(src, names + list(cw.VARIANTS), aux, base)
        for b in list(ref):
            if isinstance(ref[b], (list, tuple)) and ref[b] and ref[b][0] == "error":
                ctx.violation("C07|measure|fresh_cache_in_fresh_process|raises", dict(binning=b, error=ref[b][1]))
                ref[b] = None
        ctx.require(sum(v is not None for v in ref.values()) >= 3, "no reference measurements from fresh processes")
        ctx.require(ref["A@k1"] != ref["A@k2"] and ref["A"] != ref["A@s"], "configuration variants do not change the measurement (vacuous)")
        # ... and the same on fresh cache copies one after the other in THIS process
        for b in names + list(cw.VARIANTS):
            ctx.evaluated(1, ("fresh_copy_same_process", b))
            try:
                got = cw.measure(data.copy_cache(src, base / "tmp_ref"), b, aux)
            except Exception as exc:  # noqa: BLE001 - a measurement on a FRESH copy of the cache must work
                ctx.violation(f"C07|measure|fresh_cache_after_other_measurements_in_the_same_process|raises_{type(exc).__name__}",
                              dict(binning=b, error=repr(exc)[:300], note="measurements run one after the other on fresh cache copies at the same path"))
                continue
            if ref[b] is not None and got != ref[b]:
                ctx.violation("C07|measure|fresh_cache_after_other_measurements_in_the_same_process|result_differs_from_fresh_process", dict(binning=b))
        fresh_trees = {}
        for b in names:
            d = data.copy_cache(src, base / "tmp_ref")
            cw.build(yaw.Catalog(d, max_workers=1), b)
            fresh_trees[b] = [tree_digest(d / f"patch_{p}" / "trees.pkl") for p in range(cw.NPATCH)]
        for hi, h in enumerate(hist):
            work = data.copy_cache(src, base / "work")
            cat = yaw.Catalog(work, max_workers=1)
            h1 = yaw.Catalog(work, max_workers=1)      # the long-lived second handle
            model_marker = ["absent"] * cw.NPATCH
            nontrivial = len({x for _, x, _ in h}) > 1
            ctx.evaluated(1, tuple(h) if nontrivial else None)
            ctx.validated(1)
            for si, (op, cfgname, force) in enumerate(h):
                b = cw.base(cfgname)
                if rng.random() < 0.3:
                    cat = yaw.Catalog(work, max_workers=1)  # reopen
                before = [(work / f"patch_{p}" / "trees.pkl").stat().st_mtime_ns if (work / f"patch_{p}" / "trees.pkl").exists() else None
                          for p in range(cw.NPATCH)]
                reuse = (not force or op in ("use", "huse")) and model_marker[0] == b
                try:
                    if op == "build":
                        cw.build(cat, b, force)
                        got = None
                    elif op == "ibuild":
                        interrupted_build(cat, b)
                        got = None
                    elif op == "pbuild":
                        parallel_build(cat, b, force, aux)
                        got = None
                    elif op == "huse":
                        got = cw.measure(work, cfgname, aux, handle=h1)
                    else:
                        got = cw.measure(work, cfgname, aux)
                except Exception as exc:  # noqa: BLE001
                    ctx.violation(f"C07|{op}|history_raises_{type(exc).__name__}", dict(history=h, step=si, error=repr(exc)[:300]))
                    break
                if op in ("use", "huse") and ref[cfgname] is not None and got != ref[cfgname]:
                    prev = [x for x in h[:si]]
                    kind = "same_edges_other_closed_side" if any({pb, b} == {"A", "A2"} for _, pb, _ in prev) else "other"
                    if any({cw.base(pb), b} == {"A", "A3"} for _, pb, _ in prev):
                        kind = "nearly_equal_edges"
                    if any(pb != cfgname and cw.base(pb) == b for _, pb, _ in prev):
                        kind = "same_binning_other_scales_or_cosmology"
                    if any(o == "ibuild" for o, _, _ in prev):
                        kind = "interrupted_build"
                    if any(o == "pbuild" for o, _, _ in prev):
                        kind = "build_in_worker_processes"
                    if op == "huse" or any(o == "huse" for o, _, _ in prev):
                        kind = "second_open_handle_of_the_directory"
                    ctx.violation(f"C07|measure|after_{kind}|result_differs_from_fresh_cache", dict(history=h, step=si, binning=cfgname))
                    break
                # projection of the real cache vs the model state
                if op == "ibuild":
                    model_marker[0] = b      # only the first patch was (re)built
                    continue
                model_marker = [b] * cw.NPATCH
                for p in range(cw.NPATCH):
                    m = decode_marker(work / f"patch_{p}" / "binning")
                    t = tree_digest(work / f"patch_{p}" / "trees.pkl")
                    if m != model_marker[p] or t != fresh_trees[model_marker[p]][p]:
                        ctx.drift("C07|cache_state_differs_from_model", dict(history=h, step=si, patch=p, marker=m, model_marker=model_marker))
                        break
                after = [(work / f"patch_{p}" / "trees.pkl").stat().st_mtime_ns if (work / f"patch_{p}" / "trees.pkl").exists() else None
                         for p in range(cw.NPATCH)]
                rebuilt = after != before
                if rebuilt == reuse and before[0] is not None and len(set(model_marker)) == 1 and not any(o == "ibuild" for o, _, _ in h[:si]):
                    ctx.drift("C07|reuse_decision_differs_from_model", dict(history=h, step=si, model_reuse=reuse, real_rebuilt=rebuilt))
            if hi < 3:
                ctx.sample(dict(history=[f"{op}({b}{',force' if f else ''})" for op, b, f in h]))
        strip_world(ctx, base)
    ctx.extra["histories"] = len(hist)
