"""C17 - pair-count and data containers obey their documented algebra and indexing.

Spec      : spec/Containers.tla - a workspace of containers (PatchedCounts,
            PatchedSumWeights, NormalisedCounts, CorrFunc, SampledData/CorrData)
            and one action per public operation (+, 0 + x, sum, -, * scalar, ==,
            is_compatible, .bins[i|slice], .patches[i|slice], iteration,
            sample_patch_sum, sample, get_array, constructors).  TLC checks the laws of the
            property on every container of every reachable workspace (sum adds
            counts and needs equal binning/patches, commutativity, scaling leaves
            the estimate unchanged, equality reflexive/structural, selection =
            sub-arrays, selection commutes with summation/sampling/addition,
            iteration = indexing, valid operations accepted, invalid rejected).
spec->code: TLC prints every history (<= MaxDepth operations) with the exact
            abstract result of every step; harness/containers.py executes the
            history on real objects and compares result and all older objects
            (purity) after every step.  Scenarios with an empty redshift bin
            (zero=b) and single-patch containers put NaN into the real data
            containers: == must stay reflexive / structural / symmetric there.
            Index selections come as Python ints AND as numpy integer scalars
            (sel.t = "npint": np.int64/int32/intp/element of np.arange) on every
            level; the selection must equal the model object and the one made
            with the Python int.  Sums (+, sum()) of NormalisedCounts / CorrFunc
            with another measurement on the same bins and patches (variants
            "sw", "othersw": other sums of weights) must be rejected.
            In-place accumulation (IAdd: x = a; x += b, Accumulate: t = 0; t += a;
            t += b) yields the sum and leaves BOTH operands unchanged.  The one
            mutator, PatchedCounts.set_patch_pair (SetPatchPair, also through
            nc.counts / cf.<member>.counts), replaces its operand by the updated
            value; a staged run (observe -> edit -> observe again: PatchSum /
            Sample / GetArray, then SetPatchPair, then PatchSum / Sample /
            GetArray / == with a freshly built equal container / Bins) makes
            sure that nothing remembered from before the edit is reported after it.
deviations: the code as found (A1 MulCountAttr, A2 FancyPatchIndex, A3
            AddPassesClosed, AddDropsMembers, SwNdimChain, NumpyIndexOnCounts;
            hypothetical: AddIgnoresWeights): TLC must produce a counterexample
            for each; it is replayed on the real code.
"""

from __future__ import annotations

import random
from concurrent.futures import ThreadPoolExecutor

import numpy as np

from harness import containers as C
from harness import tlc

S = C.scenario

C17_OPS = ["Add", "Sub", "AddVar", "SubVar", "IAdd", "IAddVar", "Accumulate", "SetPatchPair", "RAdd", "Mul", "Eq", "EqVar", "IsCompat", "IsCompatVar", "Bins", "Patches",
           "IterBins", "IterPatches", "PatchSum", "Sample", "GetArray", "Construct"]
# observe -> edit a patch pair in place -> observe again (depth 3, a run of its own in the quick tier)
MUT_STAGES = [["PatchSum", "Sample", "GetArray"], ["SetPatchPair"], ["PatchSum", "Sample", "GetArray", "EqVar", "Bins"]]
MUT_OPS = sorted({op for st in MUT_STAGES for op in st})
REQUIRED_AROUND_MUTATION = [(a, "SetPatchPair", b) for a in ("PatchSum", "Sample", "GetArray")
                            for b in ("PatchSum", "Sample", "GetArray", "EqVar:fresh", "Bins")
                            if not (a == "Sample" and b == "PatchSum") and not (a == "PatchSum" and b == "Sample")]
# set_patch_pair on a selection (numpy view / fancy-indexed copy) of an older workspace object: the older object must keep its value
REQUIRED_EDIT_OF_SELECTION = [(c, op, t) for c in ("PatchedCounts", "NormalisedCounts", "CorrFunc") for op in ("Bins", "Patches")
                              for t in ("slice", "index")]
REQUIRED_PAIRS = [("GetArray", "Sample"), ("GetArray", "PatchSum"), ("GetArray", "Eq"), ("Sample", "Eq"), ("Sample", "EqVar"),
                  ("PatchSum", "Eq"), ("Sample", "Bins"), ("Bins", "Sample"), ("Bins", "GetArray"), ("Patches", "GetArray"),
                  ("Sample", "Bins:npint"), ("PatchSum", "Bins:npint")]
# (class, operation, input class, prescribed outcome) that must be among the replayed steps: numpy integer indices on
# every level, and sums of pair counts that are normalised by different sums of weights
REQUIRED_CLASSES = [(c, "bins", "npint", "val") for c in ("PatchedCounts", "PatchedSumWeights", "NormalisedCounts", "CorrFunc",
                                                           "SampledData", "CorrData")] + \
                   [(c, "bins", "npint_out_of_range", "rej") for c in ("PatchedCounts", "CorrFunc", "SampledData", "CorrData")] + \
                   [(c, "patches", "npint", "val") for c in ("PatchedCounts", "PatchedSumWeights", "NormalisedCounts", "CorrFunc")] + \
                   [(c, "add", v, "rej") for c in ("NormalisedCounts", "CorrFunc") for v in ("sw", "othersw")] + \
                   [("NormalisedCounts", "radd", "sum_othersw", "rej"), ("NormalisedCounts", "radd", "sum_compatible", "val"),
                    ("PatchedCounts", "radd", "sum_compatible", "val")] + \
                   [(c, "iadd", "compatible", "val") for c in ("PatchedCounts", "NormalisedCounts", "CorrFunc", "CorrData")] + \
                   [(c, "iadd", "othersw", "rej") for c in ("NormalisedCounts", "CorrFunc")] + \
                   [(c, "accumulate", "compatible", "val") for c in ("PatchedCounts", "NormalisedCounts")] + \
                   [("PatchedCounts", "set_patch_pair", "direct", "mut"), ("NormalisedCounts", "set_patch_pair", "counts", "mut"),
                    ("CorrFunc", "set_patch_pair", "member.counts", "mut")]


def base_scenarios():
    return [
        S("PC", 2, 3, seed=1), S("PC", 1, 1, seed=2), S("PC", 3, 2, auto=True, seed=1, closed="left"),
        S("SW", 2, 3, auto=True, seed=1), S("SW", 1, 2, seed=2),
        S("NC", 2, 3, seed=1), S("NC", 1, 2, auto=True, seed=2), S("NC", 3, 1, seed=0),
        S("CF", 2, 3, mem=("dr",), seed=1), S("CF", 2, 3, mem=("dr", "rd", "rr"), seed=2),
        S("CF", 1, 2, auto=True, mem=("dr", "rr"), seed=1), S("CF", 2, 2, mem=("rd",), seed=3, closed="left"),
        S("CF", 3, 2, mem=("dr", "rd"), seed=1), S("CF", 2, 1, mem=("rr",), seed=2),
        S("SD", 2, 3, seed=1), S("CD", 2, 3, seed=1), S("CD", 1, 1, seed=2), S("CD", 3, 2, seed=3, closed="left"),
        # an empty redshift bin: NaN value and samples in the real data containers, 0/0 terms in the estimators
        S("CD", 2, 3, seed=1, zero=2), S("SD", 3, 2, seed=2, zero=1), S("CD", 1, 2, seed=3, zero=1),
        S("CF", 2, 3, mem=("dr", "rr"), seed=1, zero=2), S("NC", 3, 2, auto=True, seed=1, zero=3), S("SW", 2, 2, seed=1, zero=1),
    ]


def deep_scenarios():
    return [S("PC", 2, 3, seed=1), S("SW", 2, 2, auto=True, seed=1), S("NC", 2, 2, seed=2),
            S("CF", 2, 2, mem=("dr", "rr"), seed=1), S("CD", 2, 2, seed=1),
            # sampled containers holding NaN: an empty bin (value and samples), a single patch (jackknife samples)
            S("CF", 2, 2, mem=("dr",), seed=1, zero=2), S("CD", 2, 2, seed=2, zero=2), S("NC", 2, 1, seed=1)]


def mutation_scenarios():
    return [S("PC", 2, 2, seed=1), S("PC", 1, 3, auto=True, seed=2), S("NC", 1, 2, auto=True, seed=2), S("NC", 2, 3, seed=1),
            S("CF", 1, 2, mem=("dr",), seed=1), S("CF", 2, 2, auto=True, mem=("dr", "rr"), seed=2),
            S("CF", 2, 3, mem=("dr", "rd", "rr"), seed=3)]


def extra_scenarios(rng, n):
    out = []
    for _ in range(n):
        lv = rng.choice(["PC", "SW", "NC", "CF", "CF", "SD", "CD"])
        mem = ()
        if lv == "CF":
            mem = rng.choice([("dr",), ("rd",), ("rr",), ("dr", "rd"), ("dr", "rr"), ("rd", "rr"), ("dr", "rd", "rr")])
        nb = rng.choice([1, 2, 3, 4])
        out.append(S(lv, nb, rng.choice([1, 2, 3, 4]), auto=rng.random() < 0.4 and lv not in ("SD", "CD"),
                     mem=mem, seed=rng.randrange(0, 9), closed=rng.choice(["left", "right"]),
                     zero=rng.choice([0, 0, 1, nb])))
    return out


# deviation -> (scenario, ops, invariants that must catch it)
DEV_RUNS = {
    "MulCountAttr": (S("NC", 2, 3, seed=1), ["Mul"], ["AcceptIffValid"]),
    "FancyPatchIndex": (S("PC", 2, 3, seed=1), ["Patches", "IterPatches"], ["AcceptIffValid"]),
    "AddPassesClosed": (S("CD", 2, 3, seed=1), ["Add", "Sub", "AddVar", "SubVar"], ["AcceptIffValid"]),
    "AddDropsMembers": (S("CF", 2, 3, mem=("dr",), seed=1), ["AddVar"], ["AcceptIffValid"]),
    "SwNdimChain": (S("SW", 2, 3, auto=True, seed=1), ["Construct"], ["AcceptIffValid"]),
    "NumpyIndexOnCounts": (S("NC", 2, 3, seed=1), ["Bins", "Patches"], ["AcceptIffValid"]),
    "AddIgnoresWeights": (S("NC", 2, 3, seed=1), ["AddVar", "RAdd"], ["AcceptIffValid"]),
}


def replay_batch(ctx, world, res, label, *, max_nodes=None, rng=None):
    inits, steps = C.parse_emitted(res.out)
    ctx.require(len(steps) + len(inits) == res.distinct,
                f"{label}: parsed {len(steps)} steps + {len(inits)} inits but TLC found {res.distinct} states")
    rp = C.Replayer(ctx, world, ctx.prop, inits, steps, sampling_is_foreign=True, max_nodes=max_nodes, rng=rng)
    rp.run()
    ctx.validated(rp.histories)
    return rp, inits, steps


def run(ctx) -> None:
    quick = ctx.quick
    rng = random.Random(ctx.seed)
    world = C.World()
    if ctx.replay:
        np.seterr(all="ignore")
        return C.replay_case(ctx, world, ctx.replay, sampling_is_foreign=True)
    np.seterr(all="ignore")  # 0/0 and x/0 in sampled values are part of the explored domain
    ctx.rule = ("every history of <= MaxDepth public operations enumerated by TLC (Containers.tla, PrintStep) for the listed "
                "scenarios is executed on real objects; evaluation = one executed operation with result and all older "
                "objects compared; non-trivial = history of >= 2 operations or an operation whose outcome is not a plain value; "
                "distinct = (scenario, history)")
    ctx.assume("containers are built from small integer counts/weights by the public constructors; the laws are checked by TLC "
               "on integers/rationals and transferred to floats by the step-wise comparison (exact for counts, 1e-9 relative "
               "for sampled values)")
    ctx.assume("the exception type of a rejection and behaviour the property leaves open (empty selections, 0/0, mixed "
               "SampledData/CorrData operands, differing sums of weights) are never a violation (drift at most)")

    base = base_scenarios()
    nbase = len(base)
    deep = deep_scenarios()
    if not quick:
        base = base + extra_scenarios(rng, 14)

    # the TLC runs are started together; the histories (emit ...) are replayed on the real code while the law
    # checking runs (laws ...) are still busy
    jobs = {}
    pool = ThreadPoolExecutor(max_workers=3 if quick else 4)
    # B. histories for the replay
    jobs["emit d2"] = pool.submit(C.run_model, deep, C17_OPS, 2, invariants=["TypeOK", "AcceptIffValid"], emit=True,
                                  selset="small" if quick else "full", workers=6)
    jobs["emit d1"] = pool.submit(C.run_model, base, C17_OPS, 1, invariants=["TypeOK", "AcceptIffValid"], emit=True, workers=4)
    jobs["emit mut"] = pool.submit(C.run_model, mutation_scenarios(), MUT_OPS, 3, invariants=["TypeOK", "AcceptIffValid"],
                                   emit=True, selset="small", workers=2, stages=MUT_STAGES)
    # A. the laws of the property on the ideal design
    jobs["laws d2"] = pool.submit(C.run_model, deep if quick else base[:nbase], C17_OPS, 2, invariants=C.LAWS_C17,
                                  selset="small" if quick else "full", workers=6)
    jobs["laws d1"] = pool.submit(C.run_model, base, C17_OPS, 1, invariants=C.LAWS_C17, workers=6)
    jobs["cover"] = pool.submit(C.run_model, deep, C17_OPS, 1, invariants=["TypeOK"], coverage=True, workers=2)
    for dev, (sc, ops, invs) in DEV_RUNS.items():
        jobs["dev " + dev] = pool.submit(C.run_model, [sc], ops, 1, invariants=invs, dev=[dev], workers=1)
        jobs["ideal " + dev] = pool.submit(C.run_model, [sc], ops, 1, invariants=["TypeOK"], emit=True, workers=1)
    if not quick:
        jobs["emit d3"] = pool.submit(C.run_model, deep, C17_OPS, 3, invariants=["TypeOK", "AcceptIffValid"], emit=True,
                                      selset="small", workers=6)
        jobs["emit d2 all"] = pool.submit(C.run_model, base[:nbase], C17_OPS, 2, invariants=["TypeOK", "AcceptIffValid"], emit=True,
                                          selset="full", workers=6)
        jobs["laws d3"] = pool.submit(C.run_model, deep[:3], C17_OPS, 3, invariants=C.LAWS_C17, selset="small", workers=6)
        jobs["laws mut"] = pool.submit(C.run_model, mutation_scenarios(), MUT_OPS, 3, invariants=C.LAWS_C17, selset="small", workers=2,
                                       stages=MUT_STAGES)

    class _Results(dict):
        def __missing__(self, key):
            self[key] = jobs[key].result()
            return self[key]

    results = _Results()
    try:
        _evaluate(ctx, world, rng, quick, jobs, results)
    finally:
        pool.shutdown(wait=True, cancel_futures=True)


def _evaluate(ctx, world, rng, quick, jobs, results) -> None:

    # B. replay
    total_ops = {}
    total_pairs: dict = {}
    total_classes: dict = {}
    around_mutation: dict = {}
    edit_of_selection: dict = {}
    eq_on_undefined = 0
    for label in [k for k in jobs if k.startswith("emit")]:
        res = results[label]
        ctx.add_tlc(f"Containers ideal, {label}: histories for replay", res)
        ctx.require(res.ok, f"Containers ideal design violates {res.error_name} ({label})")
        cap = None
        if label == "emit d3":
            cap = 400000
        rp, inits, steps = replay_batch(ctx, world, res, label, max_nodes=cap, rng=rng)
        for k, n in rp.ops_seen.items():
            total_ops[k] = total_ops.get(k, 0) + n
        for k, n in rp.pairs_seen.items():
            total_pairs[k] = total_pairs.get(k, 0) + n
        for k, n in rp.classes_seen.items():
            total_classes[k] = total_classes.get(k, 0) + n
        for k, n in rp.around_mutation.items():
            around_mutation[k] = around_mutation.get(k, 0) + n
        for k, n in rp.edit_of_selection.items():
            edit_of_selection[k] = edit_of_selection.get(k, 0) + n
        eq_on_undefined += rp.eq_on_undefined
        ctx.extra.setdefault("replay", {})[label] = dict(scenarios=len(inits), steps=len(steps), executed=rp.replayed,
                                                          histories=rp.histories, continued_with_model_object=rp.repaired,
                                                          expected_outcomes=rp.judge.by_outcome)
        if label == "emit d2":
            demo_steps = (inits, steps)
        if label == "emit d1":
            for sk, hist, r in steps[:: max(1, len(steps) // 5)][:5]:
                ctx.sample(dict(scenario=[str(x) for x in sk], history=[C._short_entry(h) for h in hist], expected=C._short_res(r)))
    for op in C17_OPS:
        ctx.require(total_ops.get(op, 0) > 0, f"operation {op} never replayed on the real code")
    ctx.extra["operations_replayed"] = total_ops
    for pair in REQUIRED_PAIRS:
        ctx.require(total_pairs.get(pair, 0) > 0, f"no history with {pair[0]} followed by {pair[1]} was replayed on the real code")
    for tr in REQUIRED_AROUND_MUTATION:
        ctx.require(around_mutation.get(tr, 0) > 0, f"no replayed history {tr[0]} -> SetPatchPair -> {tr[2]}")
    ctx.extra["observations_around_set_patch_pair"] = {"->".join(k): n for k, n in sorted(around_mutation.items())}
    for ek in REQUIRED_EDIT_OF_SELECTION:
        ctx.require(edit_of_selection.get(ek, 0) > 0, f"no replayed set_patch_pair on a {ek[2]} selection ({ek[1]}) of a {ek[0]}")
    ctx.extra["set_patch_pair_on_selections"] = {"|".join(k): n for k, n in sorted(edit_of_selection.items())}
    for ck in REQUIRED_CLASSES:
        ctx.require(total_classes.get(ck, 0) > 0, f"no replayed step of class {ck}")
    ctx.extra["numpy_integer_selections_replayed"] = sum(n for k, n in total_classes.items() if k[2].startswith("npint"))
    ctx.extra["sums_with_other_normalisation_replayed"] = sum(n for k, n in total_classes.items() if k[2].endswith(("othersw", "sw")))
    ctx.require(eq_on_undefined >= 20, f"== with a prescribed result was executed on only {eq_on_undefined} real containers holding NaN")
    ctx.extra["eq_executed_on_containers_holding_nan"] = eq_on_undefined
    ctx.extra["compositions_replayed"] = {f"{a}->{b}": n for (a, b), n in sorted(total_pairs.items())}

    for label in [k for k in jobs if k.startswith("laws")]:
        res = results[label]
        ctx.add_tlc(f"Containers ideal, {label}: all laws of C17", res)
        ctx.require(res.ok, f"Containers ideal design violates {res.error_name} ({label})")
    cov = results["cover"]
    ctx.add_tlc("Containers ideal, action coverage", cov)
    for op in C17_OPS:
        taken = max(cov.coverage.get("Some" + op, (0, 0))[1], cov.coverage.get(op, (0, 0))[1])
        ctx.require(taken > 0, f"Containers action {op} never taken (vacuous)")

    # C. deviations: TLC must exhibit each one; the counterexample is replayed on the real code
    dev_report = {}
    for dev, (sc, ops, invs) in DEV_RUNS.items():
        res = results["dev " + dev]
        ctx.add_tlc(f"Containers deviation {dev}", res)
        ctx.require(not res.ok and res.error_kind == "invariant",
                    f"deviation {dev} no longer yields a counterexample (stale model)")
        st = res.trace[-1]["state"]
        hist = _plain(st["hist"])
        dev_res = _plain(st["res"])
        inits, steps = C.parse_emitted(results["ideal " + dev].out)
        ideal = [r for sk, h, r in steps if C.Replayer.hkey(h) == C.Replayer.hkey(hist)]
        ctx.require(len(ideal) == 1, f"counterexample of {dev} not found among the ideal histories")
        sk = C.scen_key(sc)
        root = world.build(inits[sk][1])
        out = C.execute(world, hist[-1], dev_res, [root], salt=len(hist)) if hist[-1]["op"] != "Construct" else None
        if out is None:
            try:
                out = ("val", C.construct(world, inits[sk][1], hist[-1]["var"]))
            except Exception as exc:
                out = ("rej", exc)
        real_cls = out[0] if out[0] != "rej" else f"rej:{type(out[1]).__name__}"
        present = (out[0] == "rej") == (dev_res["out"] == "rej") and ideal[0]["out"] != dev_res["out"]
        dev_report[dev] = dict(violated=res.error_name, history=[C._short_entry(h) for h in hist], model_with_deviation=dev_res["out"],
                               ideal_model=ideal[0]["out"], real_code=real_cls, deviation_present_in_code=bool(present))
        ctx.validated(1)
        # the verdict itself comes from the judge with the IDEAL expectation
        j = C.Judge(ctx, world, ctx.prop, sampling_is_foreign=True)
        j.judge(sc, hist, ideal[0], [inits[sk][1]], out if hist[-1]["op"] != "Construct" else ("construct", None))
    ctx.extra["deviations"] = dev_report

    # D. binding demonstration: a corrupted expectation must be noticed by the comparison
    inits, steps = demo_steps
    tried = caught = 0
    by_kind: dict = {}
    for sk, hist, r in steps:
        # (<= 60 cases, and <= 10 more of the array results of get_array)
        if len(hist) != 1 or by_kind.get(r["out"] == "arr", 0) >= (10 if r["out"] == "arr" else 60):
            continue
        bad = C.corrupt(r)
        if bad is None:
            continue
        scen, v0 = inits[sk]
        root = world.build(v0)
        out = C.execute(world, hist[-1], r, [root], salt=len(hist))
        good_log, bad_log = [], []
        C.Judge(ctx, world, ctx.prop, sampling_is_foreign=True, collect=good_log).judge(scen, hist, r, [v0], out)
        C.Judge(ctx, world, ctx.prop, sampling_is_foreign=False, collect=bad_log).judge(scen, hist, bad, [v0], out)
        if any(kind == "violation" for kind, _ in good_log):
            continue  # a step the real code already fails (known defect): not usable for the demonstration
        tried += 1
        by_kind[r["out"] == "arr"] = by_kind.get(r["out"] == "arr", 0) + 1
        caught += any(kind == "violation" for kind, _ in bad_log)
    # (a library so broken that hardly any step is clean is reported through its violations, not as a machinery failure)
    ctx.require((tried >= 10 or bool(ctx._violations)) and caught == tried,
                f"binding demonstration failed: {caught}/{tried} corrupted expectations noticed")
    ctx.require(by_kind.get(True, 0) > 0 or bool(ctx._violations), "no corrupted get_array expectation was tried")
    ctx.extra["binding_demo"] = dict(corrupted_expectations=tried, noticed=caught, of_which_get_array=by_kind.get(True, 0))
    ctx.exhaustive = True


def _plain(v):
    """JSON counterexample value -> the plain form produced by parse_emitted."""
    if isinstance(v, dict):
        return {k: _plain(x) for k, x in v.items()}
    if isinstance(v, (list, tuple)):
        return [_plain(x) for x in v]
    return v
