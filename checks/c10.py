"""C10 - redshift-bin membership follows the closed-side rule everywhere.

Spec      : spec/Sky.tla, BinOf (cell -> bin under the closed side) used by Count,
            SumW1 and TotalsAgree; redshift cells cover 'below', every edge, every
            bin interior and 'above'.  TLC enumerates every placement of the binned
            objects over all cells for both closed sides and prints the expected
            per-bin, per-patch numbers.
spec->code: every printed scenario is realised (redshift = exactly the float of the
            edge for edge cells) and four implementations of the rule are compared
            with the model and hence with each other: the trees of build_trees
            (BinnedTrees per-bin num_records / sum_weights), the sum_weights of a
            measurement, the pair counts, and HistData.from_catalog.
oracle    : equality with the model's integers; patches or bins without objects
            must give zeros, not an exception.
"""

from __future__ import annotations

import zlib

import random

from harness import data, par, sky
from harness.yawenv import scratch


def families(quick):
    F = {}
    for closed in ("right", "left"):
        F[f"cells_{closed}"] = sky.SkyConfig(nref=2, nunk=2, slots="{1, 3, 6, 8}", zcells="0..6", weights="{1, 2}", closed=closed,
                                             rmin=(2.5,), rmax=(22.5,))
        if not quick:
            F[f"cells3_{closed}"] = sky.SkyConfig(nref=3, nunk=2, slots="{1, 3, 6, 8}", zcells="0..6", weights="{1}", closed=closed,
                                                  rmin=(2.5,), rmax=(22.5,))
    # many bins (more than 255): bin indices must not wrap or saturate; cells around bins 255/256/257 and the last bin
    edges = tuple(round(0.01 + 0.01 * k, 2) for k in range(301))
    for closed in ("right", "left"):
        F[f"many_bins_{closed}"] = sky.SkyConfig(nref=2, nunk=2, slots="{1, 8}", zcells="{2, 510, 512, 513, 514, 600, 601, 602}", weights="{1}",
                                                 closed=closed, edges=edges, rmin=(2.5,), rmax=(22.5,), print_every=2)
    return F


def cell_class(exp, sc):
    """Classify the scenario by where the redshifts sit."""
    cells = sorted(o["z"] for o in exp["ref"])
    nb = sc.nb
    cls = []
    if any(c in (0, 2 * nb + 2) for c in cells):
        cls.append("outside")
    if any(c % 2 == 1 and c not in (1, 2 * nb + 1) for c in cells):
        cls.append("on_inner_edge")
    if any(c in (1, 2 * nb + 1) for c in cells):
        cls.append("on_outer_edge")
    return "+".join(cls) or "interior"


def run(ctx) -> None:
    data.import_yaw()
    rng = random.Random(ctx.seed)
    quick = ctx.quick
    ctx.rule = ("all placements of 2(3) binned objects over the 7 redshift cells (below, on e0, in bin 1, on e1, in bin 2, on e2, above) x weights x "
                "4 slots, both closed sides, enumerated by TLC; non-trivial = at least one object on an edge or outside")
    F = families(quick)
    nmax = 400 if quick else 3000
    with scratch("c10_") as root:
        n = 0
        for sc in F.values():
            sc.derive()
        outs = sky.model_check_many(ctx, [(f"Sky ideal, family {fam}", sc, ["MetaDescribesPatch"] if fam.startswith("many_bins") else ["TotalsAgree", "MetaDescribesPatch"], {})
                                          for fam, sc in F.items()])     # (TotalsAgree recurses over bins x patches^2: too deep for 300 bins)
        jobs = []
        for (fam, sc), (res, scen) in zip(F.items(), outs):
            ctx.require(res.ok, f"Sky ideal ({fam}) violated: {res.error_name}")
            ctx.exhaustive = True
            # stratify by the set of cells used
            by = {}
            for e in scen:
                by.setdefault(tuple(sorted(o["z"] for o in e["ref"])), []).append(e)
            chosen = []
            for cells, lst in sorted(by.items()):
                chosen += rng.sample(lst, min(len(lst), max(1, nmax // len(by))))
            ctx.extra.setdefault("families", {})[fam] = dict(scenarios=len(scen), cell_combinations=len(by), realised=len(chosen))
            for exp in chosen:
                n += 1
                jobs.append((fam, sc, exp, str(root / f"job{n}")))
        par.pmap(ctx, realise_job, jobs)
        for fam, sc, exp, _ in jobs:
            if len(ctx.samples) < 4 and cell_class(exp, sc) != "interior":
                ctx.sample(dict(family=fam, closed=sc.closed, ref=[dict(o) for o in exp["ref"]], cells=cell_class(exp, sc), expected_binw=sky.nested(exp["binw"])))


def realise_job(ctx, job) -> None:
    import shutil
    from pathlib import Path

    fam, sc, exp, work = job
    work = Path(work)
    cc = cell_class(exp, sc)
    empty_patch = any(all(sky_bin(sc, o["z"]) == 0 for o, a in zip(exp["ref"], exp["assign1"]) if a == i + 1) for i in range(len(sc.centres)))
    pclass = "patch_without_object_in_any_bin" if empty_patch else "every_patch_has_binned_objects"
    ctx.evaluated(1, (fam, repr(exp["ref"])) if cc != "interior" else None)
    ctx.validated(1)
    detail = dict(family=fam, closed=sc.closed, ref=[dict(o) for o in exp["ref"]], cells=cc, expected_binw=sky.nested(exp["binw"]))
    try:
        try:
            obs = sky.realise(sc, exp, work, "equator", want=("trees", "hist", "cross"))
            for stage in ("trees", "hist", "cross"):
                judge(ctx, sc, exp, obs, stage, cc, pclass, detail)
            if cc != "interior" and zlib.crc32(repr(exp["ref"]).encode()) % 3 == 0:
                # "everywhere" includes helper processes: the same stages with 2 workers (binning and closed side
                # cross a pickling boundary on the deterministic multiprocessing runtime)
                obs2 = sky.realise(sc, exp, work, "equator", want=("trees", "hist", "cross"), workers=2, sched_seed=len(repr(exp["ref"])))
                for stage in ("trees", "hist", "cross"):
                    judge(ctx, sc, exp, obs2, stage, cc, pclass + ",2_workers", detail)
        except Exception:  # noqa: BLE001  -> find out which stage raises
            for stage in ("trees", "hist", "cross"):
                try:
                    obs = sky.realise(sc, exp, work, "equator", want=(stage,))
                except Exception as exc:  # noqa: BLE001
                    ctx.violation(f"C10|{stage}|closed={sc.closed}|{pclass}|raises_{type(exc).__name__}", dict(detail, error=repr(exc)[:200]))
                    continue
                judge(ctx, sc, exp, obs, stage, cc, pclass, detail)
    finally:
        shutil.rmtree(work, ignore_errors=True)


def sky_bin(sc, c):
    nb = sc.nb
    if c % 2 == 0:
        return c // 2 if 2 <= c <= 2 * nb else 0
    if sc.closed == "right":
        return (c - 1) // 2 if c >= 3 else 0
    return (c + 1) // 2 if c <= 2 * nb - 1 else 0


def judge(ctx, sc, exp, obs, stage, cc, pclass, detail):
    nb, nc = sc.nb, len(sc.centres)
    binw = exp["binw"]
    if stage == "trees":
        for i in range(nc):
            trees = obs["trees"][i]
            for b in range(nb):
                n_exp = sum(1 for o, a in zip(exp["ref"], exp["assign1"]) if a == i + 1 and sky_bin(sc, o["z"]) == b + 1)
                if trees[b] != (n_exp, float(binw[b][i])):
                    ctx.violation(f"C10|trees|closed={sc.closed}|{cc}|membership_differs_from_rule", dict(detail, patch=i, bin=b, observed=trees[b], expected=(n_exp, binw[b][i])))
                    return
    elif stage == "hist":
        for b in range(nb):
            e = sum(binw[b][i] for i in range(nc))
            if obs["hist"][b] != e:
                ctx.violation(f"C10|histogram|closed={sc.closed}|{cc}|membership_differs_from_rule", dict(detail, bin=b, observed=obs["hist"][b], expected=e))
                return
    else:
        for b in range(nb):
            for i in range(nc):
                if obs["sw1"][b][i] != binw[b][i]:
                    ctx.violation(f"C10|sum_weights|closed={sc.closed}|{cc}|membership_differs_from_rule", dict(detail, bin=b, patch=i, observed=obs["sw1"][b][i], expected=binw[b][i]))
                    return
        from checks.c01 import compare_counts

        compare_counts(ctx, "C10", "cells", sc, exp, obs, "equator", extra_key=f"|{cc}")
