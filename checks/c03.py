"""C03 - jackknife sample k is the statistic with patch k left out.

Spec      : spec/Jackknife.tla.  A workspace of pair-count containers (counts
            cnt[f,m][b][i][j], per-patch sums of weights wt[f,role][b][i], patch
            histograms hst[p][b]) and the public operations as programs with one
            action per code step: PatchedCounts/PatchedSumWeights.sample_patch_sum
            (get_array, total, row sum, column sum, diagonal, combine),
            NormalisedCounts.sample_patch_sum (ratio), CorrFunc.sample (estimator on
            values and on samples), RedshiftData.from_corrfuncs, CorrFunc.to_file/
            from_file, HistData.from_catalog (pool of W workers, rows by carried index,
            resample_jackknife index trick), SampledData.covariance.  The property
            side recomputes every statistic FROM SCRATCH over the kept patches
            Patches \\ {k} (exact rationals).  TLC checks JackknifeIsLeaveOneOut,
            FrameUnchanged, CovWellFormed (+ Cauchy-Schwarz), Termination for every
            data set of small domains (pseudo-random data sets from the corr level on),
            every operation history up to MaxOps and every pool schedule.
spec->code: every terminal TLC state is printed (data, history, expected results) and
            replayed on REAL objects built from those integers; .data, every row of
            .samples, .covariance, .error are compared after every operation of the
            history on the same objects.  Histogram behaviours are replayed through a
            fake multiprocessing.Pool following TLC's completion order on a real
            catalog with exactly the model's per-patch histogram.
            Deviation configs must yield TLC counterexamples; each is replayed.
code->spec: (spec/JackknifeTrace.tla) pair counts measured by crosscorrelate /
            autocorrelate on real catalogs (integer weights) are loaded into the
            specification; TLC must reproduce the recorded sample_patch_sum results and
            its from-scratch sums without patch k must equal the totals re-measured on
            catalogs from which patch k was physically removed.
oracle    : (1) spec's exact expected value per sample (primary); (2) the library's own
            statistic on containers / catalogs with patch k removed (used where the
            spec's value is undefined - zero denominators - and as the end-to-end
            predicate); (3) covariance = (N-1)/N sum_k (x_k - mean)(x_k - mean)^T of
            the reported samples, symmetric, PSD; error = sqrt(diag).
"""

from __future__ import annotations

import itertools
import json
import math
import random
import warnings
from concurrent.futures import ThreadPoolExecutor
from dataclasses import dataclass
from fractions import Fraction

import numpy as np

from harness import data, detrt, tlaval, tlc
from harness.yawenv import scratch

UNIT = Fraction(1, 10)  # width of a bin of DZ = 1 on the real redshift axis
ZMIN = Fraction(1, 10)
MEMBER_ORDER = ("dd", "dr", "rd", "rr")
IDEAL_INVS = ["TypeOK", "JackknifeIsLeaveOneOut", "FrameUnchanged", "CovWellFormed", "PrintBeh"]
RTOL = 1e-9

ENTRY = {
    "counts": "PatchedCounts.sample_patch_sum",
    "sumw": "PatchedSumWeights.sample_patch_sum",
    "norm": "NormalisedCounts.sample_patch_sum",
    "corr": "CorrFunc.sample",
    "nz": "RedshiftData.from_corrfuncs",
    "hist": "HistData.from_catalog",
    "io": "CorrFunc.to_file+from_file",
}


# ---------------------------------------------------------------------------
# TLC configurations
# ---------------------------------------------------------------------------


@dataclass(frozen=True)
class Cfg:
    label: str
    level: str
    NP: int
    NB: int
    cvals: tuple = (0,)
    wvals: tuple = (1,)
    hvals: tuple = (0,)
    funcs: tuple = ()  # ((name, auto, (members...)), ...)
    dz: tuple = (1, 2, 3)
    nsample: int = 0
    maxops: int = 1
    maxw: int = 1
    cauchy: bool = False
    liveness: bool = False

    @property
    def fauto(self) -> dict:
        return {f: a for f, a, _ in self.funcs}

    @property
    def fmembers(self) -> dict:
        return {f: tuple(m) for f, _, m in self.funcs}


def _set(vals) -> str:
    return "{" + ", ".join(str(v) for v in vals) + "}"


def wrapper_module(cfg: Cfg, name: str = "Jackknife_MC", base: str = "Jackknife") -> str:
    if cfg.funcs:
        fa = "[" + ", ".join(f"{f} |-> {'TRUE' if a else 'FALSE'}" for f, a, _ in cfg.funcs) + "]"
        fm = "[" + ", ".join(f"{f} |-> " + "{" + ", ".join(f'"{m}"' for m in ms) + "}" for f, _, ms in cfg.funcs) + "]"
    else:
        fa = "[f \\in {} |-> TRUE]"
        fm = "[f \\in {} |-> {}]"
    return (
        f"---- MODULE {name} ----\nEXTENDS {base}\n"
        f"FAutoDef == {fa}\nFMembersDef == {fm}\nDZDef == <<{', '.join(map(str, cfg.dz))}>>\n====\n"
    )


def constants(cfg: Cfg, dev: str, seed: int, level: str | None = None) -> dict:
    return dict(
        NP=cfg.NP, NB=cfg.NB, CVals=_set(cfg.cvals), WVals=_set(cfg.wvals), HVals=_set(cfg.hvals),
        Level=f'"{level or cfg.level}"', FAuto="<- FAutoDef", FMembers="<- FMembersDef", DZ="<- DZDef",
        NSample=cfg.nsample, Seed=seed, MaxOps=cfg.maxops, MaxW=cfg.maxw, Deviations=dev,
    )


def run_tlc(cfg: Cfg, *, dev: str = "{}", seed: int = 0, invs=None, workers=3):
    if invs is None:
        invs = list(IDEAL_INVS) + (["CovCauchySchwarz"] if cfg.cauchy else [])
    text = tlc.make_cfg(
        constants=constants(cfg, dev, seed), invariants=invs,
        properties=["Termination"] if (cfg.liveness and dev == "{}") else [], deadlock=True,
    )
    return tlc.run("Jackknife_MC", text, extra_modules={"Jackknife_MC": wrapper_module(cfg)}, coverage=(dev == "{}"),
                   workers=workers)


def run_many(jobs, fn, threads: int = 8):
    with ThreadPoolExecutor(max_workers=threads) as ex:
        return list(ex.map(fn, jobs))


X_CROSS = (("x", False, ("dd",)),)
X_AUTO = (("x", True, ("dd",)),)


def ideal_configs(quick: bool) -> list[Cfg]:
    c: list[Cfg] = []
    # --- single arrays: every array of the domain (any sparsity) ---------
    if quick:
        c.append(Cfg("counts 3 patches x 1 bin, cells 0..1 (all 512 arrays), histories of 2", "counts", 3, 1, cvals=(0, 1), funcs=X_CROSS, maxops=2,
                     cauchy=True, liveness=True))
        c.append(Cfg("counts 2 patches x 2 bins, cells 0..2 (all 6561 arrays)", "counts", 2, 2, cvals=(0, 1, 2), funcs=X_AUTO, cauchy=True))
    else:
        c.append(Cfg("counts 3 patches x 1 bin, cells 0..2 (all 19683 arrays)", "counts", 3, 1, cvals=(0, 1, 2), funcs=X_CROSS, cauchy=True))
        c.append(Cfg("counts 3 patches x 1 bin, cells 0..1, histories of 3", "counts", 3, 1, cvals=(0, 1), funcs=X_CROSS, maxops=3, cauchy=True, liveness=True))
        c.append(Cfg("counts 2 patches x 2 bins, cells 0..2, histories of 2", "counts", 2, 2, cvals=(0, 1, 2), funcs=X_AUTO, maxops=2, cauchy=True))
        c.append(Cfg("counts 4 patches x 1 bin, cells 0..1 (all 65536 arrays)", "counts", 4, 1, cvals=(0, 1), funcs=X_CROSS))
        c.append(Cfg("counts 2 patches x 3 bins, cells 0..1, histories of 2", "counts", 2, 3, cvals=(0, 1), funcs=X_AUTO, maxops=2))
    c.append(Cfg("counts 4 patches x 2 bins, cells 0..3, pseudo-random arrays, histories of 2", "counts", 4, 2, cvals=(0, 1, 2, 3),
                 funcs=X_AUTO, nsample=100 if quick else 1000, maxops=2))
    c.append(Cfg("sum-of-weights products auto, 3 patches x 2 bins, weights 0..2", "sumw", 3, 2, wvals=(0, 1, 2), funcs=X_AUTO, cauchy=True))
    c.append(Cfg("sum-of-weights products cross, 3 patches x 1 bin, weights 0..2", "sumw", 3, 1, wvals=(0, 1, 2), funcs=X_CROSS, cauchy=True))
    c.append(Cfg("sum-of-weights products auto, 4 patches x 1 bin, weights 0..3, histories of 2", "sumw", 4, 1, wvals=(0, 1, 2, 3), funcs=X_AUTO, maxops=2))
    if quick:
        c.append(Cfg("normalised counts cross, 2 patches x 1 bin, cells 0..2, weights 0..1", "norm", 2, 1, cvals=(0, 1, 2), wvals=(0, 1), funcs=X_CROSS, maxops=1))
        c.append(Cfg("normalised counts auto, 3 patches x 1 bin, cells 0..1, weights 1..2", "norm", 3, 1, cvals=(0, 1), wvals=(1, 2),
                     funcs=X_AUTO, maxops=1))
    else:
        c.append(Cfg("normalised counts cross, 2 patches x 1 bin, cells 0..2, weights 0..2, histories of 2", "norm", 2, 1, cvals=(0, 1, 2), wvals=(0, 1, 2),
                     funcs=X_CROSS, maxops=2))
        c.append(Cfg("normalised counts auto, 3 patches x 1 bin, cells 0..1, weights 0..2", "norm", 3, 1, cvals=(0, 1), wvals=(0, 1, 2),
                     funcs=X_AUTO, maxops=1, liveness=True))
        c.append(Cfg("sum-of-weights products cross, 2 patches x 2 bins, weights 0..2, histories of 2", "sumw", 2, 2, wvals=(0, 1, 2), funcs=X_CROSS, maxops=2))
        c.append(Cfg("normalised counts cross, 3 patches x 2 bins, 400 pseudo-random, histories of 3", "norm", 3, 2, cvals=(0, 1, 2, 3),
                     wvals=(0, 1, 2), funcs=X_CROSS, nsample=400, maxops=3))
    # --- correlation functions: every member combination the estimators define ---
    n = 40 if quick else 400
    ops = 2 if quick else 3
    member_sets = [
        ("cross", False, ("dd", "dr")), ("cross", False, ("dd", "rd")), ("cross", False, ("dd", "dr", "rd")),
        ("cross", False, ("dd", "dr", "rr")), ("cross", False, ("dd", "dr", "rd", "rr")),
        ("ref", True, ("dd", "dr")), ("ref", True, ("dd", "dr", "rr")),
    ]
    for i, (f, auto, ms) in enumerate(member_sets):
        NP, NB = ((3, 1), (2, 2), (4, 1))[i % 3] if quick else ((3, 2), (4, 1), (2, 3))[i % 3]
        c.append(Cfg(f"CorrFunc {'auto' if auto else 'cross'} {'|'.join(ms)}, {NP} patches x {NB} bins, {n} pseudo-random, histories of {ops}",
                     "corr", NP, NB, cvals=(0, 1, 2), wvals=(1, 2) if i % 2 else (0, 1, 2), funcs=((f, auto, ms),), nsample=n, maxops=ops))
    for ms in (("dd", "rd", "rr"), ("dd", "rr")):  # no formula prescribed: rejection or a self-consistent result
        c.append(Cfg(f"CorrFunc cross {'|'.join(ms)} (no estimator prescribed), 3 patches x 1 bin, 10 pseudo-random", "corr", 3, 1,
                     cvals=(0, 1, 2), wvals=(1, 2), funcs=(("cross", False, ms),), nsample=10, maxops=2))
    # --- redshift estimates ----------------------------------------------
    nz_sets = [
        ((("cross", False, ("dd", "dr", "rd", "rr")), ("ref", True, ("dd", "dr", "rr"))), 3, 2, (1, 2)),
        ((("cross", False, ("dd", "dr")),), 2, 3, (2, 1, 3)),
        ((("cross", False, ("dd", "rd")), ("ref", True, ("dd", "dr")), ("unk", True, ("dd", "dr", "rr"))), 3, 2, (3, 1)),
    ]
    n = 25 if quick else 300
    for funcs, NP, NB, dz in nz_sets:
        c.append(Cfg(f"RedshiftData {'+'.join(f for f, _, _ in funcs)}, {NP} patches x {NB} bins dz={dz}, {n} pseudo-random, histories of 2",
                     "nz", NP, NB, cvals=(0, 1, 2), wvals=(1, 2), funcs=funcs, dz=dz, nsample=n, maxops=2))
    # --- histograms: every per-patch histogram x every pool schedule -------
    c.append(Cfg("histogram 3 patches x 1 bin, cells 0..2, pools 1..3 (all schedules)", "hist", 3, 1, hvals=(0, 1, 2), maxw=3, cauchy=True, liveness=True))
    c.append(Cfg("histogram 2 patches x 2 bins, cells 0..2, pools 1..2", "hist", 2, 2, hvals=(0, 1, 2), maxw=2, cauchy=True))
    c.append(Cfg("histogram 4 patches x 2 bins, cells 0..3, 12 pseudo-random, pools 1..2", "hist", 4, 2, hvals=(0, 1, 2, 3), nsample=12, maxw=2))
    if not quick:
        c.append(Cfg("histogram 3 patches x 2 bins, cells 0..2, pools 1..3", "hist", 3, 2, hvals=(0, 1, 2), maxw=3, cauchy=True))
        c.append(Cfg("histogram 5 patches x 3 bins, cells 0..3, 10 pseudo-random, pools 1..3", "hist", 5, 3, hvals=(0, 1, 2, 3), nsample=10, maxw=3))
    return c


# deviation -> (config in which TLC must find a counterexample, present in the code as found?)
def deviation_configs() -> dict:
    lsfull = (("cross", False, ("dd", "dr")),)
    return {
        "HistDeleteFirstBlock": Cfg("dev", "hist", 3, 1, hvals=(0, 1), maxw=1),
        "HistArrivalRows": Cfg("dev", "hist", 3, 1, hvals=(0, 1), maxw=2),
        "InPlaceDiagView": Cfg("dev", "counts", 2, 1, cvals=(0, 1), funcs=X_CROSS, maxops=2),
        "NoDiagAddBack": Cfg("dev", "counts", 2, 1, cvals=(0, 1), funcs=X_CROSS),
        "AutoFullMatrix": Cfg("dev", "sumw", 2, 1, wvals=(0, 1), funcs=X_AUTO),
        "AutoNoHalfDiag": Cfg("dev", "sumw", 2, 1, wvals=(0, 1), funcs=X_AUTO),
        "NormByTotal": Cfg("dev", "norm", 2, 1, cvals=(0, 1), wvals=(0, 1), funcs=X_CROSS),
        "EstimateDDFromTotals": Cfg("dev", "corr", 2, 1, cvals=(0, 1, 2), wvals=(1, 2), funcs=lsfull, nsample=20),
        "Dz2Scrambled": Cfg("dev", "nz", 2, 2, cvals=(0, 1, 2), wvals=(1, 2), funcs=lsfull, dz=(1, 2), nsample=20),
    }


# ---------------------------------------------------------------------------
# the mapping spec <-> code (mirrors R1/R2/IsAuto of Jackknife.tla)
# ---------------------------------------------------------------------------


def role1(auto: bool, m: str) -> str:
    return ("d" if m in ("dd", "dr") else "r") if auto else ("d1" if m in ("dd", "dr") else "r1")


def role2(auto: bool, m: str) -> str:
    return ("d" if m in ("dd", "rd") else "r") if auto else ("d2" if m in ("dd", "rd") else "r2")


def is_auto(auto: bool, m: str) -> bool:
    return auto and m in ("dd", "rr")


def make_binning(yaw, nb: int, dz):
    edges = [ZMIN]
    for w in dz[:nb]:
        edges.append(edges[-1] + UNIT * w)
    return yaw.Binning(np.array([float(e) for e in edges]), closed="right")


class Workspace:
    """Real containers built from the integers of a TLC state."""

    def __init__(self, yaw, funcs, dz, cnt: dict, wt: dict, tmpdir) -> None:
        from yaw.correlation.paircounts import NormalisedCounts, PatchedCounts, PatchedSumWeights

        self.yaw = yaw
        self.funcs = funcs
        self.dz = dz
        self.tmpdir = tmpdir
        self.nc: dict = {}
        self.cf: dict = {}
        self.arrays: dict = {}
        for f, auto, members in funcs:
            parts = {}
            for m in members:
                c = np.array(cnt[(f, m)], dtype=np.float64)
                nb = c.shape[0]
                w1 = np.array(wt[(f, role1(auto, m))], dtype=np.float64)
                w2 = np.array(wt[(f, role2(auto, m))], dtype=np.float64)
                binning = make_binning(yaw, nb, dz)
                a = is_auto(auto, m)
                self.arrays[(f, m)] = (c.copy(), w1.copy(), w2.copy(), a)
                nc = NormalisedCounts(PatchedCounts(binning, c, auto=a), PatchedSumWeights(binning, w1, w2, auto=a))
                self.nc[(f, m)] = nc
                parts[m] = nc
            if len(parts) > 1:
                self.cf[f] = yaw.CorrFunc(**parts)

    def execute(self, op):
        kind, f, m = op
        if kind == "counts":
            return self.nc[(f, m)].counts.sample_patch_sum()
        if kind == "sumw":
            return self.nc[(f, m)].sum_weights.sample_patch_sum()
        if kind == "norm":
            return self.nc[(f, m)].sample_patch_sum()
        if kind == "corr":
            return self.cf[f].sample()
        if kind == "nz":
            return self.yaw.RedshiftData.from_corrfuncs(self.cf["cross"], ref_corr=self.cf.get("ref"), unk_corr=self.cf.get("unk"))
        if kind == "io":
            path = self.tmpdir / "cf.hdf"
            if path.exists():
                path.unlink()
            self.cf[f].to_file(path)
            new = self.yaw.CorrFunc.from_file(path)
            old = self.cf[f]
            same = tuple(old.to_dict()) == tuple(new.to_dict()) and old == new
            if same:
                self.cf[f] = new
                for mm in MEMBER_ORDER:
                    if (f, mm) in self.nc:
                        self.nc[(f, mm)] = getattr(new, mm)
            return dict(round_trip_equal=same, written="|".join(old.to_dict()), read_back="|".join(new.to_dict()))
        raise ValueError(op)

    def stored_state(self) -> dict:
        out = {}
        for key, nc in self.nc.items():
            out[key] = (nc.counts.counts.copy(), nc.sum_weights.sum_weights1.copy(), nc.sum_weights.sum_weights2.copy())
        return out

    def reduced(self, k: int) -> "Workspace":
        """The workspace re-created from the ORIGINAL arrays with patch k removed."""
        cnt, wt = {}, {}
        for f, auto, members in self.funcs:
            for m in members:
                c, w1, w2, _ = self.arrays[(f, m)]
                cnt[(f, m)] = np.delete(np.delete(c, k, axis=1), k, axis=2)
                wt[(f, role1(auto, m))] = np.delete(w1, k, axis=1)
                wt[(f, role2(auto, m))] = np.delete(w2, k, axis=1)
        return Workspace(self.yaw, self.funcs, self.dz, cnt, wt, self.tmpdir)


# ---------------------------------------------------------------------------
# comparison of a real result with the expected one
# ---------------------------------------------------------------------------


def rat(v):
    n, d = v
    return None if d == 0 else Fraction(n, d)


def decode(kind: str, v):
    """float value of an expected rational (None = undefined in the model)."""
    r = rat(v)
    if r is None:
        return None
    if kind == "nz":  # carried as sign * n^2 in units of 1/DZ
        s = -1.0 if r < 0 else 1.0
        return s * math.sqrt(abs(r)) / float(UNIT)
    return float(r)


def close(a: float, b: float) -> bool:
    if math.isnan(a) or math.isnan(b):
        return math.isnan(a) and math.isnan(b)
    if math.isinf(a) or math.isinf(b):
        return a == b
    return abs(a - b) <= RTOL * max(1.0, abs(a), abs(b))


def rows_match(got: np.ndarray, exp: list, recomputed=None) -> bool:
    """got[k][b] vs exp[k][b]; undefined expectations fall back to the recomputation oracle."""
    for k, row in enumerate(exp):
        for b, e in enumerate(row):
            if e is None:
                if recomputed is not None and not close(float(got[k][b]), float(recomputed[k][b])):
                    return False
            elif not close(float(got[k][b]), e):
                return False
    return True


def classify_samples(got: np.ndarray, exp: list, recomputed=None) -> str | None:
    if rows_match(got, exp, recomputed):
        return None
    n = len(exp)
    rev = list(reversed(exp))
    rrev = None if recomputed is None else recomputed[::-1]
    if rows_match(got, rev, rrev):
        return "samples_reversed_patch_order"
    if n <= 5:
        for perm in itertools.permutations(range(n)):
            pe = [exp[i] for i in perm]
            pr = None if recomputed is None else recomputed[list(perm)]
            if rows_match(got, pe, pr):
                return "samples_permuted"
    return "samples_wrong"


def jackknife_cov(samples: np.ndarray) -> np.ndarray:
    n = samples.shape[0]
    d = samples - samples.mean(axis=0)
    return (n - 1) / n * (d.T @ d)


def check_covariance(res, entry: str, cls: str, exp_cov=None) -> list:
    """(N-1)/N sum (x_k - mean)(x_k - mean)^T of exactly the reported samples; symmetric; PSD; error = sqrt(diag)."""
    out = []
    samples = np.array(res.samples, dtype=np.float64)  # a copy: covariance/error must not touch the samples
    if samples.shape[0] < 2:
        return out
    if not np.all(np.isfinite(samples)):
        # an undefined sample (0/0 of a sparse bin) makes the formula undefined for that bin: the covariance of EXACTLY
        # these samples is undefined in its row and column (no pairwise-complete substitute), the rest is unaffected
        badc = ~np.all(np.isfinite(samples), axis=0)
        with np.errstate(all="ignore"), warnings.catch_warnings():
            warnings.simplefilter("ignore")
            cov = np.asarray(res.covariance)
            err = np.asarray(res.error)
        nb = samples.shape[1]
        detail = dict(product=entry, input_class=cls, samples=samples.tolist(), covariance=cov.tolist(), error=err.tolist())
        if cov.shape != (nb, nb) or err.shape != (nb,):
            return [("C03|SampledData.covariance|samples_with_undefined_entries|shape", detail)]
        if np.any(np.isfinite(cov[badc, :])) or np.any(np.isfinite(cov[:, badc])) or np.any(np.isfinite(err[badc])):
            out.append(("C03|SampledData.covariance|samples_with_undefined_entries|finite_where_the_formula_is_undefined", detail))
        good = ~badc
        if good.any():
            want = jackknife_cov(samples[:, good])
            scale = max(1.0, float(np.max(np.abs(want))))
            sub = cov[np.ix_(good, good)]
            if not np.allclose(sub, want, rtol=1e-9, atol=1e-12 * scale):
                out.append(("C03|SampledData.covariance|samples_with_undefined_entries|defined_bins_not_delete_one_jackknife_covariance",
                            dict(detail, expected_defined_block=want.tolist())))
        return out
    with np.errstate(all="ignore"), warnings.catch_warnings():
        warnings.simplefilter("ignore")
        cov = np.asarray(res.covariance)
        err = np.asarray(res.error)
    nb = samples.shape[1]
    after = np.asarray(res.samples, dtype=np.float64)
    if after.shape != samples.shape or not np.array_equal(after, samples):
        out.append(("C03|SampledData.covariance|jackknife_samples|samples_modified_by_covariance_or_error",
                    dict(product=entry, input_class=cls, samples_before=samples.tolist(), samples_after=after.tolist())))
    detail = dict(product=entry, input_class=cls, samples=samples.tolist(), covariance=cov.tolist(), error=err.tolist())
    if cov.shape != (nb, nb) or err.shape != (nb,):
        return [("C03|SampledData.covariance|jackknife_samples|shape", detail)]
    want = jackknife_cov(samples)
    scale = max(1.0, float(np.max(np.abs(want))))
    if not np.allclose(cov, want, rtol=1e-9, atol=1e-12 * scale):
        out.append(("C03|SampledData.covariance|jackknife_samples|not_delete_one_jackknife_covariance", dict(detail, expected=want.tolist())))
    if exp_cov is not None and not np.allclose(cov, exp_cov, rtol=1e-9, atol=1e-12 * scale):
        out.append(("C03|SampledData.covariance|jackknife_samples|differs_from_model", dict(detail, expected=np.asarray(exp_cov).tolist())))
    if not np.allclose(cov, cov.T, rtol=1e-12, atol=1e-15 * scale):
        out.append(("C03|SampledData.covariance|jackknife_samples|asymmetric", detail))
    elif np.all(np.isfinite(cov)):
        ev = np.linalg.eigvalsh((cov + cov.T) / 2)
        if ev.min() < -1e-9 * scale:
            out.append(("C03|SampledData.covariance|jackknife_samples|not_positive_semidefinite", dict(detail, eigenvalues=ev.tolist())))
    werr = np.sqrt(np.clip(np.diag(want), 0, None))
    if not np.allclose(err, werr, rtol=1e-9, atol=1e-9 * math.sqrt(scale)):
        out.append(("C03|SampledData.error|jackknife_samples|not_sqrt_of_covariance_diagonal", dict(detail, expected=werr.tolist())))
    return out


def check_result(kind: str, res, exp: dict, *, cls: str, hcls: str, NP: int, NB: int, recompute=None, detail=None) -> tuple[list, list]:
    """Compare the real result ``res`` of an operation of kind ``kind`` with the
    model's expectation.  Returns (findings, drifts) as lists of (key, detail)."""
    entry = ENTRY[kind]
    base = f"C03|{entry}|{cls}|{hcls}"
    detail = dict(detail or {})
    findings, drifts = [], []
    got_d = np.asarray(res.data, dtype=np.float64)
    got_s = np.asarray(res.samples, dtype=np.float64)
    detail.update(got_data=got_d.tolist(), got_samples=got_s.tolist())
    if got_d.shape != (NB,) or got_s.shape != (NP, NB):
        return [(f"{base}|shape", dict(detail, expected_shape=[NP, NB]))], drifts
    exp_d = [decode(kind, v) for v in exp["data"]]
    exp_s = [[decode(kind, v) for v in row] for row in exp["samples"]]
    detail.update(expected_data=exp_d, expected_samples=exp_s)
    undefined = any(e is None for row in exp_s for e in row)
    data_ok = all(e is None or close(float(g), e) for g, e in zip(got_d, exp_d))
    recomputed = None

    def literal():
        nonlocal recomputed
        if recomputed is None and recompute is not None:
            recomputed = np.array([recompute(k) for k in range(NP)], dtype=np.float64)
            detail.update(recomputed_without_patch_k=recomputed.tolist())
        return recomputed

    # 1. the model's exact expectation (undefined entries: the library's own statistic without patch k)
    outcome = classify_samples(got_s, exp_s, literal() if undefined else None)
    if outcome is not None or not data_ok:
        # 2. disagreement with the model: the property's literal predicate decides between a violation
        #    and a model/code difference in the STATISTIC itself (estimator, normalisation, bin rule:
        #    other properties), which is drift
        rec = literal()
        none = [[None] * NB for _ in range(NP)]
        lit = None if rec is None else classify_samples(got_s, none, rec)
        if rec is not None and lit is None:
            drifts.append((f"C03|{entry}|{cls}|statistic_differs_from_model", dict(detail)))
            outcome = None
        elif outcome is None:
            outcome = (lit or "samples_wrong") + "_vs_recomputation"
    if outcome is not None:
        findings.append((f"{base}|{outcome}", detail))
    exp_cov = None
    if outcome is None and data_ok and exp.get("cov"):
        exp_cov = np.array([[float(Fraction(n, d)) for n, d in row] for row in exp["cov"]])
    findings += check_covariance(res, entry, cls, exp_cov)
    return findings, drifts


# ---------------------------------------------------------------------------
# replay of container behaviours
# ---------------------------------------------------------------------------


def func_class(funcs, op) -> str:
    kind, f, m = op
    table = {fn: (auto, ms) for fn, auto, ms in funcs}
    if kind in ("counts", "sumw", "norm"):
        return "auto" if is_auto(table[f][0], m) else "cross"
    if kind in ("corr", "io"):
        return ("auto:" if table[f][0] else "cross:") + "+".join(table[f][1])
    if kind == "nz":
        return "+".join(fn for fn, _, _ in funcs)
    return "-"


def history_class(hist, n: int) -> str:
    return "any_call" if n == 0 else "after_" + "_".join(dict.fromkeys(h[0] for h in hist[:n]))


class Reporter:
    """Collects violations; sample mismatches of one (entry point, input class, history class) are
    classified as a GROUP (all reversed -> reversed patch order, all permutations -> permuted rows,
    otherwise wrong values), so that one defect maps to one key whatever coincidences tiny integer
    arrays produce."""

    KINDS = ("samples_reversed_patch_order", "samples_permuted", "samples_wrong")

    def __init__(self, ctx) -> None:
        self.ctx = ctx
        self.groups: dict = {}

    def violation(self, key: str, detail: dict) -> None:
        head, _, last = key.rpartition("|")
        for kind in self.KINDS:
            if last.startswith(kind):
                suffix = last[len(kind):]
                self.groups.setdefault((head, suffix), {}).setdefault(kind, []).append(detail)
                return
        self.ctx.violation(key, detail)

    def flush(self) -> None:
        for (head, suffix), kinds in self.groups.items():
            present = set(kinds)
            if present == {"samples_reversed_patch_order"}:
                outcome = "samples_reversed_patch_order"
            elif "samples_wrong" not in present:
                outcome = "samples_permuted"
            else:
                outcome = "samples_wrong"
            details = kinds.get(outcome) or next(iter(kinds.values()))
            for _ in range(sum(len(v) for v in kinds.values())):
                self.ctx.violation(f"{head}|{outcome}{suffix}", details[0])
        self.groups = {}


class ContainerReplayer:
    def __init__(self, ctx, yaw, tmpdir, rep=None) -> None:
        self.ctx = ctx
        self.rep = rep or ctx
        self.yaw = yaw
        self.tmpdir = tmpdir

    def replay(self, cfg: Cfg, beh, *, report: bool = True) -> list:
        """Execute the history of one TLC behaviour on real objects.  Returns all
        findings (also reported through ctx when ``report``)."""
        cnt, wt, _hst, hist, results = beh
        self.last_drifts = []
        cnt = cnt if isinstance(cnt, dict) else {}
        wt = wt if isinstance(wt, dict) else {}
        all_findings = []
        with np.errstate(all="ignore"), warnings.catch_warnings():
            warnings.simplefilter("ignore")
            ws = Workspace(self.yaw, cfg.funcs, cfg.dz, cnt, wt, self.tmpdir)
            reduced_cache: dict = {}

            def recompute_for(op):
                def recompute(k):
                    if k not in reduced_cache:
                        reduced_cache[k] = ws.reduced(k)
                    return np.asarray(reduced_cache[k].execute(op).data, dtype=np.float64)
                return recompute

            for n, (op, exp) in enumerate(zip(hist, results)):
                kind = op[0]
                cls = func_class(cfg.funcs, op)
                hcls = history_class(hist, n)
                detail = dict(config=cfg.label, cnt={f"{k[0]}.{k[1]}": v for k, v in cnt.items()},
                              wt={f"{k[0]}.{k[1]}": v for k, v in wt.items()}, history=[list(h) for h in hist[: n + 1]], dz=list(cfg.dz[: cfg.NB]))
                before = ws.stored_state()
                try:
                    res = ws.execute(op)
                except Exception as exc:  # a public call on valid input must not raise
                    if kind in ("corr", "nz") and any("rr" in ms and "dr" not in ms for _, _, ms in cfg.funcs):
                        # rr without dr: the property prescribes no formula - a rejection conforms
                        if report:
                            self.ctx.evaluated(1)
                            self.ctx.extra["rejections_accepted_where_no_formula_is_prescribed"] = (
                                self.ctx.extra.get("rejections_accepted_where_no_formula_is_prescribed", 0) + 1)
                        break
                    if n > 0:  # does the failure need the history?
                        try:
                            Workspace(self.yaw, cfg.funcs, cfg.dz, cnt, wt, self.tmpdir).execute(op)
                        except Exception as exc2:
                            if type(exc2) is type(exc):
                                hcls = "any_call"
                    f = [(f"C03|{ENTRY[kind]}|{cls}|{hcls}|raises_{type(exc).__name__}", dict(detail, error=repr(exc)))]
                    all_findings += f
                    if report:
                        self.rep.violation(*f[0])
                    break
                if report:
                    nontrivial = any(x != 0 for arr in cnt.values() for bins in arr for row in bins for x in row) or (
                        kind == "sumw" and any(x != 0 for arr in wt.values() for row in arr for x in row))
                    self.ctx.evaluated(1, (cfg.label, _freeze(cnt), _freeze(wt), tuple(hist[: n + 1])) if nontrivial else None)
                if kind == "io":
                    if not res["round_trip_equal"]:
                        # Read(Write(x)) # x is a defect of the persistence (property C11), not of the
                        # resampling: the object read back is a different data set, the model's
                        # expectations do not apply to it -> recorded as drift, history abandoned
                        if report:
                            self.ctx.drift(f"C03|{ENTRY[kind]}|{cls}|round_trip_differs(C11)|{res['written']}->{res['read_back']}", dict(detail, **res))
                        break
                    continue
                findings, drifts = check_result(kind, res, exp, cls=cls, hcls=hcls, NP=cfg.NP, NB=cfg.NB,
                                                recompute=recompute_for(op), detail=detail)
                if findings:
                    # does the failure need the history?  run the operation on fresh containers
                    fresh = Workspace(self.yaw, cfg.funcs, cfg.dz, cnt, wt, self.tmpdir)
                    try:
                        f2, _ = check_result(kind, fresh.execute(op), exp, cls=cls, hcls="any_call", NP=cfg.NP, NB=cfg.NB,
                                             recompute=recompute_for(op), detail=detail)
                    except Exception:
                        f2 = []
                    if n == 0 or {k for k, _ in f2} == {k.replace(f"|{hcls}|", "|any_call|") for k, _ in findings}:
                        findings = [(k.replace(f"|{hcls}|", "|any_call|"), d) for k, d in findings]
                # sampling must not change the containers (FrameUnchanged); reported with the
                # wrong samples it causes later, here only as supporting detail / drift
                after = ws.stored_state()
                changed = [f"{k[0]}.{k[1]}" for k in before if any(not np.array_equal(x, y) for x, y in zip(before[k], after[k]))]
                if changed:
                    drifts.append((f"C03|{ENTRY[kind]}|{cls}|containers_modified_by_sampling", dict(detail, modified=changed)))
                all_findings += findings
                self.last_drifts += drifts
                if report:
                    for key, det in findings:
                        self.rep.violation(key, det)
                    for key, det in drifts:
                        self.ctx.drift(key, det)
        return all_findings


def _freeze(d) -> tuple:
    return tuple(sorted((k, v) for k, v in d.items())) if isinstance(d, dict) else ()


# ---------------------------------------------------------------------------
# replay of histogram behaviours (real catalogs, fake pool following TLC's schedule)
# ---------------------------------------------------------------------------


class HistWorld:
    def __init__(self, ctx, yaw, root, seed: int, rep=None) -> None:
        self.ctx = ctx
        self.rep = rep or ctx
        self.yaw = yaw
        self.root = root
        self.rng = random.Random(seed)
        self.cache: dict = {}
        self.rcache: dict = {}
        self.n = 0

    def frame(self, hst, NB, dz):
        """A catalog whose patch p has total weight hst[p][b] in bin b (objects strictly
        inside the bins, random integer weights), plus one object per patch outside the
        binning (so that no patch is empty)."""
        import pandas as pd

        edges = [float(ZMIN)]
        for w in dz[:NB]:
            edges.append(edges[-1] + float(UNIT) * w)
        rows = []
        for p, bins in enumerate(hst):
            rows.append((20.0 + 4.0 * p, 10.0, edges[-1] + 0.5, 1.0, p))
            for b, total in enumerate(bins):
                left = total
                while left > 0:
                    w = self.rng.randint(1, left)
                    left -= w
                    z = edges[b] + (edges[b + 1] - edges[b]) * self.rng.uniform(0.2, 0.8)
                    rows.append((20.0 + 4.0 * p + self.rng.uniform(-1, 1), 10.0 + self.rng.uniform(-1, 1), z, float(w), p))
        self.rng.shuffle(rows)
        return pd.DataFrame(rows, columns=["ra", "dec", "z", "w", "pid"]), edges

    def catalog(self, hst, NB, dz):
        key = (hst, NB, tuple(dz[:NB]))
        if key not in self.cache:
            df, edges = self.frame(hst, NB, dz)
            self.n += 1
            cat = data.make_catalog(self.root / f"h{self.n}", df, patch_name="pid")
            config = self.yaw.Configuration.create(rmin=100.0, rmax=1000.0, edges=edges)
            self.cache[key] = (cat, config, df)
        return self.cache[key]

    def run(self, hst, NB, dz, W: int, arrived):
        cat, config, df = self.catalog(hst, NB, dz)
        order = [t - 1 for t in arrived]

        def fn():
            return self.yaw.HistData.from_catalog(cat, config, max_workers=W)

        _, outcome = detrt.run_main(fn, order_source=lambda w, nt: list(order))
        return outcome

    def recompute(self, hst, NB, dz, k: int):
        """HistData.from_catalog on the catalog re-created without patch k."""
        key = (hst, NB, tuple(dz[:NB]), k)
        if key not in self.rcache:
            self.rcache[key] = self._recompute(hst, NB, dz, k)
        return self.rcache[key]

    def _recompute(self, hst, NB, dz, k: int):
        _, config, df = self.catalog(hst, NB, dz)
        red = df[df["pid"] != k].copy()
        red.loc[red["pid"] > k, "pid"] -= 1
        self.n += 1
        cat = data.make_catalog(self.root / f"r{self.n}", red.reset_index(drop=True), patch_name="pid")
        return np.asarray(self.yaw.HistData.from_catalog(cat, config, max_workers=1).data, dtype=np.float64)

    def replay(self, cfg: Cfg, beh, *, report: bool = True) -> list:
        _c, _w, hst, hist, results = beh
        all_findings = []
        self.last_drifts = []
        for op, exp in zip(hist, results):
            W, arrived = exp["sched"]
            arrived = tuple(arrived)
            cls = "sequential" if (W == 1 or list(arrived) == sorted(arrived)) else "reordered_arrival"
            detail = dict(config=cfg.label, hst=hst, W=W, completion_order=list(arrived), dz=list(cfg.dz[: cfg.NB]))
            outcome = self.run(hst, cfg.NB, cfg.dz, W, arrived)
            if report:
                self.ctx.evaluated(1, (cfg.label, hst, W, arrived) if any(x for row in hst for x in row) else None)
                self.ctx.validated(1)
            if outcome[0] != "ok":
                name = type(outcome[1]).__name__ if outcome[0] == "raised" else "deadlock"
                f = [(f"C03|{ENTRY['hist']}|{cls}|any_call|raises_{name}", dict(detail, error=repr(outcome[1])))]
                findings, drifts = f, []
            else:
                findings, drifts = check_result("hist", outcome[1], exp, cls=cls, hcls="any_call", NP=cfg.NP, NB=cfg.NB,
                                                recompute=lambda k: self.recompute(hst, cfg.NB, cfg.dz, k), detail=detail)
            all_findings += findings
            self.last_drifts += drifts
            if report:
                for key, det in findings:
                    self.rep.violation(key, det)
                for key, det in drifts:
                    self.ctx.drift(key, det)
        return all_findings


# ---------------------------------------------------------------------------
# end-to-end: real catalogs, patch k physically removed, TLC trace validation
# ---------------------------------------------------------------------------


class EndToEnd:
    """crosscorrelate / autocorrelate / HistData on real catalogs with integer weights;
    every product is compared with the same product measured on catalogs re-created
    without the records of patch k; the measured integer arrays go to JackknifeTrace."""

    def __init__(self, ctx, yaw, root, seed: int, rep=None) -> None:
        self.ctx = ctx
        self.rep = rep or ctx
        self.yaw = yaw
        self.root = root
        self.seed = seed
        self.n = 0

    def frames(self, NP: int, n: int, seed: int) -> dict:
        kw = dict(sep_deg=3.0, spread_deg=1.6, int_weights=True)
        return dict(
            ref=data.frame(seed, n, NP, **kw), unk=data.frame(seed + 1, n, NP, **kw),
            rref=data.frame(seed + 2, 2 * n, NP, **kw), runk=data.frame(seed + 3, 2 * n, NP, **kw),
        )

    def measure(self, frames: dict, config, variant: dict) -> dict:
        self.n += 1
        d = self.root / f"e{self.n}"
        cats = {k: data.make_catalog(d / k, df, patch_name="pid", redshifts=(k in ("ref", "rref"))) for k, df in frames.items()}
        out = {}
        (out["cross"],) = self.yaw.crosscorrelate(
            config, cats["ref"], cats["unk"], ref_rand=cats["rref"] if variant["ref_rand"] else None,
            unk_rand=cats["runk"] if variant["unk_rand"] else None, max_workers=1)
        if variant["auto"]:
            (out["ref"],) = self.yaw.autocorrelate(config, cats["ref"], cats["rref"], count_rr=variant["count_rr"], max_workers=1)
        out["hist"] = self.yaw.HistData.from_catalog(cats["ref"], config, max_workers=1)
        # the measured arrays as delivered, before anything is sampled
        out["_arrays"] = {
            (f, m): (nc.counts.counts.copy(), nc.sum_weights.sum_weights1.copy(), nc.sum_weights.sum_weights2.copy(), bool(nc.auto), nc.binning)
            for f in ("cross", "ref") if f in out for m, nc in out[f].to_dict().items()
        }
        return out

    def totals(self, arrays) -> tuple:
        """Totals of measured arrays through FRESH containers (independent of the state of the measured objects)."""
        from yaw.correlation.paircounts import PatchedCounts, PatchedSumWeights

        c, w1, w2, auto, binning = arrays
        return (PatchedCounts(binning, c, auto=auto).sample_patch_sum().data,
                PatchedSumWeights(binning, w1, w2, auto=auto).sample_patch_sum().data)

    @staticmethod
    def drop_patch(frames: dict, k: int) -> dict:
        out = {}
        for name, df in frames.items():
            red = df[df["pid"] != k].copy()
            red.loc[red["pid"] > k, "pid"] -= 1
            out[name] = red.reset_index(drop=True)
        return out

    def scenario(self, NP: int, nobj: int, edges, variant: dict, seed: int) -> dict | None:
        ctx, yaw = self.ctx, self.yaw
        config = yaw.Configuration.create(rmin=500.0, rmax=5000.0, edges=edges)
        frames = self.frames(NP, nobj, seed)
        vname = "+".join(k for k, v in variant.items() if v) or "none"
        detail = dict(num_patches=NP, objects=nobj, edges=list(edges), variant=vname, seed=seed)
        from yaw.catalog.catalog import InconsistentPatchesError

        with np.errstate(all="ignore"), warnings.catch_warnings():
            warnings.simplefilter("ignore")
            try:
                full = self.measure(frames, config, variant)
            except InconsistentPatchesError:
                # the random scenario is not a valid input (patch centres of the sparse catalogs too far apart)
                return None
            entry_of = dict(cross="CorrFunc.sample", ref="CorrFunc.sample", nz="RedshiftData.from_corrfuncs", hist="HistData.from_catalog")
            makers = dict(
                cross=lambda o: o["cross"].sample(),
                ref=lambda o: o["ref"].sample(),
                nz=lambda o: yaw.RedshiftData.from_corrfuncs(o["cross"], ref_corr=o.get("ref")),
                hist=lambda o: o["hist"],
            )
            if "ref" not in full:
                del makers["ref"]
            products = {}
            for name, make in makers.items():
                try:
                    products[name] = make(full)
                except Exception as exc:  # a public call on a valid measurement must not raise
                    self.rep.violation(f"C03|{entry_of[name]}|measured_pair_counts|end_to_end|raises_{type(exc).__name__}", dict(detail, error=repr(exc)))
            red_objs = []
            recomputed = {name: [] for name in products}
            for k in range(NP):
                red = self.measure(self.drop_patch(frames, k), config, variant)
                red_objs.append(red)
                for name in list(products):
                    try:
                        recomputed[name].append(np.asarray(makers[name](red).data))
                    except Exception as exc:
                        self.rep.violation(f"C03|{entry_of[name]}|measured_pair_counts|end_to_end|raises_{type(exc).__name__}", dict(detail, error=repr(exc)))
                        del products[name]
        cls_of = dict(cross="cross:" + "+".join(full["cross"].to_dict()), ref="auto:" + "+".join(full["ref"].to_dict()) if "ref" in full else "",
                      nz="cross+ref" if "ref" in full else "cross", hist="sequential")
        NB = len(edges) - 1
        for name, prod in products.items():
            got = np.asarray(prod.samples, dtype=np.float64)
            rec = np.array(recomputed[name], dtype=np.float64)
            ctx.evaluated(1, ("e2e", name, vname, NP, seed))
            det = dict(detail, product=name, samples=got.tolist(), recomputed_without_patch_k=rec.tolist())
            base = f"C03|{entry_of[name]}|{cls_of[name]}|end_to_end"
            if got.shape != (NP, NB):
                self.rep.violation(f"{base}|shape", det)
                continue
            none = [[None] * NB for _ in range(NP)]
            outcome = classify_samples(got, none, rec)
            if outcome is not None:
                self.rep.violation(f"{base}|{outcome}_vs_patch_physically_removed", det)
            for key, d2 in check_covariance(prod, entry_of[name], cls_of[name]):
                ctx.violation(key, dict(d2, **detail))
        # joint covariance of several products (cov_from_samples with a sequence of sample sets)
        if "ref" in products and "cross" in products:
            from yaw.correlation.corrdata import cov_from_samples

            sets = [np.asarray(products["cross"].samples), np.asarray(products["ref"].samples)]
            if all(np.all(np.isfinite(x)) for x in sets):
                joint = np.asarray(cov_from_samples(sets))
                want = jackknife_cov(np.concatenate(sets, axis=1))
                ctx.evaluated(1)
                if joint.shape != want.shape or not np.allclose(joint, want, rtol=1e-9, atol=1e-12 * max(1.0, float(np.abs(want).max()))):
                    ctx.violation("C03|cov_from_samples|joint_of_two_products|not_delete_one_jackknife_covariance",
                                  dict(detail, covariance=joint.tolist(), expected=want.tolist()))
        # ---- record for TLC (JackknifeTrace) ---------------------------------
        funcs = [("cross", False, tuple(full["cross"].to_dict()))]
        if "ref" in full:
            funcs.append(("ref", True, tuple(full["ref"].to_dict())))
        rec = dict(cnt={}, wt={}, sps={}, red={}, full={})
        ok = True
        for f, auto, members in funcs:
            rec["cnt"][f], rec["wt"][f], rec["sps"][f], rec["red"][f], rec["full"][f] = {}, {}, {}, {}, {}
            for m in members:
                nc = getattr(full[f], m)
                snap = full["_arrays"][(f, m)]
                c2, okc = _ints(2 * snap[0])
                w1, ok1 = _ints(snap[1])
                w2, ok2 = _ints(snap[2])
                rec["cnt"][f][m] = c2
                rec["wt"][f][role1(auto, m)] = w1
                rec["wt"][f][role2(auto, m)] = w2
                sc, sw = nc.counts.sample_patch_sum(), nc.sum_weights.sample_patch_sum()
                d1, o1 = _ints(2 * sc.data)
                s1, o2 = _ints(2 * sc.samples)
                d2, o3 = _ints(2 * sw.data)
                s2, o4 = _ints(2 * sw.samples)
                rec["sps"][f][m] = dict(counts=dict(data=d1, samples=s1), sumw=dict(data=d2, samples=s2))
                tc, tn = self.totals(snap)
                fc, o7 = _ints(2 * tc)
                fn, o8 = _ints(2 * tn)
                ok = ok and o7 and o8
                rec["full"][f][m] = dict(cnt=fc, norm=fn)
                rc, rn = [], []
                for k in range(NP):
                    rtc, rtn = self.totals(red_objs[k]["_arrays"][(f, m)])
                    a, o5 = _ints(2 * rtc)
                    b, o6 = _ints(2 * rtn)
                    ok = ok and o5 and o6
                    rc.append(a)
                    rn.append(b)
                rec["red"][f][m] = dict(cnt=rc, norm=rn)
                ok = ok and okc and ok1 and ok2 and o1 and o2 and o3 and o4 and nc.auto == is_auto(auto, m)
        if not ok:
            return None
        return dict(funcs=tuple(funcs), NP=NP, NB=NB, record=rec, detail=detail)


def _ints(a) -> tuple:
    a = np.asarray(a, dtype=np.float64)
    r = np.rint(a)
    return r.astype(np.int64).tolist(), bool(np.all(r == a) and np.all(np.abs(r) < 2**30))


def validate_traces(ctx, traces: list, label: str) -> list:
    """All traces share (funcs, NP, NB).  Returns the list of verdict tuples
    (impl, prop, spec) per trace, in order."""
    t0 = traces[0]
    cfg = Cfg("trace", "trace", t0["NP"], t0["NB"], funcs=t0["funcs"], maxops=32, dz=(1,) * t0["NB"])
    mod = wrapper_module(cfg, "JackknifeTrace_MC", "JackknifeTrace")
    text = tlc.make_cfg(spec="TSpec", constants=constants(cfg, "{}", 0), invariants=["Verdict"], deadlock=False)
    with scratch("c03t_") as tdir:
        tf = tdir / "traces.ndjson"
        tf.write_text("".join(json.dumps(t["record"]) + "\n" for t in traces))
        res = tlc.run("JackknifeTrace_MC", text, extra_modules={"JackknifeTrace_MC": mod}, env={"TRACE_FILE": str(tf)}, workers=2)
    ctx.add_tlc(label, res)
    ctx.require(res.ok, f"JackknifeTrace failed: {res.error_kind} {res.error_name}")
    verdicts = {v[0]: tuple(v[1:]) for v in res.printed("verdict")}
    ctx.require(len(verdicts) == len(traces), f"JackknifeTrace: {len(verdicts)} verdicts for {len(traces)} traces")
    return [verdicts[i + 1] for i in range(len(traces))]


# ---------------------------------------------------------------------------
# counterexample replay
# ---------------------------------------------------------------------------


def state_to_beh(state: dict):
    """(cnt, wt, hst, hist, results) from the JSON state of a TLC counterexample."""

    def conv(x):
        if isinstance(x, list):
            return tuple(conv(v) for v in x)
        if isinstance(x, dict):
            return {(tuple(tlaval.parse_value(k)) if k.startswith("<<") else k): conv(v) for k, v in x.items()}
        return x

    o = state["orig"]
    cnt = conv(o["cnt"]) if isinstance(o["cnt"], dict) else {}
    wt = conv(o["wt"]) if isinstance(o["wt"], dict) else {}
    hst = conv(o["hst"])
    hist = tuple(tuple(h) for h in state["hist"])
    results = [conv(r) for r in state["results"]]
    return cnt, wt, hst, hist, results


def py_expected(cfg: Cfg, cnt, wt, hst, op) -> dict:
    """The from-scratch statistic (the *Of operators of the spec) in Python - only used to
    judge the replay of a deviation counterexample, where TLC's state holds the deviant values."""
    NP, NB = cfg.NP, cfg.NB
    table = {f: (a, ms) for f, a, ms in cfg.funcs}

    def q(n, d):
        return None if d == 0 else Fraction(n, d)

    def cnt_of(f, m, b, K):
        return sum(cnt[(f, m)][b][i][j] for i in K for j in K)

    def norm2(f, m, b, K):
        auto = table[f][0]
        s1 = sum(wt[(f, role1(auto, m))][b][i] for i in K)
        s2 = sum(wt[(f, role2(auto, m))][b][i] for i in K)
        return s1 * s1 if is_auto(auto, m) else 2 * s1 * s2

    def normed(f, m, b, K):
        return q(2 * cnt_of(f, m, b, K), norm2(f, m, b, K))

    def div(a, b):
        return None if a is None or b is None or b == 0 else a / b

    def sub(a, b):
        return None if a is None or b is None else a - b

    def add(a, b):
        return None if a is None or b is None else a + b

    def est(f, b, K):
        ms = table[f][1]
        v = {m: normed(f, m, b, K) for m in ms}
        if "rr" in ms:
            rd = v["rd"] if "rd" in ms else v["dr"]
            return div(add(sub(v["dd"], v["dr"]), sub(v["rr"], rd)), v["rr"])
        mixed = v["rd"] if "rd" in ms else v["dr"]
        return div(sub(v["dd"], mixed), mixed)

    def nz(b, K):
        sp = est("cross", b, K)
        ss = est("ref", b, K) if "ref" in table else Fraction(1)
        pp = est("unk", b, K) if "unk" in table else Fraction(1)
        if sp is None or ss is None or pp is None:
            return None
        den = cfg.dz[b] ** 2 * ss * pp
        if den <= 0:
            return None
        sq = sp * sp / den
        return -sq if sp < 0 else sq

    def stat(b, K):
        kind, f, m = op
        if kind == "counts":
            return Fraction(cnt_of(f, m, b, K))
        if kind == "sumw":
            return Fraction(norm2(f, m, b, K), 2)
        if kind == "norm":
            return normed(f, m, b, K)
        if kind == "corr":
            return est(f, b, K)
        if kind == "nz":
            return nz(b, K)
        if kind == "hist":
            return Fraction(sum(hst[p][b] for p in K))
        raise ValueError(op)

    def enc(v):
        return (0, 0) if v is None else (v.numerator, v.denominator)

    allp = list(range(NP))
    return dict(
        data=tuple(enc(stat(b, allp)) for b in range(NB)),
        samples=tuple(tuple(enc(stat(b, [p for p in allp if p != k])) for b in range(NB)) for k in range(NP)),
        cov=None, sched=None,
    )


# ---------------------------------------------------------------------------
# the check
# ---------------------------------------------------------------------------


def replay_case(ctx, yaw, path: str) -> None:
    """./check C03 --replay <file>: re-execute the recorded failing case on the current tree."""
    doc = json.loads(open(path).read())
    det = doc["detail"]
    with scratch("c03r_") as root:
        if "hst" in det:
            hst = tuple(tuple(r) for r in det["hst"])
            cfg = Cfg("replay", "hist", len(hst), len(hst[0]), dz=tuple(det["dz"]) + (1, 1, 1))
            op = ("hist", "-", "-")
            exp = py_expected(cfg, {}, {}, hst, op)
            exp["sched"] = (det["W"], tuple(det["completion_order"]))
            HistWorld(ctx, yaw, root / "hist", doc.get("seed", 0)).replay(cfg, ({}, {}, hst, (op,), [exp]))
        elif "cnt" in det:
            def arr(x):
                return tuple(arr(v) for v in x) if isinstance(x, list) else x
            cnt = {tuple(k.split(".")): arr(v) for k, v in det["cnt"].items()}
            wt = {tuple(k.split(".")): arr(v) for k, v in det["wt"].items()}
            hist = tuple(tuple(h) for h in det["history"])
            names = list(dict.fromkeys(f for f, _ in cnt))
            funcs = tuple((f, any(k == (f, "d") for k in wt), tuple(m for m in MEMBER_ORDER if (f, m) in cnt)) for f in names)
            any_c = next(iter(cnt.values()))
            cfg = Cfg("replay", hist[-1][0], len(any_c[0]), len(any_c), funcs=funcs, dz=tuple(det["dz"]) + (1, 1, 1))
            exps = [py_expected(cfg, cnt, wt, (), op) if op[0] != "io" else dict(data=(), samples=(), cov=None, sched=None) for op in hist]
            ContainerReplayer(ctx, yaw, root).replay(cfg, (cnt, wt, (), hist, exps))
        elif "variant" in det:
            names = set(det["variant"].split("+"))
            variant = {k: (k in names) for k in ("ref_rand", "unk_rand", "auto", "count_rr")}
            EndToEnd(ctx, yaw, root / "e2e", doc.get("seed", 0)).scenario(det["num_patches"], det["objects"], tuple(det["edges"]), variant, det["seed"])
        else:
            ctx.require(False, f"unknown replay file layout: {path}")
    ctx.extra["replayed"] = path


def run(ctx) -> None:
    quick = ctx.quick
    yaw = data.import_yaw()
    if ctx.replay:
        replay_case(ctx, yaw, ctx.replay)
        return
    rng = random.Random(ctx.seed)
    ctx.rule = (
        "every terminal state of the TLC runs (data set x operation history [x pool schedule]) is replayed on real "
        "containers / catalogs and every operation's result compared with the model; non-trivial = data not all zero; "
        "distinct = (config, data, history prefix [, schedule])"
    )
    ctx.assume("the estimator formulas (Landy-Szalay / Davis-Peebles), the n(z) formula and the bin membership rule are "
               "those of the model (properties C04/C10); where the real statistic differs from the model's only the literal "
               "predicate 'sample k = the library's own statistic on the data without patch k' is applied (recorded as drift)")
    ctx.assume("float comparisons (relative 1e-9) are done in the driver; the model supplies exact rationals; PSD-ness of the "
               "covariance is a numeric side-condition (eigvalsh) on the real matrix, Cauchy-Schwarz is model-checked")

    import time

    t_phase = time.time()
    timing = ctx.extra.setdefault("wall_s_per_phase", {})

    def phase(name):
        nonlocal t_phase
        timing[name] = round(time.time() - t_phase, 1)
        t_phase = time.time()

    # ---- A. model checking: ideal design --------------------------------
    cfgs = ideal_configs(quick)
    results = run_many(cfgs, lambda c: run_tlc(c, seed=ctx.seed))
    covered: dict = {}
    for cfg, res in zip(cfgs, results):
        ctx.add_tlc(f"ideal: {cfg.label}", res)
        ctx.require(res.ok, f"Jackknife ideal design violated in TLC ({cfg.label}): {res.error_kind} {res.error_name}")
        for act, (_, total) in res.coverage.items():
            covered[act] = covered.get(act, 0) + total
    for act in ("StartOp", "GetArray", "SumPatches", "RowSum", "ColSum", "Diag", "Combine", "Ratio", "Estimate", "Redshift",
                "WriteRead", "HistStart", "SomeHDispatch", "SomeHComplete", "HistSum", "HistResample", "FinishOp"):
        ctx.require(covered.get(act, 0) > 0, f"Jackknife action {act} never taken in any ideal configuration (vacuous)")

    # ---- B. deviations: each must yield a counterexample ----------------
    devs = deviation_configs()
    names = list(devs)
    dres = run_many(names, lambda d: run_tlc(devs[d], dev='{"%s"}' % d, seed=ctx.seed, invs=["JackknifeIsLeaveOneOut"], workers=2), threads=9)
    cex = {}
    for name, res in zip(names, dres):
        ctx.add_tlc(f"deviation {name}", res)
        ctx.require(not res.ok and res.error_name == "JackknifeIsLeaveOneOut" and res.trace,
                    f"deviation {name} no longer yields a counterexample (stale model)")
        cex[name] = res.trace[-1]["state"]

    phase("tlc_ideal_and_deviations")
    with scratch("c03_") as root:
        rep = Reporter(ctx)
        creplay = ContainerReplayer(ctx, yaw, root, rep)
        hworld = HistWorld(ctx, yaw, root / "hist", ctx.seed, rep)

        # ---- C. spec -> code: replay every terminal state ----------------
        first_beh = {}
        undefined_cases = 0
        parsed = {}
        for cfg, res in zip(cfgs, results):
            behs = parsed[cfg.label] = res.printed("beh")
            ctx.require(len(behs) > 0, f"no behaviour printed by TLC for {cfg.label}")
            first_beh.setdefault(cfg.level, (cfg, behs[len(behs) // 2]))
            if cfg.level == "hist":
                if quick and len(behs) > 400:
                    behs = rng.sample(behs, 400)
                for beh in behs:
                    hworld.replay(cfg, beh)
            else:
                for beh in behs:
                    creplay.replay(cfg, beh)
                    ctx.validated(1)
                    undefined_cases += any(v[1] == 0 for r in beh[4] if r["data"] for row in r["samples"] for v in row)
            b = behs[len(behs) // 3]
            ctx.sample(dict(config=cfg.label, cnt={f"{k[0]}.{k[1]}": v for k, v in b[0].items()} if isinstance(b[0], dict) else None,
                            wt={f"{k[0]}.{k[1]}": v for k, v in b[1].items()} if isinstance(b[1], dict) else None,
                            hst=b[2] or None, history=[list(h) for h in b[3]],
                            expected_last=dict(data=b[4][-1]["data"], samples=b[4][-1]["samples"], sched=b[4][-1]["sched"])), limit=8)
        ctx.extra["behaviours_with_undefined_expected_values"] = undefined_cases
        ctx.require(undefined_cases > 0, "no behaviour with an undefined (zero-denominator) statistic explored")

        phase("replay_of_tlc_behaviours")
        # ---- D. replay of the deviation counterexamples ------------------
        dev_report = {}
        for name in names:
            dcfg = devs[name]
            cnt, wt, hst, hist, res_dev = state_to_beh(cex[name])
            n = len(res_dev) - 1  # the violating result is the last one
            exp = []
            for i, op in enumerate(hist[: n + 1]):
                e = py_expected(dcfg, cnt, wt, hst, op) if op[0] != "io" else dict(data=(), samples=(), cov=None, sched=None)
                e["sched"] = res_dev[i]["sched"]
                exp.append(e)
            beh = (cnt, wt, hst, hist[: n + 1], exp)
            if dcfg.level == "hist":
                found = hworld.replay(dcfg, beh)
            else:
                found = creplay.replay(dcfg, beh)
            ctx.validated(1)
            kind = hist[n][0]
            dev_s = [[decode(kind, v) for v in row] for row in res_dev[n]["samples"]]
            as_model = any("got_samples" in det and rows_match(np.array(det["got_samples"]), dev_s) for _, det in found)
            dev_report[name] = dict(tlc_counterexample=dict(hist=[list(h) for h in hist], hst=hst or None,
                                                            cnt={f"{k[0]}.{k[1]}": v for k, v in cnt.items()} or None),
                                    real_code_violates_property_on_counterexample=bool(found),
                                    real_code_behaves_like_deviant_model=as_model, keys=sorted({k for k, _ in found}))
        ctx.extra["deviation_replays"] = dev_report

        # ---- E. binding demonstrations: a corrupted case must be rejected ---
        # (on a behaviour for which the real code conforms; if the library is defective on every
        # candidate nothing can be demonstrated at that level - recorded, not a machinery error)
        demos = {}
        for level in ("counts", "corr", "nz", "hist"):
            cfg, _ = first_beh[level]
            replayer = hworld if level == "hist" else creplay
            tried = 0
            demos[level] = dict(demonstrable=False)
            for cand in parsed[cfg.label]:
                last = dict(cand[4][-1])
                if not last["data"]:
                    continue
                col = [row[0] for row in last["samples"]]
                if not all(v[1] != 0 for v in col) or len(set(col)) < 2:
                    continue
                tried += 1
                if tried > 40:
                    break
                if replayer.replay(cfg, cand, report=False) or replayer.last_drifts:
                    continue  # the real code is wrong / differs from the model here (reported anyway)
                # corruption 1: swap the rows of two patches in the expectation; 2: change one number
                rows = list(last["samples"])
                i, j = [(x, y) for x in range(len(rows)) for y in range(len(rows)) if rows[x][0] != rows[y][0]][0]
                rows[i], rows[j] = rows[j], rows[i]
                bad1 = (cand[0], cand[1], cand[2], cand[3], list(cand[4][:-1]) + [dict(last, samples=tuple(rows))])
                rows2 = [list(r) for r in last["samples"]]
                nn, dd = rows2[0][0]
                rows2[0][0] = (nn + dd, dd)
                bad2 = (cand[0], cand[1], cand[2], cand[3], list(cand[4][:-1]) + [dict(last, samples=tuple(tuple(r) for r in rows2), cov=())])
                # a corrupted expectation must not pass silently: the real (conforming) samples then disagree
                # with the model and are reported (as drift, because the literal predicate still holds)
                r1 = bool(replayer.replay(cfg, bad1, report=False)) or bool(replayer.last_drifts)
                r2 = bool(replayer.replay(cfg, bad2, report=False)) or bool(replayer.last_drifts)
                demos[level] = dict(demonstrable=True, swapped_rows_rejected=r1, changed_number_rejected=r2)
                ctx.require(r1 and r2, f"binding demonstration failed at level {level}: a corrupted expectation was accepted")
                break
        ctx.extra["binding_demonstrations"] = demos

        phase("deviation_replays_and_binding_demonstrations")
        # ---- F. end-to-end + trace validation ------------------------------
        e2e = EndToEnd(ctx, yaw, root / "e2e", ctx.seed, rep)
        variants = [
            dict(ref_rand=True, unk_rand=True, auto=True, count_rr=True),
            dict(ref_rand=False, unk_rand=True, auto=True, count_rr=False),
            dict(ref_rand=True, unk_rand=False, auto=False, count_rr=False),
        ]
        plan = [(4, 60, (0.1, 0.25, 0.55, 1.0), variants[0]), (3, 45, (0.1, 0.4, 1.0), variants[1]), (5, 70, (0.1, 0.5, 0.7, 1.0), variants[2])]
        if not quick:
            for r in range(9):
                NP = rng.choice([2, 3, 4, 5, 6])
                plan.append((NP, NP * rng.choice([15, 25, 40]), rng.choice([(0.1, 0.25, 0.55, 1.0), (0.1, 0.3, 1.0), (0.1, 0.2, 0.4, 0.7, 1.0)]),
                             variants[r % 3]))
        traces = []
        for i, (NP, nobj, edges, variant) in enumerate(plan):
            # a random scenario may be no valid input (patch centres of sparse catalogs too far apart): draw another one
            for attempt in range(6):
                t = e2e.scenario(NP, nobj, edges, variant, ctx.seed + 1000 + 10 * i + 1000 * attempt)
                if t is not None:
                    traces.append(t)
                    break
        ctx.require(len(traces) >= max(3, len(plan) - 3), "too few valid end-to-end scenarios with integer arrays for the trace validation")
        groups: dict = {}
        for t in traces:
            groups.setdefault((t["funcs"], t["NP"], t["NB"]), []).append(t)
        nval = 0
        for gi, (gkey, ts) in enumerate(groups.items()):
            # binding demonstration: a corrupted copy of the first trace must be rejected (Impl and Prop)
            bad = json.loads(json.dumps(ts[0]["record"]))
            f0 = ts[0]["funcs"][0][0]
            m0 = ts[0]["funcs"][0][2][0]
            bad["sps"][f0][m0]["counts"]["samples"][0][0] += 2
            bad["red"][f0][m0]["cnt"][1][0] += 2
            verdicts = validate_traces(ctx, ts + [dict(ts[0], record=bad)], f"JackknifeTrace {gkey[1]} patches x {gkey[2]} bins, {len(ts)} measured")
            ctx.require(verdicts[-1][0] is False and verdicts[-1][1] is False, "binding demonstration failed: corrupted trace accepted by JackknifeTrace")
            for t, (impl, prop, spec, full) in zip(ts, verdicts[:-1]):
                ctx.validated(1)
                nval += 1
                ctx.require(spec is True, "JackknifeIsLeaveOneOut false on measured data (model inconsistent)")
                if full is not True:
                    # the totals (sum of the cells / normalisation) are not the model's: another property's business
                    ctx.drift("C03|sample_patch_sum|measured_pair_counts|end_to_end|totals_differ_from_model", t["detail"])
                    continue
                if impl is not True:
                    ctx.violation("C03|sample_patch_sum|measured_pair_counts|end_to_end|samples_differ_from_model_program", t["detail"])
                if prop is not True:
                    ctx.violation("C03|pair_counts|measured_pair_counts|end_to_end|leave_one_out_sum_differs_from_patch_physically_removed", t["detail"])
        ctx.extra["end_to_end"] = dict(scenarios=len(plan), traces_validated_by_tlc=nval, corrupted_traces_rejected=len(groups))
        rep.flush()
        phase("end_to_end_and_trace_validation")
        wide_catalog(ctx, yaw, root)
        conditioning(ctx, yaw, root)
        ctx.exhaustive = False


def exact_jackknife_cov(samples: np.ndarray) -> np.ndarray:
    """(N-1)/N sum_k (x_k - mean)(x_k - mean)^T of the float samples in exact rational arithmetic."""
    from fractions import Fraction

    n, nb = samples.shape
    rows = [[Fraction(float(v)) for v in r] for r in samples]
    mean = [sum(r[j] for r in rows) / n for j in range(nb)]
    out = np.zeros((nb, nb))
    for a in range(nb):
        for b in range(a, nb):
            v = Fraction(n - 1, n) * sum((r[a] - mean[a]) * (r[b] - mean[b]) for r in rows)
            out[a, b] = out[b, a] = float(v)
    return out


def conditioning(ctx, yaw, root) -> None:
    """Covariance and error of samples whose scatter is tiny relative to their value (tightly
    clustered jackknife samples: gridded mocks, large almost uniform patch sums).  Oracle: the
    delete-one jackknife formula evaluated exactly (rationals) on the reported float samples;
    tolerance = the rounding of the samples themselves (a few ulp of the largest value), which
    a mean-subtracting implementation meets and a sum-of-squares one does not."""
    import pandas as pd

    rng = np.random.default_rng(ctx.seed + 5)
    binning = yaw.Binning(np.array([0.1, 0.4, 0.7, 1.0]))
    cases = {}
    for n in (2, 5, 40):
        cases[f"offset_1e4_scatter_1e-6_n{n}"] = 1e4 + 1e-6 * rng.standard_normal((n, 3))
        cases[f"offset_1e7_scatter_10_n{n}"] = 1e7 + np.round(10 * rng.standard_normal((n, 3)))
        cases[f"identical_rows_n{n}"] = np.tile(np.array([[0.1, 1234.5678, 3e-7]]), (n, 1))
        cases[f"one_column_constant_n{n}"] = np.column_stack([np.full(n, 7.3), rng.standard_normal(n), 1e3 + 1e-3 * rng.standard_normal(n)])
    nan_case = 1.0 + 0.1 * rng.standard_normal((6, 3))
    nan_case[2, 1] = np.nan          # one jackknife sample of the middle bin undefined
    cases["one_sample_undefined_n6"] = nan_case
    products = []
    for name, smp in cases.items():
        for kind in ("CorrData", "RedshiftData"):
            obj = getattr(yaw, kind)(binning, np.nanmean(smp, axis=0), smp)
            products.append((kind, name, obj, smp))
    # a gridded catalog: every patch holds the same weight per bin, so the histogram samples are all equal
    NP = 6
    pid = np.repeat(np.arange(NP), 6)
    df = pd.DataFrame(dict(ra=10.0 + 2.0 * pid + np.tile(np.arange(6) * 0.1, NP), dec=np.tile(np.arange(6) * 0.05, NP),
                           w=np.tile([0.1, 0.2, 0.3, 0.1, 0.2, 0.3], NP), z=np.tile([0.2, 0.2, 0.5, 0.5, 0.8, 0.8], NP), pid=pid))
    cat = yaw.Catalog.from_dataframe(root / "grid", df, ra_name="ra", dec_name="dec", weight_name="w", redshift_name="z", patch_name="pid",
                                     overwrite=True, max_workers=1)
    cfg = yaw.Configuration.create(rmin=0.1, rmax=1.0, unit="deg", edges=[0.1, 0.4, 0.7, 1.0])
    hist = yaw.HistData.from_catalog(cat, cfg, max_workers=1)
    products.append(("HistData", "gridded_catalog_equal_patches", hist, np.asarray(hist.samples, dtype=np.float64)))
    products.append(("HistData", "gridded_catalog_equal_patches_normalised", hist.normalised(), None))
    # a catalog with a huge dynamic range of weights: one object outweighs everything else by 1e18 - the sample that
    # leaves its patch out must be the plain sum over the OTHER patches (not 'total minus patch')
    NPH = 5
    rngh = np.random.default_rng(ctx.seed + 9)
    pidh = np.repeat(np.arange(NPH), 8)
    wh = rngh.uniform(0.5, 20.0, len(pidh))
    zh = rngh.uniform(0.1, 1.0, len(pidh))
    wh[17], zh[17] = 1e18, 0.5          # patch 2, middle bin
    dfh = pd.DataFrame(dict(ra=10.0 + 2.0 * pidh + rngh.uniform(0, 0.5, len(pidh)), dec=rngh.uniform(-0.2, 0.2, len(pidh)), w=wh, z=zh, pid=pidh))
    cath = yaw.Catalog.from_dataframe(root / "heavy", dfh, ra_name="ra", dec_name="dec", weight_name="w", redshift_name="z", patch_name="pid",
                                      overwrite=True, max_workers=1)
    histh = yaw.HistData.from_catalog(cath, cfg, max_workers=1)
    edges_h = np.asarray(cfg.binning.edges)
    idx_h = np.digitize(zh, edges_h, right=True)
    ctx.evaluated(1, ("conditioning", "HistData", "one_object_of_weight_1e18"))
    ctx.validated(1)
    for k in range(NPH):
        for b in range(1, len(edges_h)):
            want = math.fsum(w_ for w_, p_, i_ in zip(wh, pidh, idx_h) if p_ != k and i_ == b)
            got = float(histh.samples[k, b - 1])
            if not (abs(got - want) <= 1e-9 * abs(want) + 1e-12):
                ctx.violation("C03|HistData.from_catalog|weights_of_huge_dynamic_range|sample_is_not_the_sum_over_the_other_patches",
                              dict(sample=k, bin=b - 1, got=got, expected=want, heavy_object=dict(patch=2, weight=1e18)))
                break
        else:
            continue
        break
    # read-only use of a product (normalising it, asking for covariance / error / correlation, selecting bins, writing it
    # out) must leave its jackknife samples what they were: sample k = the statistic without patch k
    for label, obj in (("HistData.from_catalog", histh), ("HistData.from_catalog", hist)):
        d0, s0 = np.array(obj.data, dtype=np.float64), np.array(obj.samples, dtype=np.float64)
        uses = dict(normalised=lambda o: o.normalised(), covariance=lambda o: o.covariance, error=lambda o: o.error,
                    correlation=lambda o: o.correlation, bins=lambda o: o.bins[0:2], to_files=lambda o: o.to_files(root / "ro_hist"))
        for use, fn in uses.items():
            ctx.evaluated(1, ("read_only_use", label, use))
            with np.errstate(all="ignore"), warnings.catch_warnings():
                warnings.simplefilter("ignore")
                try:
                    fn(obj)
                except Exception as exc:  # noqa: BLE001
                    ctx.violation(f"C03|{label}|read_only_use:{use}|raises_{type(exc).__name__}", dict(error=repr(exc)[:200]))
                    continue
            if not (np.array_equal(np.asarray(obj.data, dtype=np.float64), d0, equal_nan=True)
                    and np.array_equal(np.asarray(obj.samples, dtype=np.float64), s0, equal_nan=True)):
                ctx.violation(f"C03|{label}|read_only_use:{use}|samples_modified",
                              dict(use=use, data_before=d0.tolist(), data_after=np.asarray(obj.data).tolist()))
                break
    eps = np.finfo(np.float64).eps
    for kind, name, obj, smp in products:
        smp = np.asarray(obj.samples, dtype=np.float64)
        ctx.evaluated(1, ("conditioning", kind, name))
        ctx.validated(1)
        if not np.all(np.isfinite(smp)):
            for key, det in check_covariance(obj, kind, name):
                ctx.violation(key, det)
            continue
        with np.errstate(all="ignore"), warnings.catch_warnings():
            warnings.simplefilter("ignore")
            cov = np.asarray(obj.covariance)
            err = np.asarray(obj.error)
        want = exact_jackknife_cov(smp)
        n = smp.shape[0]
        xmax = float(np.max(np.abs(smp)))
        # rounding of a deviation x_k - mean is O(eps * xmax); of a product of two deviations O(eps * xmax * |dev|)
        dev = np.sqrt(np.clip(np.diag(want), 0, None) * n / max(n - 1, 1)) + 16 * eps * xmax
        tol_cov = 1e-9 * np.abs(want) + 64 * eps * xmax * n * np.add.outer(dev, dev)
        detail = dict(product=kind, input_class=name, samples=smp.tolist(), covariance=cov.tolist(), error=err.tolist(),
                      expected_covariance=want.tolist())
        if cov.shape != want.shape or not np.all(np.abs(cov - want) <= tol_cov):
            ctx.violation("C03|SampledData.covariance|tightly_clustered_samples|not_delete_one_jackknife_covariance", detail)
        werr = np.sqrt(np.clip(np.diag(want), 0, None))
        tol_err = 1e-9 * werr + 64 * eps * xmax * math.sqrt(n)
        if err.shape != werr.shape or not np.all(np.isfinite(err)) or not np.all(np.abs(err - werr) <= tol_err):
            ctx.violation("C03|SampledData.error|tightly_clustered_samples|not_sqrt_of_covariance_diagonal", dict(detail, expected_error=werr.tolist()))


def wide_catalog(ctx, yaw, root) -> None:
    """Many patches (beyond the small domains of the model: index arithmetic at scale):
    histogram and pair-count jackknife samples of a 200-patch catalog against the
    leave-one-out statistic computed directly (sample k = total - contribution of patch k)."""
    import pandas as pd

    NP = 200
    rng = np.random.default_rng(ctx.seed + 77)
    pid = np.repeat(np.arange(NP), 2)
    df = pd.DataFrame(dict(ra=10.0 + 0.5 * (pid % 20) + rng.uniform(0, 0.2, len(pid)), dec=-5.0 + 0.5 * (pid // 20) + rng.uniform(0, 0.2, len(pid)),
                           w=rng.integers(1, 4, len(pid)).astype(float), z=rng.uniform(0.1, 1.0, len(pid)), pid=pid))
    cat = yaw.Catalog.from_dataframe(root / "wide", df, ra_name="ra", dec_name="dec", weight_name="w", redshift_name="z", patch_name="pid",
                                     overwrite=True, max_workers=1)
    cfg = yaw.Configuration.create(rmin=0.1, rmax=1.0, unit="deg", zmin=0.1, zmax=1.0, num_bins=3)
    edges = np.asarray(cfg.binning.edges)
    hist = yaw.HistData.from_catalog(cat, cfg, max_workers=1)
    per_patch = np.zeros((NP, 3))
    for k in range(NP):
        rows = df[df["pid"] == k]
        idx = np.digitize(rows["z"].to_numpy(), edges, right=True)       # closed = right
        for i, wgt in zip(idx, rows["w"].to_numpy()):
            if 1 <= i <= 3:
                per_patch[k, i - 1] += wgt
    expected = per_patch.sum(axis=0)[None, :] - per_patch
    ctx.evaluated(1, ("wide", "hist"))
    ctx.validated(1)
    if hist.samples.shape != expected.shape or not np.array_equal(hist.samples, expected):
        bad = [int(k) for k in range(min(NP, hist.samples.shape[0])) if not np.array_equal(hist.samples[k], expected[k])]
        ctx.violation("C03|HistData.from_catalog|many_patches|any_call|samples_not_leave_one_out",
                      dict(patches=NP, wrong_samples=len(bad), first_wrong=bad[:5]))
    (cf,) = yaw.autocorrelate(cfg, cat, cat, count_rr=False, max_workers=1)
    arr = cf.dd.counts.get_array()
    sp = cf.dd.counts.sample_patch_sum()
    total = arr.sum(axis=(1, 2))
    exp = np.array([total - arr[:, k, :].sum(axis=1) - arr[:, :, k].sum(axis=1) + arr[:, k, k] for k in range(NP)])
    ctx.evaluated(1, ("wide", "counts"))
    if not np.allclose(sp.samples, exp, rtol=1e-12, atol=0):
        ctx.violation("C03|PatchedCounts.sample_patch_sum|many_patches|any_call|samples_not_leave_one_out", dict(patches=NP))
    ctx.extra["wide_catalog"] = dict(patches=NP, histogram_samples_checked=NP, pair_count_samples_checked=NP)
