"""C13 - results are invariant under rotations, row order, patch labels and weight
scale; raw counts are additive.

Spec      : spec/Sky.tla - RotationInvariant, ReflectionInvariant (ring
            automorphisms applied to centres and both catalogs), WeightScaling,
            SplitAdditive are invariants of the model's count function, checked by
            TLC for every scenario; TLC also enumerates the scenarios that are
            realised.
spec->code: each sampled scenario (data from one TLC scenario, randoms from
            another) is measured on the real sphere, then again under: 6 rigid
            placements of the ring (equator, across RA=0, both poles, two tilted
            great circles) plus a random extra rotation, shuffled input rows read in
            several chunks, every permutation of the centre list (cells / jackknife
            samples permute accordingly), weights of one catalog times a constant,
            and the unknown catalog split in two (counts add).  A second mode
            derives the centres from the data (patch index column) and lets the
            other catalogs inherit them.
oracle    : amplitudes, jackknife samples, covariance and the redshift estimate
            agree with the untransformed run to 1e-9 relative; raw counts of the two
            halves add up exactly.
"""

from __future__ import annotations

import itertools
import math
import random

import numpy as np

from harness import data, par, sky
from harness.yawenv import scratch


def rand_rotation(rng):
    a, b, c = (rng.uniform(0, 360) for _ in range(3))
    return sky._rot("z", a) @ sky._rot("x", b) @ sky._rot("z", c)


def near_bisector_centres(sc, A, B, rng, eps_deg=1e-7):
    """Centre slots (floats) in which ONE centre is moved along the ring until some object is only eps_deg closer to its
    nearest centre than to the moved one - an object next to a patch boundary, decided unambiguously in double precision
    (chord^2 differs by ~1e-10 relative).  Exact rational ring arithmetic makes sure no object of the four samples is left
    with two nearest centres closer together than eps_deg / 2 (ties are not fixed by any property).  None if impossible."""
    from fractions import Fraction

    M = sc.M
    cs = [Fraction(c) for c in sc.centres]
    objs = sorted({o["s"] for o in A["ref"] + A["unk"] + B["ref"] + B["unk"]})
    eps = Fraction(eps_deg).limit_denominator(10 ** 12) / Fraction(360, M)

    def rd(a, b):
        d = (a - b) % M
        return min(d, M - d)

    cands = []
    for s in objs:
        order = sorted(range(len(cs)), key=lambda j: rd(s, cs[j]))
        if len(order) < 2:
            continue
        c1, c2 = order[0], order[1]
        d1 = rd(s, cs[c1])
        if d1 < 1 or rd(s, cs[c2]) <= d1:
            continue
        sign = 1 if (cs[c2] - s) % M <= Fraction(M, 2) else -1
        new = list(cs)
        new[c2] = (s + sign * (d1 + eps)) % M
        ok = len(set(new)) == len(new)
        for o in objs:
            ds = sorted(rd(o, c) for c in new)
            ok = ok and ds[1] - ds[0] >= eps / 2 and ds[0] < Fraction(M, 4)
        if ok:
            cands.append(new)
    if not cands:
        return None
    return [float(c) for c in rng.choice(cands)]


def measure(yaw, sc, expA, expB, work, emb, *, extra=None, order=None, wscale_unk=1.0, wscale_ref=1.0, perm=None, inherit=False, split=False, unweighted_unk=False,
            cslots=None):
    import pandas as pd

    dref, dunk = sky.frames(sc, expA, emb, extra, order, wscale_unk)
    drref, drnd = sky.frames(sc, expB, emb, extra, order, 1.0)      # the second scenario supplies the random catalogs
    dref["w"] = dref["w"] * wscale_ref
    cen = sky.centre_coords(sc, emb, extra, perm)
    if cslots is not None:      # centres off the lattice (see near_bisector_centres)
        cs_ = [cslots[i] for i in perm] if perm is not None else list(cslots)
        cen = yaw.AngularCoordinates(np.deg2rad(np.array([sky.embed(c, sc.M, emb, extra) for c in cs_])))
    kw = dict(ra_name="ra", dec_name="dec", weight_name="w", overwrite=True, max_workers=1, chunksize=2)
    import shutil

    shutil.rmtree(work, ignore_errors=True)   # leftovers of a refused creation may not be overwritten
    work.mkdir(parents=True, exist_ok=True)
    if inherit:
        # centres derived from the data of the reference catalog; everything else inherits them
        pts = np.deg2rad(dref[["ra", "dec"]].to_numpy())
        from checks.c12 import ang_dist

        dref = dref.copy()
        dref["pid"] = [min(range(len(sc.centres)), key=lambda j: ang_dist(p, cen.data[j])) for p in pts]
        cref = yaw.Catalog.from_dataframe(work / "ref", dref, redshift_name="z", patch_name="pid", **kw)
        cen_kw = dict(patch_centers=cref)
        derived = cref.get_centers().data
        for frame_ in (dunk, drnd):
            for pt in np.deg2rad(frame_[["ra", "dec"]].to_numpy()):
                dists = sorted(ang_dist(pt, c) for c in derived)
                if len(dists) > 1 and dists[1] - dists[0] < 1e-9:
                    return None   # object equidistant from two data-derived centres: the tie-break is not fixed by any property
    else:
        cref = yaw.Catalog.from_dataframe(work / "ref", dref, redshift_name="z", patch_centers=cen, **kw)
        cen_kw = dict(patch_centers=cen)
    kwu = dict(kw)
    if unweighted_unk:       # unknown sample and its randoms carry no weight column at all (all model weights are 1)
        kwu.pop("weight_name")      # (the weights of the scenario's unknown objects are simply not used in these runs)
    crnd = yaw.Catalog.from_dataframe(work / "rnd", drnd, **cen_kw, **kwu)
    cfg = sc.yaw_config()
    out = {}
    if split:
        halves = [dunk.iloc[:1], dunk.iloc[1:]]
        tot = None
        for k, h in enumerate(halves):
            try:
                cu = yaw.Catalog.from_dataframe(work / f"unk{k}", h.reset_index(drop=True), **cen_kw, **kwu)
            except ValueError:
                return None  # a half leaves a centre empty: creation is (rightly) refused
            (cf,) = yaw.crosscorrelate(cfg, cref, cu, unk_rand=crnd, max_workers=1)
            arr = cf.dd.counts.get_array()
            tot = arr if tot is None else tot + arr
        out["dd_counts"] = tot
        return out
    cunk = yaw.Catalog.from_dataframe(work / "unk", dunk, **cen_kw, **kwu)
    (cf,) = yaw.crosscorrelate(cfg, cref, cunk, unk_rand=crnd, max_workers=1)
    (af,) = yaw.autocorrelate(cfg, cref, cref, count_rr=False, max_workers=1)
    cd = cf.sample()
    out["dd_counts"] = cf.dd.counts.get_array()
    out["amp"] = cd.data
    out["samples"] = cd.samples
    out["cov"] = cd.covariance
    nz = yaw.RedshiftData.from_corrfuncs(cf)
    out["nz"] = nz.data
    out["nz_samples"] = nz.samples
    # Landy-Szalay with both random catalogs (no factor cancels between its terms)
    try:
        crref = yaw.Catalog.from_dataframe(work / "rref", drref, redshift_name="z", **cen_kw, **kw)
        (lf,) = yaw.crosscorrelate(cfg, cref, cunk, ref_rand=crref, unk_rand=crnd, max_workers=1)
        ls = lf.sample()
        out["amp_ls"], out["samples_ls"] = ls.data, ls.samples
    except ValueError:
        out["amp_ls"] = out["samples_ls"] = None      # the reference randoms leave a centre empty: creation refused
    out["auto_counts"] = af.dd.counts.get_array()
    ad = af.sample()
    out["auto_amp"] = ad.data
    out["auto_samples"] = ad.samples
    return out


def close(a, b, rtol=1e-9, huge=1e8, lenient=False):
    """Equal up to rounding.  Entries that are undefined in one run (0/0, x/0: a jackknife
    sample without random pairs) are 'degenerate': rounding in the leave-one-out shortcut
    may turn an exact 0 denominator into 1e-16, so inf and an astronomically large number
    are both accepted there; a degenerate entry against a modest finite one is a difference."""
    a, b = np.asarray(a, dtype=float), np.asarray(b, dtype=float)
    if a.shape != b.shape:
        return False
    dega = ~np.isfinite(a) | (np.abs(a) > huge)
    degb = ~np.isfinite(b) | (np.abs(b) > huge)
    if lenient:
        # non-integer weight factors: a 0/0 or x/0 entry of the reference run may become any number
        # (the exact zero turns into a rounding residue); only entries defined in the reference count
        if np.any(dega & ~degb):
            return False
        ok = ~degb
        scale = max(np.abs(b[ok]).max(initial=0.0), 1.0)
        return bool(np.all(np.abs(a[ok] - b[ok]) <= rtol * scale))
    if not np.array_equal(dega, degb):
        return False
    ok = ~dega
    # amplitudes are ratios minus one: their natural scale is 1 (values near 0 arise by cancellation)
    scale = max(np.abs(a[ok]).max(initial=0.0), 1.0)
    return bool(np.all(np.abs(a[ok] - b[ok]) <= rtol * scale))


def case_job(ctx, job) -> None:
    import shutil
    from pathlib import Path

    yaw = data.import_yaw()
    case, A, B, sc, root, seed = job
    root = Path(root)
    rng = random.Random(seed)
    embs = list(sky.EMBEDDINGS)
    nc = len(sc.centres)
    try:
        _case(ctx, yaw, case, A, B, sc, root, rng, embs, nc)
    finally:
        shutil.rmtree(root, ignore_errors=True)


def _case(ctx, yaw, case, A, B, sc, root, rng, embs, nc) -> None:
        base = measure(yaw, sc, A, B, root / "w", "equator")
        nontriv = bool(np.isfinite(base["amp"]).any())
        detail = dict(data=[dict(o) for o in A["ref"]], unknown=[dict(o) for o in A["unk"]], randoms=[dict(o) for o in B["unk"]])
        if case < 3:
            ctx.sample(dict(detail, base_amplitude=[float(x) for x in base["amp"]]))
        transforms = []
        for emb in embs[1:]:
            transforms.append((f"rotation:{emb}", dict(emb=emb)))
        transforms.append(("rotation:random", dict(emb="equator", extra=rand_rotation(rng))))
        transforms.append(("rows_shuffled", dict(emb="equator", order=rng.randrange(1 << 20))))
        transforms.append(("rows_shuffled+rotation", dict(emb="meridian_pole", order=rng.randrange(1 << 20))))
        transforms.append(("weights_unknown_x3", dict(emb="equator", wscale_unk=3.0)))
        transforms.append(("weights_reference_x0.37", dict(emb="equator", wscale_ref=0.37)))
        # tiny and huge factors (powers of two, exact): no absolute weight scale may enter anywhere
        transforms.append(("weights_unknown_x2^-40", dict(emb="equator", wscale_unk=2.0 ** -40)))
        transforms.append(("weights_both_tiny", dict(emb="equator", wscale_unk=2.0 ** -30, wscale_ref=2.0 ** -27)))
        transforms.append(("weights_reference_x2^40", dict(emb="equator", wscale_ref=2.0 ** 40)))
        # a weighted reference sample against unknown objects / randoms WITHOUT a weight column
        transforms.append(("weights_reference_x4,unknown_unweighted", dict(emb="equator", wscale_ref=4.0, unweighted_unk=True)))

        for perm in list(itertools.permutations(range(nc)))[1:]:
            transforms.append((f"centres_permuted", dict(emb="equator", perm=perm)))
        transforms.append(("inherited_centres:pole", dict(emb="meridian_pole", inherit=True)))
        transforms.append(("inherited_centres:tilted", dict(emb="tilted", inherit=True)))
        # an object next to a patch boundary (1e-7 deg nearer to its own centre than to the neighbouring one): which patch
        # it belongs to - and with it every per-patch result - must survive rotations and centre order like anything else
        cslots = near_bisector_centres(sc, A, B, rng)
        base_nb = None
        if cslots is not None:
            for emb in embs[1:]:
                transforms.append((f"rotation,object_next_to_patch_boundary:{emb}", dict(emb=emb, cslots=cslots)))
            transforms.append(("rotation,object_next_to_patch_boundary:random", dict(emb="equator", extra=rand_rotation(rng), cslots=cslots)))
            for perm in list(itertools.permutations(range(nc)))[1:3]:
                transforms.append(("centres_permuted,object_next_to_patch_boundary", dict(emb="equator", perm=perm, cslots=cslots)))
        base_inh = None
        base_unw = None
        for name, kw in transforms:
            ref = base
            if kw.get("cslots") is not None:
                if base_nb is None:
                    try:
                        base_nb = measure(yaw, sc, A, B, root / "w", "equator", cslots=cslots) or "skip"
                    except ValueError:
                        base_nb = "skip"      # the moved centre attracts no object of one of the catalogs: creation refused
                if base_nb == "skip":
                    continue
                ref = base_nb
            if name == "weights_reference_x4,unknown_unweighted":
                if base_unw is None:
                    base_unw = measure(yaw, sc, A, B, root / "w", "equator", unweighted_unk=True) or "skip"
                if base_unw == "skip":
                    continue
                ref = base_unw
            if kw.get("inherit"):
                if base_inh is None:
                    try:
                        base_inh = measure(yaw, sc, A, B, root / "w", "equator", inherit=True) or "skip"
                    except ValueError:
                        base_inh = "skip"     # a data-derived centre attracts no object of another catalog: creation refused
                if base_inh == "skip":
                    continue
                ref = base_inh
            try:
                got = measure(yaw, sc, A, B, root / "w", **kw)
            except Exception as exc:  # noqa: BLE001
                ctx.violation(f"C13|{name.split(':')[0]}|raises_{type(exc).__name__}", dict(detail, transform=name, error=repr(exc)[:200]))
                continue
            if got is None:
                continue
            ctx.evaluated(1, (case, name) if nontriv else None)
            ctx.validated(1)
            perm = kw.get("perm")
            exp_samples, exp_nzs, exp_auto = ref["samples"], ref["nz_samples"], ref["auto_samples"]
            if perm is not None:
                exp_auto = ref["auto_samples"][list(perm)]
                # real patch k = model patch perm[k]: jackknife sample k leaves out that patch
                exp_samples = ref["samples"][list(perm)]
                exp_nzs = ref["nz_samples"][list(perm)]
            checks = []
            if got.get("amp_ls") is not None and ref.get("amp_ls") is not None:
                exp_ls = ref["samples_ls"][list(perm)] if perm is not None else ref["samples_ls"]
                checks += [("landy_szalay_amplitude", got["amp_ls"], ref["amp_ls"]), ("landy_szalay_samples", got["samples_ls"], exp_ls)]
            checks += [("amplitude", got["amp"], ref["amp"]), ("jackknife_samples", got["samples"], exp_samples),
                      ("covariance", got["cov"], ref["cov"]), ("redshift_estimate", got["nz"], ref["nz"]),
                      ("redshift_estimate_samples", got["nz_samples"], exp_nzs),
                      ("autocorrelation_amplitude", got["auto_amp"], ref["auto_amp"]), ("autocorrelation_samples", got["auto_samples"], exp_auto)]
            for what, g, e in checks:
                if not close(g, e, lenient=name.startswith("weights_")):
                    ctx.violation(f"C13|{name.split(':')[0]}|{what}_changes", dict(detail, transform=name, got=np.asarray(g).tolist(), expected=np.asarray(e).tolist()))
                    break
        # additivity of raw counts under a split of the unknown catalog
        sp = measure(yaw, sc, A, B, root / "w", "equator", split=True)
        if sp is not None:
            ctx.evaluated(1, (case, "split"))
            if not np.array_equal(sp["dd_counts"], base["dd_counts"]):
                ctx.violation("C13|catalog_split|raw_counts_not_additive", dict(detail, halves_sum=sp["dd_counts"].tolist(), whole=base["dd_counts"].tolist()))


def run(ctx) -> None:
    yaw = data.import_yaw()
    rng = random.Random(ctx.seed)
    quick = ctx.quick
    ctx.rule = ("pairs of TLC scenarios (data, randoms) measured untransformed and under rigid placements, random extra rotation, row shuffles, "
                "centre permutations, weight factors and a catalog split; non-trivial = base amplitude finite in at least one bin")
    ctx.assume("the continuous rotation group is represented by six rigid placements of the 5-deg lattice plus one random extra rotation per case")
    small = sky.SkyConfig(nref=2, nunk=2, zcells="{2, 4}", weights="{1}", slots="{0, 1, 3, 6, 8, 9}", rmin=(2.5,), rmax=(12.5,)).derive()
    res, _ = sky.model_check(ctx, "Sky symmetry invariants (shift, reflection, split) on every scenario", small,
                             sky.DESIGN_INVS + sky.SYM_INVS, want_print=False)
    ctx.require(res.ok, f"Sky symmetry invariant violated in the model: {res.error_name}")
    smallw = sky.SkyConfig(nref=2, nunk=2, zcells="{2}", weights="{1, 2}", slots="{1, 3, 6, 8}", rmin=(2.5,), rmax=(12.5,)).derive()
    res, _ = sky.model_check(ctx, "Sky symmetry invariants with weights (weight scale, split)", smallw, sky.SYM_INVS, want_print=False)
    ctx.require(res.ok, f"Sky symmetry invariant violated in the model: {res.error_name}")
    sc = sky.SkyConfig(nref=3, nunk=(2 if quick else 3), zcells="{2, 4}", weights="{1, 2}", slots="{0, 1, 3, 6, 8, 9}",
                       rmin=(2.5,), rmax=(17.5,), print_every=(31 if quick else 7)).derive()
    res, scen = sky.model_check(ctx, "Sky scenarios 4+3 objects for the metamorphic runs", sc, ["TotalsAgree"])
    ctx.require(res.ok and len(scen) > 50, "no scenarios for C13")
    # data scenarios with counts in both bins and across patches
    good = [e for e in scen if all(any(v for row in b for v in row) for b in e["cross"][0]) and any(e["cross"][0][b][i][j] for b in range(2) for i in range(2) for j in range(2) if i != j)]
    ctx.require(len(good) > 10, f"too few rich scenarios ({len(good)} of {len(scen)})")
    ncase = 24 if quick else 200
    embs = list(sky.EMBEDDINGS)
    nc = len(sc.centres)
    with scratch("c13_") as root:
        jobs = []
        for case in range(ncase):
            A, B = rng.choice(good), rng.choice(good)
            jobs.append((case, A, B, sc, str(root / f"case{case}"), rng.randrange(1 << 30)))
        par.pmap(ctx, case_job, jobs)
        dense_inherited(ctx, yaw, root, rng)
    ctx.require(not close([1.0, 2.0], [1.0, 2.0 + 1e-6]), "comparator too loose")


def dense_inherited(ctx, yaw, root, rng):
    """Extended patches whose centres are DERIVED from the data (patch index column) and
    inherited by the other catalogs, rotated from the equator to a place next to a pole:
    the derived centres must rotate rigidly with the data, so partition and results stay."""
    import pandas as pd

    M = 360
    ref_slots = [(s, 0) for s in range(0, 21)] + [(s, 1) for s in range(30, 51)]
    unk_slots = [22, 23, 24, 26, 27, 28]
    rnd_slots = [21, 22, 23, 24, 26, 27, 28, 29]
    cfg = yaw.Configuration.create(rmin=0.5, rmax=6.5, unit="deg", zmin=0.2, zmax=0.8, num_bins=2)
    placements = {
        "equator": sky._rot("z", 20.0),
        "next_to_north_pole": sky._rot("x", 90.0) @ sky._rot("z", 75.0),      # slot 10 at dec 85 deg, slot 15 on the pole
        "next_to_south_pole": sky._rot("x", -90.0) @ sky._rot("z", 72.0),
        "random": rand_rotation(rng),
    }
    results = {}
    for name, R in placements.items():
        def frame(slots, z=False, pid=False):
            rows = []
            for k, item in enumerate(slots):
                s, p = item if isinstance(item, tuple) else (item, None)
                ra, dec = sky.embed(s, M, R)
                row = dict(ra=ra, dec=dec, w=1.0 + (k % 2))
                if z:
                    row["z"] = 0.35 if k % 2 == 0 else 0.65
                if pid:
                    row["pid"] = p
                rows.append(row)
            return pd.DataFrame(rows)

        work = root / "dense"
        import shutil

        shutil.rmtree(work, ignore_errors=True)
        work.mkdir(parents=True)
        kw = dict(ra_name="ra", dec_name="dec", weight_name="w", overwrite=True, max_workers=1)
        cref = yaw.Catalog.from_dataframe(work / "ref", frame(ref_slots, z=True, pid=True), redshift_name="z", patch_name="pid", **kw)
        cunk = yaw.Catalog.from_dataframe(work / "unk", frame(unk_slots), patch_centers=cref, **kw)
        crnd = yaw.Catalog.from_dataframe(work / "rnd", frame(rnd_slots), patch_centers=cref, **kw)
        (cf,) = yaw.crosscorrelate(cfg, cref, cunk, unk_rand=crnd, max_workers=1)
        cd = cf.sample()
        results[name] = dict(num_unk=list(cunk.get_num_records()), num_rnd=list(crnd.get_num_records()), counts=cf.dd.counts.get_array(),
                             amp=cd.data, samples=cd.samples, cov=cd.covariance)
        ctx.evaluated(1, ("dense_inherited", name))
        ctx.validated(1)
    base = results["equator"]
    for name, r in results.items():
        if name == "equator":
            continue
        if r["num_unk"] != base["num_unk"] or r["num_rnd"] != base["num_rnd"]:
            ctx.violation("C13|rotation|inherited_data_derived_centres|patch_partition_changes",
                          dict(placement=name, partition=[r["num_unk"], r["num_rnd"]], at_equator=[base["num_unk"], base["num_rnd"]]))
            continue
        for what in ("counts", "amp", "samples", "cov"):
            if not close(r[what], base[what]):
                ctx.violation(f"C13|rotation|inherited_data_derived_centres|{what}_changes", dict(placement=name))
                break
