"""C09 - catalog creation is fail-stop: exact catalog or an exception, never a hang.

Spec      : spec/CreatePipeline.tla - sequential and multiprocessing creation
            pipeline (reader, pool tasks, queue, writer process, context-manager
            exits, load) with input faults at any chunk, pre-existing paths and
            the overwrite flag.  TLC: FailStop, Termination (no hang),
            UntouchedWithoutOverwrite, OnlyCatalogsDeleted,
            NoOpenableDirAfterFailure, ExactOnSuccess over all scenarios and
            schedules; five deviation configs reproduce the code as found.
spec->code: every scenario class enumerated by TLC is instantiated (fault injected
            through the INPUT: NaN/inf cell, bad patch id, missing column, centre
            without objects, pre-existing catalog / foreign directory / file /
            missing parent) and run on the deterministic multiprocessing runtime
            under several schedules (depth-first over all schedules for the
            smallest scenarios); the projection of the real outcome must be one of
            TLC's terminal states of the ideal design for that scenario.
code->spec: the event log of every such run (queue put/get with the record ids
            carried, process spawn/terminate/join/exit code, pool.map call/return,
            task failure, observed terminal state) is validated by TLC against
            spec/CreatePipelineTrace.tla - every step must be a CreatePipeline
            action; corrupted copies must be rejected.
faults    : in the reader through the input; in a pool worker / the writer process
            (quantifier of C09) by making split_into_patches /
            CatalogWriter.process_patches raise at the marked record (cfg.Where).
oracle    : the clauses of C09 evaluated on the real outcome (exception / return
            value / exact deadlock detection, directory snapshot before/after,
            what Catalog(path) opens afterwards).
"""

from __future__ import annotations

import random

from harness import data, detrt, pipeline, tlc
from harness.yawenv import scratch

INVS = ["TypeOK", "BufferedOrWritten", "ExactOnSuccess", "FailStop", "UntouchedWithoutOverwrite", "OnlyCatalogsDeleted", "NoOpenableDirAfterFailure"]
DEVIATIONS = {
    "FinalizeOnException": "NoOpenableDirAfterFailure",
    "NoSentinelOnError": "deadlock",
    "WriterErrorVanishes": "ExactOnSuccess",
    "RmtreeAnyDir": "OnlyCatalogsDeleted",
    "EmptyCentreUnnoticed": "FailStop",
}


def base_consts(quick):
    return dict(MaxL=4 if quick else 5, MaxCS=3, Ws="{1, 2, 3}", Pres='{"absent", "old", "foreign", "file", "noparent"}',
                Faults="{0, 1, 2}" if quick else "{0, 1, 2, 3}", Wheres='{"reader", "worker", "writer"}', Kills='{"none", "init", "get"}', BufSizes="{0}" if quick else "{0, 2}")


def cfg_key(c):
    return (c["L"], c["CS"], c["W"], str(c["Pre"]), bool(c["Ow"]), c["FaultChunk"], bool(c["EmptyCentre"]), str(c["Where"]), str(c["Kill"]), c["Buf"])


def model(ctx):
    consts = base_consts(ctx.quick)
    res = tlc.run("CreatePipeline", tlc.make_cfg(constants=dict(consts, Deviations="{}"), invariants=INVS + ["PrintDone"],
                                                 properties=["Termination"]), coverage=True, timeout=1500)
    ctx.add_tlc("CreatePipeline ideal (all scenarios, all schedules)", res, constants=consts)
    ctx.require(res.ok, f"CreatePipeline ideal design violated: {res.error_kind} {res.error_name}")
    for act, (d, t) in res.coverage.items():
        ctx.require(t > 0 or act in ("Next",), f"CreatePipeline action {act} never taken (vacuous)")
    allowed = {}
    for c, outcome, loaded, dirstate, ids, killed in res.printed("done"):
        allowed.setdefault(cfg_key(c), set()).add((str(outcome), str(loaded), str(dirstate), bool(ids), bool(killed)))
    cex = {}
    small = dict(consts, MaxL=3)
    for dev, expect in DEVIATIONS.items():
        # (only the invariant the deviation is meant to break - which violated invariant TLC meets first must not depend on
        # thread timing; the deadlock of NoSentinelOnError is found with the type invariant alone)
        r = tlc.run("CreatePipeline", tlc.make_cfg(constants=dict(small, Deviations='{"%s"}' % dev),
                                                   invariants=["TypeOK"] if expect == "deadlock" else [expect], properties=["Termination"]))
        ctx.add_tlc(f"CreatePipeline deviation {dev}", r)
        got = "deadlock" if r.error_kind == "deadlock" else r.error_name
        ctx.require(not r.ok and got == expect, f"deviation {dev}: expected {expect}, TLC says {r.error_kind} {r.error_name} (stale)")
        cex[dev] = dict(cfg=r.trace[-1]["state"]["cfg"], actions=[t["action"] for t in r.trace[1:]])
    ctx.extra["tlc_counterexamples"] = cex
    return allowed, cex


FAULTS_APPLY = ["nan_z", "inf_ra", "nan_w", "interrupt"]
FAULTS_DIVIDE = ["pid_big", "pid_neg", "pid_wrap", "pid_wrap_neg", "pid_nan"]


def classify(yaw, c, res, exp_new):
    """Project the real outcome onto (outcome, loaded, dir, ids)."""
    path = res["path"]
    ids = (path / "patch_ids.bin").exists() if path.exists() and path.is_dir() else False
    if res["kind"] == "ok":
        outcome = "success"
        got = res["result"]["records"]
        if pipeline.same_records(got, exp_new):
            loaded = "new"
        elif any(w >= pipeline.OLD_BASE for recs in got.values() for (w, *_) in recs):
            loaded = "old"
        else:
            loaded = "other"
    elif res["kind"] == "raised":
        outcome, loaded = "raised", "none"
    else:
        outcome, loaded = "hang", "none"
    if res["after"] == res["before"]:
        dirstate = str(c["Pre"])
    elif ids:
        dirstate = "complete"
    elif res["after"][0] == "absent":
        dirstate = "absent"
    else:
        dirstate = "building"
    return outcome, loaded, dirstate, ids


def judge(ctx, c, fault, mode, res, proj, exp_new, allowed):
    """Evaluate the clauses of C09 on the real outcome."""
    outcome, loaded, dirstate, ids = proj
    W = c["W"]
    variant = "seq" if W == 1 else "mp"
    pre, ow = str(c["Pre"]), bool(c["Ow"])
    path_err = pre == "noparent" or (pre != "absent" and not ow) or (ow and pre in ("foreign", "file"))
    killed = bool(res.get("killed"))
    faulty = c["FaultChunk"] > 0 or c["EmptyCentre"] or c["L"] < 2 or path_err or killed  # L = 1: centre 0 gets no record
    fclass = ("fault=" + (fault or ("writer_killed_" + str(c["Kill"]) if killed else "none"))) + ("+empty_centre" if (c["EmptyCentre"] or c["L"] < 2) else "")
    pclass = f"pre={pre},overwrite={ow}"
    detail = dict(scenario=dict(c), fault=fault, mode=mode, projection=proj,
                  error=repr(res.get("error")), waiting=str(res.get("waiting")), reopen_error=res.get("reopen_error"))
    bad = False
    if outcome == "hang":
        ctx.violation(f"C09|{variant}|{fclass}|{pclass if path_err else 'path_ok'}|hangs", detail)
        bad = True
    if faulty and outcome == "success":
        what = {"old": "returns_the_old_catalog", "new": "returns_catalog_despite_fault", "other": "returns_catalog_of_other_data"}[loaded]
        ctx.violation(f"C09|{variant}|{fclass}|{pclass if path_err else 'path_ok'}|{what}", detail)
        bad = True
    if not faulty and outcome == "raised":
        ctx.violation(f"C09|{variant}|no_fault|path_ok|raises_{type(res['error']).__name__}", detail)
        bad = True
    if not faulty and outcome == "success" and loaded != "new":
        ctx.violation(f"C09|{variant}|no_fault|path_ok|catalog_not_exact", detail)
        bad = True
    if pre in ("old", "foreign", "file") and not ow and res["after"] != res["before"]:
        ctx.violation(f"C09|{variant}|{pclass}|existing_path_modified_without_overwrite", detail)
        bad = True
    if pre in ("foreign", "file") and ow and res["after"] != res["before"]:
        ctx.violation(f"C09|{variant}|{pclass}|non_catalog_path_deleted_on_overwrite", detail)
        bad = True
    if outcome in ("raised", "hang") and res.get("reopen") is not None and not (pre == "old" and res["after"] == res["before"]):
        n = sum(len(v) for v in res["reopen"].values())
        ctx.violation(f"C09|{variant}|{fclass}|{pclass if path_err else 'path_ok'}|failed_creation_leaves_openable_catalog",
                      dict(detail, reopened_records=n, input_records=c["L"]))
        bad = True
    if not bad:
        # cross-check with the model: the projection must be a terminal state of the ideal design
        al = allowed.get(cfg_key(c))
        if al is not None and tuple(proj) + (killed,) not in al:
            ctx.drift("C09|outcome_satisfies_property_but_differs_from_model", dict(detail, model_allows=sorted(al)))


def run(ctx) -> None:
    yaw = data.import_yaw()
    rng = random.Random(ctx.seed)
    quick = ctx.quick
    ctx.rule = ("scenario classes (L, chunksize, workers, pre-existing path, overwrite, fault chunk, empty centre) enumerated by TLC; "
                "each instantiated through the input and run on the deterministic multiprocessing runtime under several schedules; "
                "non-trivial = a fault or a pre-existing path or more than one worker")
    ctx.assume("fake multiprocessing (cooperative threads: Pool.map tasks, Manager().Queue, Process with fork-copy of the bound object) "
               "models process isolation; a hang is an exact deadlock of the runtime, no timeout is involved")
    allowed, cex = model(ctx)
    keys = sorted(allowed)
    rng.shuffle(keys)
    # stratify: every (W-class, Pre, Ow, fault?, empty) class at least twice
    buckets = {}
    for k in keys:
        L, CS, W, pre, ow, fc, ec, wh, kl, bs = k
        # chunk position of the fault: none / first / middle / last
        nc = -(-L // CS)
        pos = "none" if not fc else ("only" if nc == 1 else "first" if fc == 1 else "last" if fc == nc else "middle")
        buckets.setdefault((min(W, 2), pre, ow, pos if wh != "reader" or pre == "absent" else min(fc, 1), ec, wh, kl, bs), []).append(k)
    per = 2 if quick else 8
    chosen = [k for b in buckets.values() for k in b[:per]]
    with scratch("c09_") as root:
        n = 0
        traces, metas, tinfo = [], [], []
        jobs = []
        for k in chosen:
            L, CS, W, pre, ow, fc, ec, wh, kl, bs = k
            variants = [("apply", None)]
            if fc and wh != "reader":
                variants = [("apply", "injected_" + wh)] + ([("divide", "injected_" + wh)] if not ec else [])
            elif fc:
                variants = [("apply", rng.choice(FAULTS_APPLY)), ("divide", rng.choice(FAULTS_DIVIDE))]
                if fc == 1:
                    variants.append(("apply", "missing_column"))
            if ec:
                variants = [(m, f) for m, f in variants if m == "apply"]
            for mode, fault in variants:
                nsched = 1 if W == 1 else (3 if quick else 8)
                for s in range(nsched):
                    n += 1
                    kill = None if kl == "none" else "init" if kl == "init" else ("get", rng.randrange(0, -(-L // CS) * W + 2))
                    jobs.append((k, mode, fault, s, kill, rng.randrange(1 << 30), str(root / f"r{n}"), sorted(allowed[k])))
        from harness import par

        for emitted in par.pmap(ctx, scenario_job, jobs):
            for tr, meta, info in emitted:
                traces.append(tr)
                metas.append(meta)
                tinfo.append(info)
        trace_validation(ctx, traces, metas, tinfo)
        # depth-first over ALL schedules of the smallest multiprocessing scenarios
        for (L, CS, W, fc, wh) in [(2, 1, 2, 0, "reader"), (2, 1, 2, 2, "reader"), (3, 2, 2, 1, "reader"), (2, 1, 2, 2, "worker"), (2, 1, 2, 1, "writer")]:
            c = dict(L=L, CS=CS, W=W, Pre="absent", Ow=False, FaultChunk=fc, EmptyCentre=False, Where=wh, Kill="none", Buf=0)
            count = {"n": 0}

            def once(ch, c=c, fc=fc, wh=wh):
                count["n"] += 1
                fault = ("nan_z" if wh == "reader" else "injected_" + wh) if fc else None
                res = pipeline.run_creation(yaw, root / f"dfs{L}{CS}{fc}{wh}_{count['n']}", L=c["L"], CS=c["CS"], W=c["W"], fault=fault,
                                            fault_chunk=fc, chooser=ch, where=wh)
                proj = classify(yaw, c, res, pipeline.expected_records(pipeline.input_frame(c["L"])))
                judge(ctx, c, fault, "apply", res, proj, pipeline.expected_records(pipeline.input_frame(c["L"])), allowed)
                return proj

            limit = 150 if quick else 2000
            nrun = 0
            for proj, _ in detrt.dfs_schedules(once, max_runs=limit):
                nrun += 1
                ctx.evaluated(1, ("dfs", L, CS, W, fc, wh, nrun))
                ctx.validated(1)
            ctx.extra.setdefault("dfs_schedules", []).append(dict(L=L, CS=CS, W=W, fault_chunk=fc, where=wh, schedules=nrun, exhausted=nrun < limit))
        # faults that strike before the pipeline starts
        pre_pipeline(ctx, yaw, root)


def scenario_job(ctx, job) -> None:
    """One scenario x variant x schedule on the real library (runs in a worker process)."""
    import shutil
    from pathlib import Path

    yaw = data.import_yaw()
    k, mode, fault, s, kill, seed, rootdir, allowed_k = job
    L, CS, W, pre, ow, fc, ec, wh, kl, bs = k
    c = dict(L=L, CS=CS, W=W, Pre=pre, Ow=ow, FaultChunk=fc, EmptyCentre=ec, Where=wh, Kill=kl, Buf=bs)
    root = Path(rootdir)
    try:
        res = pipeline.run_creation(yaw, root, L=L, CS=CS, W=W, pre=pre, overwrite=ow, fault=fault,
                                    fault_chunk=fc, empty_centre=ec, mode=mode, seed=seed, where=wh, kill=kill, buf=bs)
        exp_new = pipeline.expected_records(pipeline.input_frame(L), ec)
        proj = classify(yaw, c, res, exp_new)
        ctx.evaluated(1, (k, mode, fault, s) if (fc or ec or pre != "absent" or W > 1) else None)
        ctx.validated(1)
        judge(ctx, c, fault, mode, res, proj, exp_new, {cfg_key(c): {tuple(a) for a in allowed_k}})
        if res["kind"] != "deadlock":
            ctx.emit((pipeline.trace_of(res, proj), dict(cfg=c), dict(scenario=c, mode=mode, fault=fault)))
        if (fc or pre != "absent") and s == 0:
            ctx.sample(dict(scenario=c, mode=mode, fault=fault, real_projection=proj, model_allows=allowed_k))
    except pipeline.PrepareRefused as exc:
        # the clean, sequential creation of the prior catalog is itself a no-fault creation that must succeed
        ctx.evaluated(1)
        ctx.violation(f"C09|seq|no_fault|path_ok|raises_{type(exc.error).__name__}",
                      dict(scenario="prior catalog: records (10,0) (12,0) (10.1,0.1), centres (10,0) (12,0), max_workers=1, one chunk", error=repr(exc.error)))
    finally:
        shutil.rmtree(root, ignore_errors=True)


def trace_validation(ctx, traces, metas, tinfo):
    """code -> spec: the event logs of the runs above (every queue put/get with the
    record ids it carried, process start/terminate/join/exit codes, pool.map calls,
    task failures, and the observed terminal state) must be behaviours of the ideal
    CreatePipeline design - every step, not only the outcome."""
    if not traces:
        return
    consts = dict(base_consts(ctx.quick), Deviations="{}")
    # binding demonstration: corrupted copies of a multi-worker trace must be rejected
    donor = next((i for i, t in enumerate(traces) if sum(bool(e["ev"] == "put" and e.get("recs")) for e in t) >= 2
                  and t[-1]["outcome"] == "success" and metas[i]["cfg"]["Kill"] == "none"), None)
    if donor is None:
        # no successful multi-worker creation at all: that is a finding of the oracle above, not a machinery problem
        ctx.require(bool(ctx._violations), "no multi-worker trace with two non-empty puts recorded")
        return
    bad1 = [dict(e) for e in traces[donor]]
    for e in bad1:                      # a record silently dropped from a part
        if e["ev"] == "put" and e.get("recs"):
            e["recs"] = e["recs"][1:]
            break
    bad2 = [dict(e) for e in traces[donor]]
    for i, e in enumerate(bad2):        # the writer never takes one item off the queue
        if e["ev"] == "get" and e.get("recs"):
            del bad2[i]
            break
    bad3 = [dict(e) for e in traces[donor]]
    bad3[-1] = dict(bad3[-1], outcome="success" if bad3[-1]["outcome"] == "raised" else "raised")
    allt = traces + [bad1, bad2, bad3]
    allm = metas + [metas[donor]] * 3
    from harness import tracecheck

    res, verdicts = tracecheck.validate("CreatePipelineTrace", consts, allt, invariants=INVS, extra_fields=pipeline.TRACE_FIELDS, metas=allm)
    ctx.add_tlc("CreatePipelineTrace (event logs of the real creations)", res, traces=len(traces))
    ctx.require(not any(ok for _, ok in verdicts[-3:]), "binding demonstration failed: a corrupted creation trace was accepted")
    nacc = 0
    for (m, ok), tr, info in zip(verdicts, traces, tinfo):
        if ok:
            nacc += 1
        else:
            ctx.drift("C09|creation_event_log_not_a_CreatePipeline_behaviour",
                      dict(info, matched=m, of=len(tr), next_event={k: v for k, v in (tr[m] if m < len(tr) else {}).items() if k not in ("p", "seq")}))
    ctx.validated(len(traces))
    ctx.extra["trace_validation"] = dict(traces=len(traces), accepted=nacc, events=sum(len(t) for t in traces),
                                         corrupted_traces_rejected=3)


def pre_pipeline(ctx, yaw, root):
    import h5py
    import numpy as np

    df = pipeline.input_frame(6)
    cols = dict(ra_name="ra", dec_name="dec", weight_name="w", redshift_name="z")
    for W in (1, 2):
        variant = "seq" if W == 1 else "mp"
        cases = {}
        cases["no_patch_method"] = lambda p, W=W: yaw.Catalog.from_dataframe(p, df, **cols, max_workers=W)
        h5 = root / f"unequal{W}.hdf5"
        with h5py.File(h5, "w") as f:
            for cname in ("ra", "dec", "w"):
                f.create_dataset(cname, data=df[cname].to_numpy())
            f.create_dataset("z", data=df["z"].to_numpy()[:-2])
        cases["unequal_length_hdf5"] = lambda p, W=W, h5=h5: yaw.Catalog.from_file(p, h5, **cols, patch_centers=pipeline.centres(yaw, False), max_workers=W, chunksize=2)
        # a column LONGER than the others, with a chunk size that divides the length of the shorter ones (no chunk slice
        # ever straddles the end of the short columns)
        for cs in (2, 3, 6):
            for longcol in ("z", "w", "dec"):
                h5l = root / f"longer{W}_{cs}_{longcol}.hdf5"
                with h5py.File(h5l, "w") as f:
                    for cname in ("ra", "dec", "w", "z"):
                        col = df[cname].to_numpy()
                        f.create_dataset(cname, data=np.concatenate([col, col[:3]]) if cname == longcol else col)
                cases[f"unequal_length_hdf5_longer_{longcol}_chunksize_divides#{cs}"] = (
                    lambda p, W=W, h5l=h5l, cs=cs: yaw.Catalog.from_file(p, h5l, **cols, patch_centers=pipeline.centres(yaw, False), max_workers=W, chunksize=cs))
        cases["too_many_centres"] = lambda p, W=W: yaw.Catalog.from_dataframe(
            p, df, **cols, patch_centers=yaw.AngularCoordinates(np.zeros((40000, 2))), max_workers=W)
        for name, fn in cases.items():
            path = root / f"pp_{name.replace('#', '_')}_{W}"
            name = name.split("#")[0]
            s, outcome = detrt.run_main(lambda: fn(path) and None, seed=1)
            ctx.evaluated(1, ("pre", name, W))
            if outcome[0] == "ok":
                ctx.violation(f"C09|{variant}|fault={name}|path_ok|returns_catalog_despite_fault", dict(case=name, W=W))
            elif outcome[0] == "deadlock":
                ctx.violation(f"C09|{variant}|fault={name}|path_ok|hangs", dict(case=name, W=W, waiting=str(outcome[1])))
            if path.exists():
                try:
                    yaw.Catalog(path, max_workers=1)
                    ctx.violation(f"C09|{variant}|fault={name}|path_ok|failed_creation_leaves_openable_catalog", dict(case=name, W=W))
                except Exception:  # noqa: BLE001
                    pass
