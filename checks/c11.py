"""C11 - every persisted product reads back equal to what was written.

Spec      : spec/Persist.tla.  One TLC run per product kind (hdf: CorrFunc through
            HDF5, cfg: Configuration through YAML, txt: CorrData/RedshiftData/HistData
            through .dat/.smp/.cov, meta: patch Metadata through YAML, cat: Catalog
            through its cache directory).  TLC enumerates the structural case space,
            steps every case through the write and read actions of the code and
            prints, per terminal state, the objects written, the abstract file, the
            abstract read-back object, the outcome class and the text precision.
spec->code: every printed behaviour is replayed on the real library: the real object
            is built from the abstract content (value classes -> concrete floats),
            written (all objects of the behaviour to the same path), the real file is
            projected to the abstract file and compared (drift), then read back; the
            oracle compares the real read-back object with the real original
            (member-wise, NaN-aware, bit-exact; text files to the precision the spec
            computes from the fixed-width format) and the downstream results.
deviations: every named deviation must give a TLC counterexample, which is looked up
            in the enumerated cases and replayed on the real code.
conformance: the model with the deviations the code showed when this check was written
            (AS_IMPLEMENTED) is run over the same cases; its per-case verdict is compared
            with the real code's (evidence only: as_implemented_model_vs_code).
binding   : a corrupted abstract file must be rejected by the projection comparison
            and a file tampered with between write and read must be flagged by the
            oracle.
"""

from __future__ import annotations

import json
import math
import random
import warnings
from concurrent.futures import ThreadPoolExecutor
from pathlib import Path

import numpy as np

from harness import data, tlc
from harness.yawenv import scratch

INVS = ["TypeOK", "RoundTrip", "PrintDone"]

ACTIONS = {
    "hdf": ["HdfOpenW", "HdfWriteMember", "HdfCloseW", "HdfOpenR", "HdfLoadMember", "HdfConstruct"],
    "cfg": ["CfgCreate", "CfgModify", "CfgToDict", "CfgYamlDump", "CfgYamlLoad", "CfgFromDict"],
    "txt": ["TxtWriteDat", "TxtWriteSmp", "TxtWriteCov", "TxtLoadDat", "TxtLoadSmp", "TxtConstruct"],
    "meta": ["MetaToDict", "MetaYamlDump", "MetaYamlLoad", "MetaFromDict"],
    "cat": ["CatWriteData", "CatComputeMeta", "CatReadIds", "CatLoadPatches"],
}

# deviation -> (kind, needs Overwrite); every one must yield a RoundTrip counterexample
DEVIATIONS = {
    "SparseBySum": ("hdf", False),
    "SkipAllZeroMember": ("hdf", False),
    "NoTruncate": ("hdf", True),
    "NamesZippedWithPresent": ("hdf", False),
    "CustomDictHasGenKeys": ("cfg", False),
    "EndpointsInexact": ("cfg", False),
    "ModifyDropsCosmology": ("cfg", False),
    "ClosedDroppedOnRegenerate": ("cfg", False),
    "BinningIgnoresCosmology": ("cfg", False),
    "LoadtxtSqueeze": ("txt", False),
    "ClosedTagLost": ("txt", False),
    "ReadsErrorColumn": ("txt", False),
    "SumWeightsAsInt": ("meta", False),
    "OpenRecomputesMeta": ("cat", False),
    "IdsFileDropsLast": ("cat", False),
}
# deviations the real code showed when this check was written (conformance run: the model with
# these deviations is compared case by case with the real code; informational, never a verdict)
AS_IMPLEMENTED = {
    "hdf": ["NamesZippedWithPresent"],
    "cfg": ["CustomDictHasGenKeys", "EndpointsInexact", "ModifyDropsCosmology", "ModifyCustomRaises"],
    "txt": ["LoadtxtSqueeze"],
}

# the kind of finding the real code would show if it had the deviation
DEV_SIGNATURE = {
    "SparseBySum": "counts_differ", "SkipAllZeroMember": "members_differ", "NoTruncate": "CorrFunc",
    "NamesZippedWithPresent": "members_differ", "CustomDictHasGenKeys": "method=custom", "EndpointsInexact": "edges_drift",
    "ModifyDropsCosmology": "edges_differ", "ClosedDroppedOnRegenerate": "closed_differs", "BinningIgnoresCosmology": "edges_differ",
    "LoadtxtSqueeze": "num_bins=1", "ClosedTagLost": "closed_differs", "ReadsErrorColumn": "value_differs",
    "SumWeightsAsInt": "sum_weights_differs", "OpenRecomputesMeta": "center", "IdsFileDropsLast": "patch_ids_differ",
}
# deviation that changes the model's outcome class but not the property (the property
# says nothing about Configuration.modify failing): must still pass TLC
BENIGN = {"ModifyCustomRaises": "cfg"}


def consts(kind, *, dev="{}", bins=2, patches=2, samples=2, rich=False, overwrite=False):
    return dict(Kind=f'"{kind}"', Deviations=dev, MaxBins=bins, MaxPatches=patches, MaxSamples=samples,
                Rich="TRUE" if rich else "FALSE", Overwrite="TRUE" if overwrite else "FALSE")


def initial_states(res) -> int:
    import re

    m = re.search(r"Finished computing initial states: (\d+) distinct state", res.out)
    return int(m.group(1)) if m else -1


def tlc_job(kind, c, invariants=INVS, coverage=True):
    cfg = tlc.make_cfg(constants=c, invariants=invariants, properties=["Termination"] if coverage else [])
    return tlc.run("Persist", cfg, coverage=coverage, workers=2, heap="3g")


# ---- abstract values as printed by TLC (sets may arrive as lists from JSON) ----


def jsonable(v):
    if isinstance(v, (frozenset, set)):
        return sorted((jsonable(x) for x in v), key=repr)
    if isinstance(v, (tuple, list)):
        return [jsonable(x) for x in v]
    if isinstance(v, dict):
        return {str(k): jsonable(x) for k, x in v.items()}
    return v


def okey(objs) -> str:
    return json.dumps(jsonable(objs), sort_keys=True)


class Case:
    """One terminal state of Persist: (objs, projection, got, outcome, precision, contents)."""

    def __init__(self, kind, tup):
        self.kind = kind
        self.objs = [dict(o) for o in tup[0]]
        self.proj, self.got, self.outcome, self.prec = tup[1], tup[2], tup[3], tup[4]
        self.contents = tup[5] if len(tup) > 5 else None
        self.holds = bool(tup[6]) if len(tup) > 6 else True

    @property
    def obj(self):
        return self.objs[-1]

    def to_json(self):
        return dict(kind=self.kind, case=jsonable([self.objs, self.proj, self.got, self.outcome, self.prec, self.contents, self.holds]))

    @classmethod
    def from_json(cls, d):
        return cls(d["kind"], d["case"])

    def brief(self):
        return dict(kind=self.kind, objs=jsonable(self.objs), expected_outcome=self.outcome)


class Finding:
    def __init__(self, key, **detail):
        self.key, self.detail = key, detail


def exc_name(e):
    return type(e).__name__


def same_float(a, b) -> bool:
    a, b = float(a), float(b)
    return (math.isnan(a) and math.isnan(b)) or a == b


def arr_eq(a, b) -> bool:
    a, b = np.asarray(a), np.asarray(b)
    return a.shape == b.shape and bool(np.array_equal(a, b, equal_nan=True))


def quiet():
    cm = warnings.catch_warnings()
    cm.__enter__()
    warnings.simplefilter("ignore")
    return cm


# =========================================================================
# hdf: CorrFunc
# =========================================================================

MEMBERS = ("dd", "dr", "rd", "rr")
H5NAME = dict(dd="data_data", dr="data_random", rd="random_data", rr="random_random")


def hdf_value(code, k, b, i, j, jitter):
    base = 1.5 + b + 0.25 * i + 0.0625 * j + 8.0 * MEMBERS.index(k) + jitter
    if code == 1:
        return base
    if code == 2:  # exact negative of the code-1 value in bin 1 of the same pair
        return -(1.5 + 1 + 0.25 * i + 0.0625 * j + 8.0 * MEMBERS.index(k) + jitter)
    return {3: np.nan, 4: np.inf, 5: -(base + 10.0), 6: -np.inf}[code]


def hdf_class(nz) -> str:
    codes = {t[3] for t in nz}
    if not codes:
        return "zero"
    if codes & {3, 4, 6}:
        return "nonfinite"
    if codes & {2, 5}:
        return "negative"
    return "positive"


def hdf_build(yaw, content, o, jitter=0.0):
    from yaw.correlation.paircounts import NormalisedCounts, PatchedCounts, PatchedSumWeights

    nb, npatch, auto = o["nb"], o["np"], bool(o["auto"])
    edges = 0.1 + 0.9 * (np.arange(nb + 1) / nb) ** 1.5
    binning = yaw.Binning(edges, closed="left" if nb % 2 else "right")
    kw = {}
    for k in MEMBERS:
        m = content[k]
        if not m["present"]:
            continue
        c = np.zeros((nb, npatch, npatch))
        for b, i, j, code in m["nz"]:
            c[b - 1, i - 1, j - 1] = hdf_value(code, k, b, i, j, jitter)
        sw1 = 10.0 + np.arange(nb)[:, None] + 0.5 * np.arange(npatch)[None, :] + MEMBERS.index(k)
        sw2 = 2.0 * sw1 + 1.25
        cls = m["sw"]
        if cls == "zero":
            sw1, sw2 = np.zeros_like(sw1), np.zeros_like(sw2)
        elif cls == "nan":
            sw1[0, 0] = np.nan
        elif cls == "inf":
            sw2[-1, -1] = np.inf
        kw[k] = NormalisedCounts(PatchedCounts(binning, c, auto=auto), PatchedSumWeights(binning, sw1, sw2, auto=auto))
    return yaw.CorrFunc(**kw)


def hdf_project(path) -> dict:
    import h5py

    out = {}
    with h5py.File(str(path)) as f:
        for k in MEMBERS:
            if H5NAME[k] in f:
                pp = f[H5NAME[k]]["counts"]["patch_pairs"][:]
                out[k] = dict(present=True, pairs={(int(a) + 1, int(b) + 1) for a, b in pp})
            else:
                out[k] = dict(present=False, pairs=set())
    return out


def hdf_proj_diff(real, proj) -> list:
    diffs = []
    for k in MEMBERS:
        want = dict(present=bool(proj[k]["present"]), pairs={tuple(p) for p in proj[k]["pairs"]})
        if real[k] != want:
            diffs.append(k)
    return diffs


def hdf_sample(cf):
    cm = quiet()
    try:
        with np.errstate(all="ignore"):
            s = cf.sample()
        return ("ok", s.data, s.samples)
    except Exception as e:  # noqa: BLE001 - the outcome class is compared, never ignored
        return ("raises", exc_name(e), None)
    finally:
        cm.__exit__(None, None, None)


def run_hdf(yaw, root, case, rng, tamper=None, deep=False):
    findings, drift = [], []
    path = root / "cf.hdf"
    jitter = rng.random() * 1e-3
    x = None
    for content, o in zip(case.contents, case.objs):
        x = hdf_build(yaw, content, o, jitter)
        try:
            x.to_file(path)
        except Exception as e:  # noqa: BLE001
            return [Finding(f"C11|CorrFunc.to_file|counts:{hdf_class(content['dd']['nz'])}|raises_{exc_name(e)}", error=repr(e))], drift
    content = case.contents[-1]
    d = hdf_proj_diff(hdf_project(path), case.proj)
    if d:
        drift.append(("C11|hdf_file_layout_differs_from_model", dict(members=d)))
    if tamper:
        tamper(path)
    try:
        y = yaw.CorrFunc.from_file(path)
    except Exception as e:  # noqa: BLE001
        return [Finding(f"C11|CorrFunc.from_file|members={'+'.join(sorted(x.to_dict()))}|raises_{exc_name(e)}", error=repr(e))], drift
    mx, my = set(x.to_dict()), set(y.to_dict())
    if mx != my:
        present = [k in mx for k in MEMBERS]
        gap = any(present[n] and not all(present[:n]) for n in range(len(MEMBERS)))
        zero = [k for k in mx - my if hdf_class(content[k]["nz"]) == "zero"]
        cls = "member_absent_before_a_present_one" if gap else ("all_zero_member" if zero else "members")
        return [Finding(f"C11|CorrFunc.hdf|{cls}|members_differ", written=sorted(mx), read=sorted(my))], drift
    for k in sorted(mx & my):
        a, b = getattr(x, k), getattr(y, k)
        cls = hdf_class(content[k]["nz"])
        if not arr_eq(a.counts.counts, b.counts.counts):
            bad = np.argwhere(~((a.counts.counts == b.counts.counts) | (np.isnan(a.counts.counts) & np.isnan(b.counts.counts))))
            findings.append(Finding(f"C11|CorrFunc.hdf|counts:{cls}|counts_differ", member=k, first_cell=bad[:1].tolist(),
                                    written=repr(a.counts.counts.tolist()), read=repr(b.counts.counts.tolist())))
        if b.counts.counts.dtype != np.float64:
            findings.append(Finding("C11|CorrFunc.hdf|counts|dtype_differs", member=k, dtype=str(b.counts.counts.dtype)))
        if not (arr_eq(a.sum_weights.sum_weights1, b.sum_weights.sum_weights1) and arr_eq(a.sum_weights.sum_weights2, b.sum_weights.sum_weights2)):
            findings.append(Finding(f"C11|CorrFunc.hdf|sum_weights:{content[k]['sw']}|sum_weights_differ", member=k))
        for pa, pb, name in ((a.counts, b.counts, "counts"), (a.sum_weights, b.sum_weights, "sum_weights")):
            if bool(pa.auto) != bool(pb.auto):
                findings.append(Finding("C11|CorrFunc.hdf|auto|auto_differs", member=k, part=name))
            if not (np.array_equal(pa.binning.edges, pb.binning.edges) and str(pa.binning.closed) == str(pb.binning.closed)):
                findings.append(Finding("C11|CorrFunc.hdf|binning|binning_differs", member=k, part=name))
    if not findings:
        try:
            if (x == x) is True and (x == y) is not True:
                findings.append(Finding("C11|CorrFunc.hdf|==|eq_false_although_members_equal"))
        except Exception as e:  # noqa: BLE001
            findings.append(Finding(f"C11|CorrFunc.__eq__|roundtrip|raises_{exc_name(e)}", error=repr(e)))
        sx, sy = hdf_sample(x), hdf_sample(y)
        if sx[0] != sy[0] or (sx[0] == "raises" and sx[1] != sy[1]) or (sx[0] == "ok" and not (arr_eq(sx[1], sy[1]) and arr_eq(sx[2], sy[2]))):
            findings.append(Finding("C11|CorrFunc.hdf|sample()|downstream_differs", original=str(sx[:2]), read=str(sy[:2])))
    if deep or rng.random() < 0.2:
        run_hdf_parts(yaw, root, x, content, findings)
    return findings, drift


def run_hdf_parts(yaw, root, x, content, findings):
    """The containers inside a CorrFunc are HdfSerializable on their own:
    NormalisedCounts, PatchedCounts, PatchedSumWeights, Binning."""
    nc = x.dd
    cls = hdf_class(content["dd"]["nz"])
    for name, obj, same in (
        ("NormalisedCounts", nc, lambda a, b: arr_eq(a.counts.counts, b.counts.counts) and arr_eq(a.sum_weights.sum_weights1, b.sum_weights.sum_weights1)
         and arr_eq(a.sum_weights.sum_weights2, b.sum_weights.sum_weights2) and bool(a.auto) == bool(b.auto) and np.array_equal(a.binning.edges, b.binning.edges)
         and str(a.binning.closed) == str(b.binning.closed)),
        ("PatchedCounts", nc.counts, lambda a, b: arr_eq(a.counts, b.counts) and bool(a.auto) == bool(b.auto) and np.array_equal(a.binning.edges, b.binning.edges)),
        ("PatchedSumWeights", nc.sum_weights, lambda a, b: arr_eq(a.sum_weights1, b.sum_weights1) and arr_eq(a.sum_weights2, b.sum_weights2) and bool(a.auto) == bool(b.auto)),
        ("Binning", nc.binning, lambda a, b: np.array_equal(a.edges, b.edges) and str(a.closed) == str(b.closed)),
    ):
        path = root / f"{name}.hdf"
        icls = f"counts:{cls}" if "Counts" in name else (f"sum_weights:{content['dd']['sw']}" if name == "PatchedSumWeights" else f"closed={obj.closed}")
        try:
            obj.to_file(path)
            back = type(obj).from_file(path)
        except Exception as e:  # noqa: BLE001
            findings.append(Finding(f"C11|{name}.hdf|{icls}|raises_{exc_name(e)}", error=repr(e)))
            continue
        if not same(obj, back):
            findings.append(Finding(f"C11|{name}.hdf|{icls}|differs"))


def hdf_tamper(path):
    import h5py

    with h5py.File(str(path), "r+") as f:
        ds = f["data_data"]["counts"]["binned_counts"]
        v = ds[:]
        v.flat[0] = v.flat[0] + 1.0 if np.isfinite(v.flat[0]) else 0.0
        ds[...] = v


# =========================================================================
# cfg: Configuration
# =========================================================================

ZR = {1: (0.1, 1.0), 2: (0.01, 3.0), 3: (0.07, 1.42)}
SCALES = {
    "single": (100.0, 1000.0),
    "single2": (150.0, 1000.0),
    "multi": ([100.0, 500.0], [1000.0, 2000.0]),
    "overlap": ([100.0, 200.0, 400.0], [1000.0, 800.0, 5000.0]),
    "intlike": (100, 1000),
}
WT = {"none": (None, None), "rweight": (-0.8, None), "both": (1.0, 50)}


def cosmo_obj(yaw, name):
    import astropy.cosmology as ac

    # named cosmologies are passed by name: Configuration.create/modify reject every cosmology
    # *instance* (parse_cosmology: isinstance() against a ForwardRef) - not a persistence matter
    if name == "default":
        return "Planck15"
    if name == "named":
        return "WMAP9"
    if name == "unnamed":
        return ac.FlatLambdaCDM(H0=70.0, Om0=0.3)
    from yaw.cosmology import CustomCosmology

    class Mine(CustomCosmology):
        def comoving_distance(self, z):
            return ac.WMAP7.comoving_distance(z)

        def angular_diameter_distance(self, z):
            return ac.WMAP7.angular_diameter_distance(z)

    return Mine()


def cfg_params(yaw, o) -> dict:
    rmin, rmax = SCALES[o["scales"]]
    rweight, resolution = WT[o["wt"]]
    zmin, zmax = ZR[o["zr"]]
    p = dict(rmin=rmin, rmax=rmax, unit=o["unit"], rweight=rweight, resolution=resolution, closed=o["closed"],
             cosmology=cosmo_obj(yaw, o["cosmo"]), max_workers=4 if o["mw"] == "set" else None)
    if o["method"] == "custom":
        p["edges"] = (zmin + (zmax - zmin) * (np.arange(o["nb"] + 1) / o["nb"]) ** 1.5).tolist()
    else:
        p.update(zmin=zmin, zmax=zmax, num_bins=o["nb"], method=o["method"])
    return p


def cfg_build(yaw, o):
    """Returns ("ok", config) or ("source_rejected", exception)."""
    cm = quiet()
    try:
        try:
            x = yaw.Configuration.create(**cfg_params(yaw, o))
        except Exception as e:  # noqa: BLE001 - no object, nothing to persist (recorded as drift by the caller)
            return "source_rejected", e
        if o["src"] == "modify":
            d = o["delta"]
            try:
                if d == "rmin":
                    x = x.modify(rmin=SCALES["single2"][0])
                elif d == "closed":
                    x = x.modify(closed="left" if o["closed"] == "right" else "right")
                elif d == "cosmology":
                    x = x.modify(cosmology=cosmo_obj(yaw, "named" if o["cosmo"] == "default" else "default"))
                elif d == "num_bins":
                    x = x.modify(num_bins=3 if o["nb"] == 1 else 1)
            except Exception as e:  # noqa: BLE001 - modify is C15's business; no object, nothing to persist
                return "source_rejected", e
        return "ok", x
    finally:
        cm.__exit__(None, None, None)


def cfg_class(o) -> str:
    src = "created" if o["src"] == "create" else f"modified({o['delta']})"
    cls = f"{src}:method={o['method']}"
    if o["method"] == "comoving" and o["cosmo"] != "default":
        cls += f",cosmology={o['cosmo']}"
    return cls


def cfg_proj_diff(path, proj) -> list:
    import yaml

    d = yaml.safe_load(Path(path).read_text())
    b = d["binning"]
    diffs = []
    if b["method"] != proj["method"]:
        diffs.append("method")
    if b["closed"] != proj["closed"]:
        diffs.append("closed")
    if (b["edges"] is None) != (tuple(proj["edges"]) == (0, 0)):
        diffs.append("edges")
    if (b["zmin"] is None) != (tuple(proj["zmin"]) == (0, 0)) or (b["num_bins"] or 0) != proj["n"]:
        diffs.append("zmin/num_bins")
    if d["scales"]["unit"] != proj["unit"]:
        diffs.append("unit")
    if (d["cosmology"] == "Planck15") != (proj["cosmo"] == "default"):
        diffs.append("cosmology")
    if (d["max_workers"] is None) != (proj["mw"] == "none"):
        diffs.append("max_workers")
    return diffs


def run_cfg(yaw, root, case, rng, tamper=None):
    from yaw.cosmology import cosmology_is_equal

    findings, drift = [], []
    path = root / "config.yml"
    o = case.obj
    cls = cfg_class(o)
    x = None
    for ob in case.objs:
        st, x = cfg_build(yaw, ob)
        if st != "ok":
            if case.outcome != "source_rejected":
                drift.append(("C11|cfg_source_not_constructible", dict(obj=ob, error=repr(x))))
            return findings, drift
        try:
            x.to_file(path)
        except Exception as e:  # noqa: BLE001
            if ob["cosmo"] in ("custom", "unnamed") and exc_name(e) == "ConfigError":
                return findings, drift  # refused loudly: the property leaves this open
            return [Finding(f"C11|Configuration.to_file|{cfg_class(ob)}|raises_{exc_name(e)}", error=repr(e))], drift
    if case.outcome == "ok":
        d = cfg_proj_diff(path, case.proj)
        if d:
            drift.append(("C11|cfg_yaml_differs_from_model", dict(fields=d, obj=o)))
    elif case.outcome == "source_rejected":
        drift.append(("C11|cfg_model_rejects_source_but_code_builds_it", dict(obj=o)))
    if tamper:
        tamper(path)
    # dict level (BinningConfig.to_dict / from_dict)
    try:
        from yaw.config import BinningConfig

        b2 = BinningConfig.from_dict(x.binning.to_dict(), cosmology=x.cosmology)
        if not np.array_equal(b2.edges, x.binning.edges) and o["method"] not in ("comoving", "logspace"):
            findings.append(Finding(f"C11|BinningConfig.from_dict|{cls}|edges_differ"))
    except Exception as e:  # noqa: BLE001
        findings.append(Finding(f"C11|BinningConfig.from_dict|method={o['method']}|raises_{exc_name(e)}", error=repr(e)))
    cm = quiet()
    try:
        y = yaw.Configuration.from_file(path)
    except Exception as e:  # noqa: BLE001
        findings.append(Finding(f"C11|Configuration.from_file|method={o['method']}|raises_{exc_name(e)}", error=repr(e), file=path.read_text()))
        return findings, drift
    finally:
        cm.__exit__(None, None, None)
    ex, ey = x.binning.edges, y.binning.edges
    if not (ex.shape == ey.shape and np.array_equal(ex, ey)):
        if ex.shape == ey.shape and float(np.max(np.abs(ex - ey) / np.maximum(np.abs(ex), 1e-300))) <= 1e-6:
            what, icls = "edges_drift", f"method={o['method']}"  # regeneration noise: one class per generator
        else:
            what, icls = "edges_differ", cls
        findings.append(Finding(f"C11|Configuration.yaml|{icls}|{what}", written=ex.tolist(), read=ey.tolist(),
                                max_abs_diff=float(np.max(np.abs(ex - ey))) if ex.shape == ey.shape else None))
    if str(x.binning.closed) != str(y.binning.closed):
        ecls = "custom_edges" if o["method"] == "custom" else "generated_edges"
        findings.append(Finding(f"C11|Configuration.yaml|{ecls},closed={x.binning.closed}|closed_differs", obj=cls, read=str(y.binning.closed)))
    if str(x.binning.method) != str(y.binning.method):
        findings.append(Finding(f"C11|Configuration.yaml|{cls}|method_differs"))
    sx, sy = x.scales, y.scales
    if not (arr_eq(sx.scales.scale_min, sy.scales.scale_min) and arr_eq(sx.scales.scale_max, sy.scales.scale_max) and sx.unit == sy.unit
            and sx.rweight == sy.rweight and sx.resolution == sy.resolution and type(sx.scales) is type(sy.scales)):
        if sx.unit != sy.unit or type(sx.scales) is not type(sy.scales):
            part = f"unit={o['unit']}"
        elif sx.rweight != sy.rweight or sx.resolution != sy.resolution:
            part = "rweight/resolution"
        else:
            part = f"rmin/rmax:{o['scales']}"
        findings.append(Finding(f"C11|Configuration.yaml|{part}|scales_differ", written=sx.to_dict(), read=sy.to_dict()))
    if not cosmology_is_equal(x.cosmology, y.cosmology):
        findings.append(Finding(f"C11|Configuration.yaml|cosmology={o['cosmo']}|cosmology_differs"))
    if x.max_workers != y.max_workers:
        drift.append(("C11|cfg_max_workers_not_restored", dict(written=x.max_workers, read=y.max_workers)))
    # downstream: angles of the scales at a redshift
    if not findings:
        ax, ay = sx.scales.get_angle_radian(0.5, x.cosmology), sy.scales.get_angle_radian(0.5, y.cosmology)
        if not (arr_eq(ax[0], ay[0]) and arr_eq(ax[1], ay[1])):
            findings.append(Finding(f"C11|Configuration.yaml|unit={o['unit']}|downstream_angles_differ"))
        try:
            refl = x == x
        except Exception as e:  # noqa: BLE001
            findings.append(Finding(f"C11|Configuration.__eq__|x==from_file(to_file(x))|raises_{exc_name(e)}", error=repr(e),
                                    note="x == x raises as well: the defect is in __eq__, the written and read objects agree member-wise"))
        else:
            if refl is True and (x == y) is not True:
                findings.append(Finding(f"C11|Configuration.yaml|{cls}|eq_false_although_members_equal"))
    return findings, drift


def cfg_tamper(path):
    t = Path(path).read_text()
    t2 = t.replace("closed: left", "closed: right") if "closed: left" in t else t.replace("closed: right", "closed: left")
    t2 = t2.replace("rmax: 1000.0", "rmax: 1000.5")
    Path(path).write_text(t2)


# =========================================================================
# txt: CorrData / RedshiftData / HistData
# =========================================================================

VALUES = {
    "zero": 0.0, "small": 3.1415926535, "neg": -2.7182818284, "mid": 1234.56789012, "negmid": -4321.98765432,
    "wide": 12345678.9012, "huge": 123456789012.345, "tiny": 3.3e-9, "nan": np.nan, "pinf": np.inf, "ninf": -np.inf,
}
RANGES = {  # seeded variation inside the class (same number of integer digits, no carry)
    "small": (1.1, 9.8), "neg": (-9.8, -1.1), "mid": (1100.0, 9800.0), "negmid": (-9800.0, -1100.0),
    "wide": (1.1e7, 9.8e7), "huge": (1.1e11, 9.8e11), "tiny": (1e-10, 9e-9),
}


def txt_value(cls, rng, vary):
    if vary and cls in RANGES:
        lo, hi = RANGES[cls]
        return rng.uniform(lo, hi)
    return VALUES[cls]


def txt_build(yaw, o, rng, vary):
    nb, ns = o["nb"], o["ns"]
    edges = 0.1234567891 + 0.87654321 * (np.arange(nb + 1) / nb) ** 1.3
    binning = yaw.Binning(edges, closed=o["closed"])
    datav = np.array([0.5 + 0.111111111 * b for b in range(nb)])
    samples = np.array([[0.25 + 0.0123456789 * s + 0.111111111 * b for b in range(nb)] for s in range(ns)])
    datav[o["pos"] - 1] = txt_value(o["dcls"], rng, vary)
    samples[ns - 1, o["pos"] - 1] = txt_value(o["scls"], rng, vary)
    cls = getattr(yaw, o["cls"])
    return cls(binning, datav, samples)


def txt_shape(path):
    lines = [ln for ln in Path(path).read_text().splitlines() if ln.strip()]
    head = [ln for ln in lines if ln.startswith("#")]
    body = [ln for ln in lines if not ln.startswith("#")]
    cols = {len(ln.split()) for ln in body}
    tag = "-"
    if len(head) >= 2:
        tag = "left" if head[1].lstrip("#").strip().startswith("[") else "right"
    return len(body), (cols.pop() if len(cols) == 1 else -1), tag


def txt_proj_diff(prefix, proj) -> list:
    diffs = []
    for ext in ("dat", "smp", "cov"):
        f = Path(prefix).with_suffix("." + ext)      # where to_files puts it (also for a prefix with a dot)
        want = proj[ext]
        if not f.exists():
            if want["present"]:
                diffs.append(ext + ":missing")
            continue
        rows, cols, tag = txt_shape(f)
        if (rows, cols) != (want["rows"], want["cols"]) or (ext != "cov" and tag != want["tag"]):
            diffs.append(f"{ext}:{rows}x{cols}:{tag}")
    return diffs


def close_enough(w, r, decimals) -> bool:
    w, r = float(w), float(r)
    if math.isnan(w) or math.isnan(r):
        return math.isnan(w) and math.isnan(r)
    if math.isinf(w) or math.isinf(r):
        return w == r
    return abs(w - r) <= 10.0 ** (-decimals) * (1 + 1e-9) + abs(w) * 4e-16


def run_txt(yaw, root, case, rng, tamper=None, vary=False):
    findings, drift = [], []
    o = case.obj
    # every third product goes to a prefix with a dot in its name (w_sp_z0.5, nz_0.2-0.8 ...): writer and reader must agree
    prefix = root / ("prod_z0.5" if (o["nb"] + o["ns"] + len(o["dcls"])) % 3 == 0 else "prod")
    cm = quiet()
    try:
        x = None
        for ob in case.objs:
            x = txt_build(yaw, ob, rng, vary)
            try:
                with np.errstate(all="ignore"):
                    x.to_files(prefix)
            except Exception as e:  # noqa: BLE001
                return [Finding(f"C11|{ob['cls']}.to_files|value={ob['dcls']}/{ob['scls']}|raises_{exc_name(e)}", error=repr(e))], drift
        d = txt_proj_diff(prefix, case.proj)
        if d:
            drift.append(("C11|txt_files_differ_from_model", dict(files=d, obj=o)))
        if tamper:
            tamper(prefix)
        cls = getattr(yaw, o["cls"])
        try:
            y = cls.from_files(prefix)
        except Exception as e:  # noqa: BLE001
            icls = "num_bins=1" if o["nb"] == 1 else f"num_bins>1,value={o['dcls']}/{o['scls']}"
            return [Finding(f"C11|{o['cls']}.from_files|{icls}|raises_{exc_name(e)}", error=repr(e), dat=(Path(prefix).with_suffix(".dat").read_text() if Path(prefix).with_suffix(".dat").exists() else None))], drift
    finally:
        cm.__exit__(None, None, None)
    ep = f"C11|{o['cls']}.txt"
    if type(y) is not type(x):
        findings.append(Finding(f"{ep}|type|type_differs", read=type(y).__name__))
    if y.num_bins != x.num_bins or np.shape(y.samples) != np.shape(x.samples) or np.shape(y.data) != np.shape(x.data):
        findings.append(Finding(f"{ep}|num_bins={o['nb']},num_samples={o['ns']}|shape_differs", written=[list(np.shape(x.data)), list(np.shape(x.samples))],
                                read=[list(np.shape(y.data)), list(np.shape(y.samples))]))
        return findings, drift
    if str(y.binning.closed) != str(x.binning.closed):
        findings.append(Finding(f"{ep}|closed={o['closed']}|closed_differs", read=str(y.binning.closed)))
    if not all(close_enough(w, r, case.prec["e"]) for w, r in zip(x.binning.edges, y.binning.edges)):
        findings.append(Finding(f"{ep}|edges|edges_differ_beyond_format_precision", written=x.binning.edges.tolist(), read=y.binning.edges.tolist()))
    for b in range(o["nb"]):
        dec = case.prec["d"] if b == o["pos"] - 1 else 7
        if not close_enough(x.data[b], y.data[b], dec):
            vc = o["dcls"] if b == o["pos"] - 1 else "small"
            findings.append(Finding(f"{ep}|data:{vc}|value_differs_beyond_format_precision", bin=b, written=float(x.data[b]), read=float(y.data[b]), decimals=dec))
        for s in range(o["ns"]):
            special = b == o["pos"] - 1 and s == o["ns"] - 1
            dec = case.prec["s"] if special else 7
            if not close_enough(x.samples[s, b], y.samples[s, b], dec):
                vc = o["scls"] if special else "small"
                findings.append(Finding(f"{ep}|samples:{vc}|value_differs_beyond_format_precision", bin=b, sample=s,
                                        written=float(x.samples[s, b]), read=float(y.samples[s, b]), decimals=dec))
    # a second generation should be a fixed point of the format (recorded as drift only)
    if not findings:
        cm = quiet()
        try:
            with np.errstate(all="ignore"):
                y.to_files(root / "prod2")
            z = type(y).from_files(root / "prod2")
            if not (arr_eq(z.data, y.data) and arr_eq(z.samples, y.samples) and np.array_equal(z.binning.edges, y.binning.edges)):
                drift.append(("C11|txt_second_generation_not_a_fixed_point", dict(obj=o)))  # more than the property states
        except Exception as e:  # noqa: BLE001
            findings.append(Finding(f"{ep}|reread|raises_{exc_name(e)}", error=repr(e)))
        finally:
            cm.__exit__(None, None, None)
    return findings, drift


def txt_tamper(prefix):
    f = Path(prefix).with_suffix(".dat")
    lines = f.read_text().splitlines()
    i = max(k for k, ln in enumerate(lines) if not ln.startswith("#"))
    cols = lines[i].split()
    cols[2] = " 0.7654321"
    lines[i] = " ".join(cols)
    f.write_text("\n".join(lines) + "\n")


# =========================================================================
# meta: patch Metadata
# =========================================================================

META_VALUES = dict(
    nrec=dict(zero=0, one=1, big=2**40 + 3),
    sw=dict(intval=7.0, frac=0.1 + 0.2, tinyf=5e-324, hugef=1.7976931348623157e308, zero=0.0, nan=math.nan, inf=math.inf),
    ra=dict(zero=0.0, mid=3.3000000000000003, max=float(np.nextafter(2 * np.pi, 0.0))),
    dec=dict(south=-np.pi / 2, zero=0.0, north=np.pi / 2),
    rad=dict(zero=0.0, small=1e-3 / 3.0, pi=np.pi),
)


def meta_build(yaw, o):
    from yaw.catalog.patch import Metadata
    from yaw.coordinates import AngularCoordinates, AngularDistances

    v = {k: META_VALUES[k][o[k]] for k in META_VALUES}
    return Metadata(num_records=v["nrec"], sum_weights=v["sw"], center=AngularCoordinates([v["ra"], v["dec"]]), radius=AngularDistances(v["rad"]))


def meta_digest(m):
    return dict(num_records=(type(m.num_records).__name__ if not isinstance(m.num_records, (int, np.integer)) else "int", int(m.num_records)),
                sum_weights=float(m.sum_weights).hex(), center=[float(v).hex() for v in np.ravel(m.center.data)],
                radius=[float(v).hex() for v in np.ravel(m.radius.data)])


def run_meta(yaw, root, case, rng, tamper=None):
    import yaml
    from yaw.catalog.patch import Metadata

    findings, drift = [], []
    path = root / "meta.yml"
    o = case.obj
    x = None
    for ob in case.objs:
        x = meta_build(yaw, ob)
        try:
            x.to_file(path)
        except Exception as e:  # noqa: BLE001
            return [Finding(f"C11|Metadata.to_file|sum_weights={ob['sw']}|raises_{exc_name(e)}", error=repr(e))], drift
    d = yaml.safe_load(path.read_text())
    if set(d) != {"num_records", "sum_weights", "center", "radius"}:
        drift.append(("C11|meta_yaml_differs_from_model", dict(keys=sorted(d))))
    if tamper:
        tamper(path)
    try:
        y = Metadata.from_file(path)
    except Exception as e:  # noqa: BLE001
        return [Finding(f"C11|Metadata.from_file|sum_weights={o['sw']}|raises_{exc_name(e)}", error=repr(e), file=path.read_text())], drift
    dx, dy = meta_digest(x), meta_digest(y)
    for field, icls in (("num_records", o["nrec"]), ("sum_weights", o["sw"]), ("center", "any"), ("radius", o["rad"])):
        if dx[field] != dy[field]:
            findings.append(Finding(f"C11|Metadata.yaml|{field}={icls}|{field}_differs", written=str(dx[field]), read=str(dy[field])))
    return findings, drift


def meta_tamper(path):
    t = Path(path).read_text().splitlines()
    t = [("num_records: 99" if ln.startswith("num_records") else ln) for ln in t]
    Path(path).write_text("\n".join(t) + "\n")


# =========================================================================
# cat: Catalog cache directory
# =========================================================================


def cat_ids(o):
    return [k if o["ids"] == "contig" else 2 * k for k in range(o["np"])]


def cat_create(yaw, path, o, seed):
    npatch = o["np"]
    df = data.frame(seed, 12 + 5 * npatch, npatch, weights=bool(o["w"]), redshifts=bool(o["z"]))
    ids = cat_ids(o)
    df["pid"] = df["pid"].map(lambda k: ids[int(k)])
    centers = data.centers_grid(npatch)
    if o["mode"] == "centers":
        cat = data.make_catalog(path, df, centers)
    else:
        cat = data.make_catalog(path, df, None, patch_name="pid")
    return df, centers, cat


def patch_digest(patch):
    d = meta_digest(patch.meta)
    d["data"] = patch.load_data().tobytes().hex()
    d["w"], d["z"] = bool(patch.has_weights), bool(patch.has_redshifts)
    return d


def run_cat(yaw, root, case, rng, tamper=None):
    findings, drift = [], []
    path = root / "cat"
    o = case.obj
    cls = f"{o['mode']},ids={o['ids']}"
    df = centers = c1 = None
    for n, ob in enumerate(case.objs):
        try:
            df, centers, c1 = cat_create(yaw, path, ob, 7 + n)
        except Exception as e:  # noqa: BLE001
            drift.append(("C11|cat_source_not_constructible", dict(obj=ob, error=repr(e))))
            return findings, drift
    want_ids = sorted(int(i) for i in case.proj["ids"])
    real_ids = sorted(np.fromfile(path / "patch_ids.bin", dtype=np.int16).tolist())
    metas = sorted(int(p.parent.name.split("_")[1]) for p in path.glob("patch_*/meta.yml"))
    if real_ids != want_ids or metas != sorted(int(i) for i in case.proj["hasmeta"]):
        drift.append(("C11|cat_directory_differs_from_model", dict(ids=real_ids, metas=metas, obj=o)))
    before = {int(k): patch_digest(p) for k, p in c1.items()}
    if tamper:
        tamper(path)
    try:
        c2 = yaw.Catalog(path, max_workers=1)
    except Exception as e:  # noqa: BLE001
        return [Finding(f"C11|Catalog.cache|{cls}|raises_{exc_name(e)}", error=repr(e))], drift
    after = {int(k): patch_digest(p) for k, p in c2.items()}
    if list(after) != list(before) or [int(k) for k in c2.keys()] != cat_ids(o):
        findings.append(Finding(f"C11|Catalog.cache|{cls}|patch_ids_differ", created=list(before), reopened=list(after)))
        return findings, drift
    for k in before:
        for field in before[k]:
            if before[k][field] != after[k][field]:
                findings.append(Finding(f"C11|Catalog.cache|{cls}|{field}_differs", patch=k, created=str(before[k][field])[:200], reopened=str(after[k][field])[:200]))
    if bool(c2.has_weights) != bool(o["w"]) or bool(c2.has_redshifts) != bool(o["z"]):
        findings.append(Finding(f"C11|Catalog.cache|{cls}|columns_differ"))
    # what was written = the input records: every one must be in the reopened catalog
    cols = ["ra", "dec"] + (["w"] if o["w"] else []) + (["z"] if o["z"] else [])
    want = df[cols].to_numpy(dtype=float).copy()
    want[:, :2] = np.deg2rad(want[:, :2])
    got = []
    for k, p in c2.items():
        rec = p.load_data()
        got.append(np.column_stack([rec[name] for name in rec.dtype.names]))
        if o["mode"] == "column":
            sel = want[df["pid"].to_numpy() == k]
            if sel.shape != got[-1].shape or not np.allclose(np.sort(sel, axis=0), np.sort(got[-1], axis=0), rtol=0, atol=1e-12):
                findings.append(Finding(f"C11|Catalog.cache|{cls}|records_differ_from_input", patch=int(k)))
    got = np.concatenate(got)
    if got.shape != want.shape or not np.allclose(np.sort(got, axis=0), np.sort(want, axis=0), rtol=0, atol=1e-12):
        findings.append(Finding(f"C11|Catalog.cache|{cls}|records_differ_from_input"))
    ctr = case.got["ctr"] if isinstance(case.got, dict) and "ctr" in case.got else None
    if ctr == "given" and not np.array_equal(c2.get_centers().data, centers.data):
        findings.append(Finding(f"C11|Catalog.cache|{cls}|centers_differ_from_given"))
    return findings, drift


def cat_tamper(path):
    f = sorted(Path(path).glob("patch_*/meta.yml"))[0]
    t = [("sum_weights: 1.0" if ln.startswith("sum_weights") else ln) for ln in f.read_text().splitlines()]
    f.write_text("\n".join(t) + "\n")


RUNNERS = dict(hdf=run_hdf, cfg=run_cfg, txt=run_txt, meta=run_meta, cat=run_cat)
TAMPER = dict(hdf=hdf_tamper, cfg=cfg_tamper, txt=txt_tamper, meta=meta_tamper, cat=cat_tamper)


# =========================================================================
# orchestration
# =========================================================================


def plan(quick: bool):
    if quick:
        ideal = dict(hdf=dict(bins=2, patches=2), cfg={}, txt=dict(bins=3, samples=2), meta={}, cat=dict(patches=3))
        over = dict(hdf=dict(bins=2, patches=1), txt=dict(bins=2, samples=1), cat=dict(patches=2))
    else:
        ideal = dict(hdf=dict(bins=3, patches=3, rich=True), cfg=dict(rich=True), txt=dict(bins=3, samples=3, rich=True), meta={}, cat=dict(patches=3))
        over = dict(hdf=dict(bins=2, patches=2), cfg={}, txt=dict(bins=2, samples=2), meta={}, cat=dict(patches=3))
    dev = dict(hdf=dict(bins=2, patches=1), cfg={}, txt=dict(bins=2, samples=1), meta={}, cat=dict(patches=2))
    if not quick:
        dev["hdf"] = dict(bins=2, patches=2)
        dev["txt"] = dict(bins=2, samples=2)
        dev["cat"] = dict(patches=3)
    return ideal, over, dev


def report(ctx, case, findings, drift):
    if findings:  # a file layout that differs because the property fails is not drift
        drift = [d for d in drift if "differ" not in d[0]]
    for f in findings:
        ctx.violation(f.key, dict(case=case.to_json(), **f.detail))
    for key, detail in drift:
        ctx.drift(key, dict(case=case.brief(), **detail))


def replay_cases(ctx, yaw, root, kind, cases, rng, stats, **kw):
    import shutil

    import time

    runner = RUNNERS[kind]
    t0 = time.time()
    for n, case in enumerate(cases):
        sub = root / f"{kind}{n}"
        sub.mkdir()
        try:
            findings, drift = runner(yaw, sub, case, rng, **kw)
        finally:
            shutil.rmtree(sub, ignore_errors=True)
        report(ctx, case, findings, drift)
        ctx.evaluated(1, (kind, okey(case.objs)))
        ctx.validated(1)
        st = stats.setdefault(kind, dict(behaviours=0, with_findings=0, model_outcomes={}))
        st["behaviours"] += 1
        st["with_findings"] += bool(findings)
        real_bad = stats.setdefault("_real_bad", {}).setdefault(kind, {})
        real_bad[okey(case.objs)] = sorted({f.key for f in findings if "__eq__" not in f.key})
        st["model_outcomes"][case.outcome] = st["model_outcomes"].get(case.outcome, 0) + 1
    stats[kind]["replay_wall_s"] = round(stats[kind].get("replay_wall_s", 0) + time.time() - t0, 2)


def binding_demo(ctx, yaw, root, kind, cases, rng):
    """(a) corrupted abstract file must be rejected by the projection comparison;
    (b) a file tampered with between write and read must be flagged by the oracle."""
    import copy
    import shutil

    def pick(pred):
        return [c for c in cases if c.outcome == "ok" and len(c.objs) == 1 and pred(c)][:12]

    if kind == "hdf":
        cands = pick(lambda c: c.contents[0]["dd"]["present"] and hdf_class(c.contents[0]["dd"]["nz"]) == "positive" and c.obj["sw"] == "pos")
    elif kind == "cfg":
        cands = pick(lambda c: c.obj["src"] == "create" and c.obj["method"] == "linear" and c.obj["nb"] > 1 and c.obj["scales"] == "single")
    elif kind == "txt":
        cands = pick(lambda c: c.obj["nb"] >= 2 and c.obj["dcls"] == "small" and c.obj["pos"] == 1)
    elif kind == "cat":
        cands = pick(lambda c: c.obj["mode"] == "centers" and c.obj["w"])
    else:
        cands = pick(lambda c: c.obj["nrec"] == "one")
    ctx.require(bool(cands), f"no case for the binding demonstration of kind {kind}")
    out = {}
    runner = RUNNERS[kind]
    # (b) tampered file: must be flagged on a case that is clean without the tampering
    flagged, usable, case = None, 0, cands[0]
    for cand in cands:
        sub = root / f"demo_{kind}_b"
        sub.mkdir()
        try:
            clean, _ = runner(yaw, sub, cand, random.Random(1))
            shutil.rmtree(sub)
            sub.mkdir()
            findings, _ = runner(yaw, sub, cand, random.Random(1), tamper=TAMPER[kind])
        finally:
            shutil.rmtree(sub, ignore_errors=True)
        if not [f for f in clean if "__eq__" not in f.key]:
            usable += 1
            case = cand
        tampered_only = [f.key for f in findings if f.key not in {c.key for c in clean}]
        if tampered_only:
            flagged, case = tampered_only, cand
            break
    if flagged is None and usable == 0:
        out["tampered_file_flagged"] = "not demonstrable: every candidate case already fails on this tree"
    else:
        ctx.require(flagged is not None, f"binding demonstration failed: tampered {kind} file read back without a finding")
        out["tampered_file_flagged"] = flagged[:3]
    # (a) corrupted abstract file
    if kind in ("hdf", "cfg", "txt", "cat"):
        bad = copy.deepcopy(case)
        bad.proj = json.loads(json.dumps(jsonable(case.proj)))
        if kind == "hdf":
            bad.proj["dd"]["pairs"] = bad.proj["dd"]["pairs"][1:]
        elif kind == "cfg":
            bad.proj["closed"] = "left" if bad.proj["closed"] == "right" else "right"
        elif kind == "txt":
            bad.proj["dat"]["rows"] += 1
        else:
            bad.proj["ids"] = list(bad.proj["ids"]) + [31]
        sub = root / f"demo_{kind}_a"
        sub.mkdir()
        try:
            _, drift = runner(yaw, sub, bad, random.Random(1))
        finally:
            shutil.rmtree(sub, ignore_errors=True)
        ctx.require(bool(drift), f"binding demonstration failed: corrupted abstract {kind} file accepted")
        out["corrupted_model_file_rejected"] = drift[0][0]
    return out


def run_replay(ctx, yaw) -> None:
    doc = json.loads(Path(ctx.replay).read_text())
    case = Case.from_json(doc["detail"]["case"])
    with scratch("c11r_") as root:
        findings, drift = RUNNERS[case.kind](yaw, root, case, random.Random(doc.get("seed", 0)))
    report(ctx, case, findings, drift)
    ctx.evaluated(1, (case.kind, okey(case.objs)))
    ctx.validated(1)
    ctx.sample(dict(replayed=case.brief(), findings=[f.key for f in findings]))
    ctx.rule = "replay of one recorded behaviour of spec/Persist.tla on the real library"


def run(ctx) -> None:
    yaw = data.import_yaw()
    if ctx.replay:
        run_replay(ctx, yaw)
        return
    quick = ctx.quick
    rng = random.Random(ctx.seed)
    ctx.rule = ("every terminal behaviour TLC enumerates for spec/Persist.tla (one per structural case: product kind x members / "
                "parameters / shapes x value classes, optionally after a prior object was written to the same path) is replayed "
                "on the real library: build, write, project the real file onto the abstract file, read, compare with the original; "
                "distinct = (kind, objects written)")
    ctx.assume("value classes are instantiated by one concrete float each (plus a seeded variation inside the class in the "
               "thorough tier); equality inside a class is assumed uniform")
    ctx.assume("h5py, PyYAML and numpy.loadtxt/tofile are trusted to do what their call says; files are read back in the "
               "same process, same library versions")
    ctx.exhaustive = True
    ideal, over, devc = plan(quick)
    stats: dict = {}
    index: dict = {}
    pool = ThreadPoolExecutor(max_workers=5)
    try:
        jobs = []
        for kind, kw in ideal.items():
            jobs.append(("ideal", kind, None, kw, pool.submit(tlc_job, kind, consts(kind, **kw))))
        for kind, kw in over.items():
            jobs.append(("overwrite", kind, None, kw, pool.submit(tlc_job, kind, consts(kind, overwrite=True, **kw))))
        for dev, (kind, ow) in DEVIATIONS.items():
            kw = over[kind] if ow else devc[kind]
            c = consts(kind, dev='{"%s"}' % dev, overwrite=ow, **kw)
            jobs.append(("deviation", kind, dev, kw, pool.submit(tlc_job, kind, c, ["RoundTrip"], False)))
        for kind, devs in AS_IMPLEMENTED.items():
            c = consts(kind, dev="{" + ", ".join('"%s"' % d for d in devs) + "}", **ideal[kind])
            jobs.append(("as_implemented", kind, None, ideal[kind], pool.submit(tlc_job, kind, c, ["TypeOK", "PrintDone"], False)))
        for dev, kind in BENIGN.items():
            jobs.append(("benign", kind, dev, {}, pool.submit(tlc_job, kind, consts(kind, dev='{"%s"}' % dev), ["TypeOK", "RoundTrip"], False)))

        with scratch("c11_") as root:
            cex = []
            deferred = []
            as_impl = {}

            def replay_group(what, kind, cases):
                kw2 = dict(vary=True) if kind == "txt" and not quick else (dict(deep=True) if kind == "hdf" and not quick else {})
                replay_cases(ctx, yaw, root, kind, cases, rng, stats, **kw2)
                if what == "ideal":
                    ctx.extra.setdefault("binding_demonstrations", {})[kind] = binding_demo(ctx, yaw, root, kind, cases, rng)
                    for c in cases[:: max(1, len(cases) // 2)][:1]:
                        ctx.sample(dict(c.brief(), model_file=jsonable(c.proj), model_readback=jsonable(c.got)))

            for what, kind, dev, kw, fut in jobs:
                res = fut.result()
                label = f"Persist {kind} {what}" + (f" {dev}" if dev else "")
                ctx.add_tlc(label, res, constants=kw)
                if what in ("ideal", "overwrite"):
                    ctx.require(res.ok, f"{label}: ideal design violated in TLC: {res.error_kind} {res.error_name}")
                    for act in ACTIONS[kind]:
                        ctx.require(res.coverage.get(act, (0, 0))[1] > 0, f"{label}: action {act} never taken (vacuous)")
                    for k2, acts in ACTIONS.items():
                        if k2 != kind:
                            ctx.require(all(res.coverage.get(a, (0, 0))[1] == 0 for a in acts), f"{label}: action of kind {k2} taken")
                    cases = [Case(kind, t) for t in res.printed("case")]
                    ninit = initial_states(res)
                    ctx.require(len(cases) == ninit and len({okey(c.objs) for c in cases}) == ninit,
                                f"{label}: {len(cases)} terminal states printed for {ninit} initial states")
                    index.setdefault((kind, what == "overwrite"), {}).update({okey(c.objs): c for c in cases})
                    if kind == "hdf":
                        # HDF5 files are flock'ed: a TLC child forked by the pool while a file is open would
                        # inherit the descriptor for a moment -> replay hdf only after every TLC job is done
                        deferred.append((what, kind, cases))
                    else:
                        replay_group(what, kind, cases)
                elif what == "as_implemented":
                    ctx.require(res.ok, f"{label}: TLC error {res.error_kind}")
                    as_impl[kind] = {okey(t[0]): bool(t[6]) for t in res.printed("case")}
                elif what == "deviation":
                    ctx.require(not res.ok and res.error_name == "RoundTrip", f"deviation {dev} no longer yields a counterexample (stale model)")
                    cex.append((kind, dev, res.trace[-1]["state"], len(res.trace)))
                else:
                    ctx.require(res.ok, f"benign deviation {dev} violates RoundTrip")
            for what, kind, cases in deferred:
                replay_group(what, kind, cases)
            # counterexamples replayed on the real code
            dev_out = {}
            for kind, dev, state, steps in cex:
                ow = DEVIATIONS[dev][1]
                case = index.get((kind, ow), {}).get(okey(state["objs"]))
                if case is None:
                    # TLC is free in the counterexample it reports (several workers): it may lie outside the domain whose
                    # terminal states were enumerated for the replay.  The deviation was still refuted by TLC above.
                    dev_out[dev] = dict(kind=kind, trace_steps=steps, replayed=False, reason="counterexample outside the enumerated cases")
                    continue
                sub = root / f"cex_{dev}"
                sub.mkdir()
                findings, drift = RUNNERS[kind](yaw, sub, case, rng)
                ctx.validated(1)
                dev_out[dev] = dict(kind=kind, trace_steps=steps, objs=jsonable(case.objs), model_outcome_with_deviation=state["outcome"],
                                    real_code_shows_it=any(DEV_SIGNATURE[dev] in f.key for f in findings),
                                    keys=sorted({f.key for f in findings}))
            ctx.extra["deviation_counterexamples_replayed"] = dev_out
    finally:
        pool.shutdown(wait=True, cancel_futures=True)
    real_bad = stats.pop("_real_bad", {})
    conf = {}
    for kind, pred in as_impl.items():
        rb = real_bad.get(kind, {})
        both = [k for k, holds in pred.items() if not holds and rb.get(k)]
        model_only = [k for k, holds in pred.items() if not holds and k in rb and not rb[k]]
        code_only = [k for k, holds in pred.items() if holds and rb.get(k)]
        conf[kind] = dict(deviations=AS_IMPLEMENTED[kind], cases=len(pred), model_and_code_fail=len(both),
                          model_only_fails=len(model_only), code_only_fails=len(code_only),
                          sample_model_only=[json.loads(k) for k in model_only[:2]], sample_code_only=[json.loads(k) for k in code_only[:2]])
    ctx.extra["as_implemented_model_vs_code"] = conf
    ctx.extra["replayed"] = stats
