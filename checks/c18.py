"""C18 - input is consumed in bounded chunks, each record once per pass.

Spec      : spec/Reader.tla - iteration state of DataChunkReader, slice readers,
            RandomReader, ParquetReader (row-group cache), probe pass; properties
            Consecutive, Bounded, OncePerPass, NeverWholeInput, ChunkShapes,
            PassCount.  TLC explores every scenario (L, chunksize, kind, row-group
            layout, passes) up to the bounds and prints the expected request
            sequence of every scenario.
spec->code: every TLC scenario is instantiated as a real source (instrumented
            data-frame-like object, HDF5 / FITS / Parquet file with exactly those
            row groups, random generator) and run through Catalog.from_dataframe /
            from_file / from_random (sequentially and on the fake multiprocessing
            runtime); the recorded requests must equal TLC's, pass by pass.
oracle    : the C18 predicates evaluated on the recorded requests themselves.
"""

from __future__ import annotations

import random

import numpy as np

from harness import data, detrt, recsrc, tlc
from harness.yawenv import scratch

INVS = ["Consecutive", "Bounded", "OncePerPass", "NeverTwice", "NeverWholeInput", "ChunkShapes", "PassCount", "PrintDone"]


def scenarios(ctx, max_l, max_cs, max_groups):
    consts = dict(MinL=0, MaxL=max_l, MaxCS=max_cs, Kinds='{"slice", "random", "parquet"}', MaxGroups=max_groups, Deviations="{}")
    res = tlc.run("Reader", tlc.make_cfg(constants=consts, invariants=INVS, properties=["Termination"]), coverage=True)
    ctx.add_tlc(f"Reader ideal MaxL={max_l} MaxCS={max_cs} MaxGroups={max_groups}", res)
    ctx.require(res.ok, f"Reader ideal design violated: {res.error_kind} {res.error_name}")
    for act in ("StartPass", "ReadSlice", "LoadGroup", "Extract", "EndPass"):
        ctx.require(res.coverage.get(act, (0, 0))[1] > 0, f"Reader action {act} never taken")
    ideal = res.printed("done")
    # long sources: the probe of the extra pass (patch_num mode) is SPARSE relative to the chunks (records / probe size > chunksize)
    lc = dict(MinL=40, MaxL=41, MaxCS=3, Kinds='{"slice", "random"}', MaxGroups=1, Deviations="{}")
    resl = tlc.run("Reader", tlc.make_cfg(constants=lc, invariants=INVS, properties=["Termination"]))
    ctx.add_tlc("Reader ideal, long sources L=40..41 (sparse probe)", resl)
    ctx.require(resl.ok, f"Reader ideal design violated on long sources: {resl.error_kind} {resl.error_name}")
    ideal = list(ideal) + list(resl.printed("done"))
    # code as found: parquet requests whole row groups
    consts["Deviations"] = '{"RowGroupUnit"}'
    res2 = tlc.run("Reader", tlc.make_cfg(constants=consts, invariants=INVS), coverage=False)
    ctx.add_tlc("Reader deviation RowGroupUnit (parquet row group larger than chunksize)", res2)
    ctx.require(not res2.ok and res2.error_name in ("Bounded", "NeverWholeInput"), "deviation RowGroupUnit yields no counterexample (stale)")
    # expectations for the deviation (without the violated invariants)
    res3 = tlc.run("Reader", tlc.make_cfg(constants=consts, invariants=["Consecutive", "OncePerPass", "NeverTwice", "ChunkShapes", "PrintDone"]))
    ctx.add_tlc("Reader deviation RowGroupUnit: expected requests", res3)
    ctx.require(res3.ok, "RowGroupUnit breaks more than Bounded/NeverWholeInput")
    dev = {_key(p): (reqs, chunks) for p, reqs, chunks in res3.printed("done") if p["Kind"] == "parquet"}
    return ideal, dev, res2.trace[-1]["state"] if res2.trace else None


def _key(p):
    return (p["L"], p["CS"], str(p["Kind"]), tuple(p["Groups"]) if not isinstance(p["Groups"], dict) else tuple(p["Groups"][k] for k in sorted(p["Groups"])), p["Passes"])


# --- running the real library ---------------------------------------------


def split_passes(events):
    """[(a, b)] per pass; a pass starts with a request at row 0."""
    passes, whole = [], []
    for ev in events:
        if ev[0] == "whole":
            whole.append(ev[1])
        elif ev[0] == "rows":
            if ev[1] == 0 or not passes:
                passes.append([])
            passes[-1].append((ev[1], ev[2]))
    return passes, whole


def column_passes(events, column):
    """For sources that are requested column by column (HDF5, FITS): requests
    of one column."""
    return [e for e in events if e[0] != "rows" or e[3] == column]


def make_frame(L, seed):
    import pandas as pd

    rng = np.random.default_rng(seed)
    return pd.DataFrame(dict(ra=rng.uniform(10, 12, L), dec=rng.uniform(-1, 1, L), w=1.0 + np.arange(L, dtype=float),
                             z=rng.uniform(0.1, 1.0, L), pid=np.arange(L) % 2))


def run_source(yaw, source, L, CS, groups, passes, workdir, mode_kw, W, seed, prior=False):
    """Create a catalog from the given kind of source with recording wrappers;
    returns (events, outcome).  prior: a catalog already exists at the cache path and is
    replaced (overwrite=True) by the recorded creation."""
    log = recsrc.Log()
    df = make_frame(L, seed)
    cols = dict(ra_name="ra", dec_name="dec", weight_name="w", redshift_name="z")
    kw = dict(overwrite=True, chunksize=CS, max_workers=W, **mode_kw)
    cache = str(workdir / "cache")
    if prior:
        yaw.Catalog.from_dataframe(cache, make_frame(3, seed + 1), **cols, patch_name="pid", overwrite=True, max_workers=1)

    def call():
        if source == "frame":
            return yaw.Catalog.from_dataframe(cache, recsrc.RecFrame(df, log), **cols, **kw)
        if source == "hdf":
            import h5py

            path = workdir / "in.hdf5"
            with h5py.File(path, "w") as f:
                for c in df.columns:
                    f.create_dataset(c, data=df[c].to_numpy())
            with recsrc.record_hdf(log, path):
                return yaw.Catalog.from_file(cache, path, **cols, **kw)
        if source == "fits":
            from astropy.table import Table

            path = workdir / "in.fits"
            Table.from_pandas(df).write(path, overwrite=True)
            with recsrc.record_fits(log):
                return yaw.Catalog.from_file(cache, path, **cols, **kw)
        if source == "fits_hdu2":
            # the table is NOT in extension 1 (e.g. LDAC catalogs): read with the hdu option
            from astropy.io import fits as afits
            from astropy.table import Table

            path = workdir / "in.fits"
            dummy = Table(dict(ra=[0.0], dec=[0.0], w=[1.0], z=[0.5], pid=[0]))
            afits.HDUList([afits.PrimaryHDU(), afits.BinTableHDU(dummy), afits.BinTableHDU(Table.from_pandas(df))]).writeto(path, overwrite=True)
            with recsrc.record_fits(log):
                return yaw.Catalog.from_file(cache, path, **cols, **kw, hdu=2)
        if source == "parquet":
            import pyarrow as pa
            from pyarrow import parquet

            path = workdir / "in.parquet"
            table = pa.Table.from_pandas(df)
            with parquet.ParquetWriter(path, table.schema) as wr:
                pos = 0
                for g in groups:
                    wr.write_table(table.slice(pos, g), row_group_size=max(g, 1))
                    pos += g
            with recsrc.record_parquet(log):
                return yaw.Catalog.from_file(cache, path, **cols, **kw)
        if source == "random":
            gen = yaw.randoms.BoxRandoms(10, 12, -1, 1, weights=df["w"].to_numpy(), redshifts=df["z"].to_numpy(), seed=7)
            rk = {k: v for k, v in kw.items() if k != "patch_name"}
            return yaw.Catalog.from_random(cache, recsrc.RecGenerator(gen, log), L, **rk)
        raise ValueError(source)

    if W == 1:
        try:
            cat = call()
            outcome = ("ok", sum(cat.get_num_records()))
        except Exception as exc:  # noqa: BLE001
            outcome = ("raised", exc)
    else:
        s, out = detrt.run_main(lambda: sum(call().get_num_records()), seed=seed)
        outcome = out
    return log.events, outcome


def predicates(reqs_by_pass, whole, L, CS, passes_expected):
    """The C18 predicates on recorded requests; returns list of failed clause names."""
    failed = []
    if whole:
        failed.append("unsliced_access")
    if len(reqs_by_pass) != passes_expected:
        failed.append(f"passes_{len(reqs_by_pass)}_expected_{passes_expected}")
    for reqs in reqs_by_pass:
        if reqs and reqs[0][0] != 0:
            failed.append("not_from_start")
        for (a, b), (c, d) in zip(reqs, reqs[1:]):
            if c != min(b, L):
                failed.append("not_consecutive")
                break
        if any(b - a > CS for a, b in reqs):
            failed.append("request_larger_than_chunksize")
        cover = np.zeros(L + 1, dtype=int)
        for a, b in reqs:
            cover[max(a, 0) + 1 : min(b, L) + 1] += 1
        if L and (cover[1:] != 1).any():
            failed.append("record_not_exactly_once")
        if L > CS and any(a == 0 and b >= L for a, b in reqs):
            failed.append("whole_input_at_once")
    return sorted(set(failed))


def run(ctx) -> None:
    yaw = data.import_yaw()
    import yaw.randoms  # noqa: F401

    rng = random.Random(ctx.seed)
    quick = ctx.quick
    ctx.rule = ("every scenario (L, chunksize, kind, parquet row groups, passes) enumerated by TLC is instantiated as a real "
                "instrumented source and run through Catalog.from_*; non-trivial = more than one chunk or more than one row group; "
                "distinct = (source format, scenario, workers)")
    ctx.assume("requests are observed at the API boundary of the source (frame slicing, h5py.Dataset.__getitem__, FITS column slicing, "
               "ParquetFile.read_row_group/iter_batches, generator calls); memory mapping below that level is not observable")
    ideal, dev_expect, dev_state = scenarios(ctx, 6 if quick else 8, 4 if quick else 5, 3)
    ctx.exhaustive = True
    ctx.extra["tlc_deviation_counterexample"] = dev_state
    centers = yaw.AngularCoordinates(np.deg2rad([[11.0, 0.0]]))  # one centre: every record belongs to it (an empty centre is C09 business)
    todo = []
    for p, reqs, chunks in ideal:
        L, CS, kind, passes = p["L"], p["CS"], str(p["Kind"]), p["Passes"]
        if L == 0:
            continue
        groups = _key(p)[3]
        exp = [tuple(r) for r in reqs]
        if kind == "slice":
            for source in ("frame", "hdf", "fits", "fits_hdu2"):
                todo.append((source, L, CS, (), passes, exp))
        elif kind == "random":
            if passes == 1:
                todo.append(("random", L, CS, (), passes, exp))
        else:
            todo.append(("parquet", L, CS, groups, passes, exp))
    rng.shuffle(todo)
    if quick:
        # stratify: all frame scenarios, a sample of the file formats
        keep = [t for t in todo if t[0] in ("frame", "random")]
        for src, n in (("hdf", 60), ("fits", 40), ("fits_hdu2", 30), ("parquet", 150)):
            keep += [t for t in todo if t[0] == src][:n]
        todo = keep
    with scratch("c18_") as root:
        n = 0
        for source, L, CS, groups, passes, exp in todo:
            n += 1
            work = root / f"s{n}"
            work.mkdir()
            if passes == 2:
                mode_kw = dict(patch_num=1, probe_size=10)
            elif source != "random" and n % 3 == 0:
                mode_kw = dict(patch_name="pid")
            else:
                mode_kw = dict(patch_centers=centers)
            # parameters that the documented precedence (patch_centers > patch_name > patch_num) declares IGNORED must not
            # cost anything either: no extra pass, no other chunking
            if passes != 2 and n % 2 == 0:
                if "patch_name" in mode_kw:
                    mode_kw.update(patch_num=2, probe_size=10)
                elif source != "random" and n % 4 == 0:
                    mode_kw.update(patch_name="pid", patch_num=2)
                else:
                    mode_kw.update(patch_num=3, probe_size=10)
            W = 1
            if (source == "frame" and n % 2 == 0) or n % 5 == 0:
                W = rng.choice([2, 3])
            prior = n % 4 == 1      # every 4th creation replaces an existing catalog
            events, outcome = run_source(yaw, source, L, CS, groups, passes, work, mode_kw, W, ctx.seed + n, prior=prior)
            nontrivial = L > CS or len(groups) > 1
            ctx.evaluated(1, (source, L, CS, groups, passes, W, prior) if nontrivial else None)
            ctx.validated(1)
            tag = f"{source}|{'create' if passes == 2 else ('divide' if 'patch_name' in mode_kw else 'apply')}{',replacing_existing_cache' if prior else ''}"
            if outcome[0] != "ok":
                ctx.violation(f"C18|{tag}|workers={'1' if W == 1 else 'n'}|creation_{outcome[0]}_{type(outcome[1]).__name__ if outcome[0] == 'raised' else ''}",
                              dict(source=source, L=L, chunksize=CS, groups=groups, passes=passes, W=W, error=repr(outcome[1])))
                continue
            if outcome[1] != L:
                ctx.violation(f"C18|{tag}|any|stored_records_{'fewer' if outcome[1] < L else 'more'}_than_input",
                              dict(source=source, L=L, chunksize=CS, groups=groups, passes=passes, W=W, stored=outcome[1]))
                continue
            if source in ("hdf", "fits", "fits_hdu2"):
                events = column_passes(events, "/ra" if source == "hdf" else "ra")
            got, whole = split_passes(events)
            if source == "parquet":
                key = (L, CS, "parquet", tuple(groups), passes)
                exp_dev = [tuple(r) for r in dev_expect[key][0]] if key in dev_expect else None
            failed = predicates(got, whole, L, CS, passes)
            detail = dict(source=source, L=L, chunksize=CS, row_groups=list(groups), passes=passes, workers=W, mode=tag, replacing_existing_cache=prior,
                          requests=got, unsliced=whole[:3], expected_last_pass=exp)
            if failed:
                cls = "row_group_larger_than_chunksize" if (source == "parquet" and any(g > CS for g in groups)) else "any"
                ctx.violation(f"C18|{tag}|{cls}|{'+'.join(failed)}", detail)
            else:
                for i, reqs in enumerate(got):
                    if [tuple(r) for r in reqs] != exp and not (source == "parquet" and exp_dev is not None and [tuple(r) for r in reqs] == exp_dev):
                        ctx.drift(f"C18|{source}|requests_differ_from_model_but_satisfy_property", detail)
                        break
            if n <= 3 or (nontrivial and len(ctx.samples) < 6):
                ctx.sample(dict(source=source, L=L, chunksize=CS, row_groups=list(groups), passes=passes, workers=W, recorded_requests=got))
    # a faulty input (non-finite cell in chunk k): the creation is refused (C09's business) - and up to that point the
    # source must still have been read in consecutive slices, none of them twice
    with scratch("c18nan_") as root:
        for k, (L, CS, bad_row) in enumerate([(12, 3, 7), (12, 4, 0), (10, 3, 9), (9, 2, 4)]):
            for W in (1, 2):
                work = root / f"nan{k}_{W}"
                work.mkdir()
                log = recsrc.Log()
                df = make_frame(L, ctx.seed + k)
                df.loc[bad_row, "w"] = float("nan")
                fn = lambda: yaw.Catalog.from_dataframe(str(work / "cache"), recsrc.RecFrame(df, log), ra_name="ra", dec_name="dec",   # noqa: E731
                                                        weight_name="w", redshift_name="z", patch_centers=centers, chunksize=CS, max_workers=W, overwrite=True)
                s_, outcome = detrt.run_main(lambda: sum(fn().get_num_records()), seed=k)
                ctx.evaluated(1, ("nan_input", L, CS, bad_row, W))
                got, whole = split_passes(log.events)
                reqs = [tuple(r) for r in (got[-1] if got else [])]
                detail = dict(L=L, chunksize=CS, nan_row=bad_row, workers=W, outcome=outcome[0], requests=reqs)
                starts = [a for a, _ in reqs]
                if len(set(starts)) != len(starts) or any(b - a > CS for a, b in reqs) or any(reqs[i + 1][0] != reqs[i][1] for i in range(len(reqs) - 1)):
                    ctx.violation("C18|frame|apply,non_finite_input|any|slice_requested_twice_or_not_consecutive", detail)
                if whole:
                    ctx.violation("C18|frame|apply,non_finite_input|any|whole_source_requested", dict(detail, unsliced=whole[:3]))
    # binding demonstration: a corrupted recording must fail the predicates
    ctx.require(predicates([[(0, 3), (3, 6)], ], [], 6, 2, 1) != [], "binding demo: oversized request not flagged")
    ctx.require(predicates([[(0, 2), (3, 5), (5, 6)]], [], 6, 2, 1) != [], "binding demo: gap not flagged")
