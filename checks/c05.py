"""C05 - results do not depend on worker count / completion order (multiprocessing).

Spec      : spec/PoolMap.tla (feasible completion orders of a W-worker pool, the
            four consumers as folds, ScheduleIndependent).
spec->code: every terminal behaviour of the TLC run (= every feasible completion
            order for the explored (W, NT)) is replayed through a fake
            multiprocessing.Pool into the real entry points; the result must be
            bit-identical to the W=1 run.
code->spec: (thorough) the real multiprocessing.Pool is run with seeded delays;
            the observed (worker, task) assignment and arrival order must be a
            behaviour of PoolMap (checked by TLC on PoolMapTrace).
"""

from __future__ import annotations

import json
import random
import time

import numpy as np

from harness import data, detrt, tlc
from harness.yawenv import scratch

INVS = ["TypeOK", "ScheduleIndependent", "ExactlyOnce", "FeasibleOrder", "OneWorkerIsSequential", "PrintDone"]


def tlc_orders(ctx, max_w: int, max_nt: int, label: str) -> dict:
    cfg = tlc.make_cfg(
        constants=dict(MaxW=max_w, MaxNT=max_nt, NP=3, Deviations="{}"),
        invariants=INVS, properties=["Termination"], deadlock=False,
    )
    res = tlc.run("PoolMap", cfg, coverage=True)
    ctx.add_tlc(label, res, constants=dict(MaxW=max_w, MaxNT=max_nt))
    ctx.require(res.ok, f"PoolMap ideal design violated in TLC: {res.error_kind} {res.error_name}")
    for act in ("SomeDispatch", "SomeComplete"):
        ctx.require(res.coverage.get(act, (0, 0))[1] > 0, f"PoolMap action {act} never taken (vacuous)")
    orders: dict = {}
    for w, nt, out in res.printed("done"):
        orders.setdefault((w, nt), set()).add(tuple(o - 1 for o in out))
    return {k: sorted(v) for k, v in orders.items()}


def tlc_deviation(ctx) -> list | None:
    """Deviation run: TLC must exhibit the arrival-order dependence of the
    'rows' consumer; returns the counterexample's completion order."""
    cfg = tlc.make_cfg(
        constants=dict(MaxW=2, MaxNT=3, NP=3, Deviations='{"ArrivalOrderRows"}'),
        invariants=["ScheduleIndependent"], deadlock=False,
    )
    res = tlc.run("PoolMap", cfg)
    ctx.add_tlc("deviation ArrivalOrderRows", res)
    ctx.require(not res.ok and res.error_name == "ScheduleIndependent",
                "deviation ArrivalOrderRows no longer yields a counterexample (stale model)")
    st = res.trace[-1]["state"]
    return dict(W=st["W"], NT=st["NT"], out=st["out"])


# --- chunked dispatch (spec/PoolChunks.tla) ---------------------------------

_BUF = [0]


def _fresh_job(t):
    return (t, [t])


def _shared_buffer_job(t):
    _BUF[0] = t            # a module-level result buffer, reused by every call in the same process
    return (t, _BUF)


def chunked_dispatch(ctx) -> None:
    """spec/PoolChunks.tla: imap_unordered with a chunk size.  TLC checks that a design whose jobs return fresh objects
    is exact for every (W, NT, CS) and chunk completion order, that jobs returning a per-process buffer are harmless with
    CS = 1 and wrong with CS > 1 (two sites, each fine alone); every terminal behaviour of both variants is replayed on
    the harness's Pool stand-in (what the checks above run the library on), and in the thorough tier on the real
    multiprocessing.Pool - so the stand-in shows a shared-state defect exactly where the real pool would."""
    import multiprocessing

    nt = 5 if ctx.quick else 7
    base = dict(MaxW=3, MaxNT=nt, MaxCS=3)
    laws = ["OwnValue", "ExactlyOnce", "ChunkContiguous", "FeasibleChunkOrder"]
    res = tlc.run("PoolChunks", tlc.make_cfg(constants=dict(base, Deviations="{}"), invariants=laws + ["PrintDone"], properties=["Termination"], deadlock=False), coverage=True)
    ctx.add_tlc(f"PoolChunks ideal: W<=3, NT<={nt}, chunksize<=3, all completion orders", res)
    ctx.require(res.ok, f"PoolChunks ideal design violated in TLC: {res.error_kind} {res.error_name}")
    for act in ("SomeDispatch", "SomeEval", "SomeComplete"):
        ctx.require(res.coverage.get(act, (0, 0))[1] > 0, f"PoolChunks action {act} never taken (vacuous)")
    alone = tlc.run("PoolChunks", tlc.make_cfg(constants=dict(base, MaxCS=1, Deviations='{"SharedBuffers"}'), invariants=["OwnValue", "ExactlyOnce"], deadlock=False), workers=2)
    ctx.add_tlc("PoolChunks SharedBuffers with chunksize 1 (harmless alone)", alone)
    ctx.require(alone.ok, "SharedBuffers with chunksize 1 should satisfy OwnValue")
    dev = tlc.run("PoolChunks", tlc.make_cfg(constants=dict(base, Deviations='{"SharedBuffers"}'), invariants=["OwnValue"], deadlock=False), workers=1)
    ctx.add_tlc("PoolChunks deviation SharedBuffers with chunksize > 1", dev)
    ctx.require(dev.error_kind == "invariant" and dev.error_name == "OwnValue", "deviation SharedBuffers gave no OwnValue counterexample")
    devall = tlc.run("PoolChunks", tlc.make_cfg(constants=dict(base, Deviations='{"SharedBuffers"}'), invariants=["ExactlyOnce", "ChunkContiguous", "PrintDone"], deadlock=False))
    ctx.add_tlc("PoolChunks SharedBuffers: terminal behaviours for the replay", devall)
    ctx.require(devall.ok, f"PoolChunks SharedBuffers run failed: {devall.error_kind} {devall.error_name}")

    def on_standin(job, W, NT, CS, chunk_order):
        def order_source(w, n):      # n = number of chunks (= tasks for CS = 1)
            return list(chunk_order)

        def main():
            with multiprocessing.Pool(W) as pool:
                return [(t, b[0]) for t, b in pool.imap_unordered(job, range(1, NT + 1), chunksize=CS)]

        _, outcome = detrt.run_main(main, order_source=order_source)
        return outcome

    nrep = 0
    for variant, result, job in (("fresh", res, _fresh_job), ("shared", devall, _shared_buffer_job)):
        seen = set()
        for W, NT, CS, ts, vs in result.printed("chunks"):
            key = (W, NT, CS, tuple(ts))
            if key in seen or NT == 0 or W == 1:
                continue
            seen.add(key)
            chunk_order = [(t - 1) // CS for t in ts if (t - 1) % CS == 0]
            outcome = on_standin(job, W, NT, CS, chunk_order)
            nrep += 1
            ctx.evaluated(1, ("chunks", variant) + key)
            ctx.validated(1)
            want = list(zip(ts, vs))
            if outcome[0] != "ok" or list(outcome[1]) != want:
                raise core_machinery(f"Pool stand-in differs from PoolChunks ({variant}, W={W}, NT={NT}, CS={CS}, chunks {chunk_order}): {outcome!r:.300} != {want}")
    real = 0
    if not ctx.quick:
        mp = multiprocessing.get_context("fork")
        for CS in (1, 2, 3):
            for NT in (4, 6, 7):
                with mp.Pool(2) as pool:
                    got = sorted((t, b[0]) for t, b in pool.imap_unordered(_shared_buffer_job, range(1, NT + 1), chunksize=CS))
                want = sorted((t, min(NT, ((t - 1) // CS + 1) * CS)) for t in range(1, NT + 1))
                real += 1
                if got != want:
                    ctx.drift("C05|real_pool_differs_from_PoolChunks_SharedBuffers", dict(NT=NT, chunksize=CS, got=got, model=want))
    ctx.extra["chunked_dispatch"] = dict(behaviours_replayed_on_stand_in=nrep, real_pool_runs=real, max_tasks=nt, max_chunksize=3)


def core_machinery(msg):
    from harness.core import MachineryError

    return MachineryError(msg)


# --- entry points --------------------------------------------------------


class World:
    def __init__(self, root, seed: int, npatch: int, n: int, closed: str = "right", sep_deg: float = 3.0) -> None:
        self.yaw = data.import_yaw()
        self.root = root
        self.npatch = npatch
        centers = data.centers_grid(npatch, sep_deg=sep_deg)
        self.centers = centers
        spread = 1.6 * sep_deg / 3.0
        dref = data.frame(seed, n, npatch, sep_deg=sep_deg, spread_deg=spread)
        # patch 1 has no object in the highest redshift bin (an empty tree next to populated neighbours)
        sel = (dref["pid"] == 1) & (dref["z"] > 0.69)
        dref.loc[sel, "z"] = 0.2 + 0.4 * (dref.loc[sel, "z"] - 0.69)
        self.config = self.yaw.Configuration.create(rmin=500.0, rmax=5000.0, zmin=0.1, zmax=1.0, num_bins=3, closed=closed)
        drnd = data.frame(seed + 2, 2 * n, npatch, sep_deg=sep_deg, spread_deg=spread)
        # every 4th object sits exactly on a bin edge (outer edges included): the closed side must survive
        # every process boundary (patch 1 keeps its empty highest bin: only the two lowest edges there)
        edges = [float(e) for e in self.config.binning.edges]
        for df in (dref, drnd):
            for k in range(0, len(df), 4):
                choice = edges[:2] if int(df.loc[k, "pid"]) == 1 else edges
                df.loc[k, "z"] = choice[(k // 4) % len(choice)]
        self.ref = data.make_catalog(root / "ref", dref, centers)
        self.unk = data.make_catalog(root / "unk", data.frame(seed + 1, n, npatch, sep_deg=sep_deg, spread_deg=spread), centers, redshifts=False)
        self.rnd = data.make_catalog(root / "rnd", drnd, centers)
        self.tmp = root / "tmp"
        self.progress = False      # run the entry points with the progress display on (results pass through the Indicator)

    def fresh(self, which: str):
        src = self.root / which
        return data.copy_cache(src, self.tmp / which)

    # each entry point returns a JSON-able, bit-exact digest of its result
    def ep_load(self, W):
        path = self.fresh("ref")
        cat = self.yaw.Catalog(path, max_workers=W)
        return dict(
            keys=list(cat.keys()),
            patches_order=[int(k) for k in cat._patches.keys()] and sorted(int(k) for k in cat._patches.keys()),
            num=list(cat.get_num_records()),
            sw=[float(x).hex() for x in cat.get_sum_weights()],
            centers=cat.get_centers().data.tobytes().hex(),
            radii=cat.get_radii().data.tobytes().hex(),
        )

    def ep_build(self, W):
        path = self.fresh("ref")
        cat = self.yaw.Catalog(path, max_workers=1)
        cat.build_trees(self.config.binning.edges, closed=self.config.binning.closed, max_workers=W, progress=self.progress)
        out = {}
        from yaw.catalog.trees import BinnedTrees

        for pid, patch in cat.items():
            trees = BinnedTrees(patch).trees
            trees = trees if isinstance(trees, tuple) else (trees,)
            # the content of the trees (not the pickle byte stream, whose memo layout is no result)
            out[int(pid)] = dict(
                trees=[dict(n=t.num_records, sw=float(t.sum_weights).hex(), data=_digest(np.ascontiguousarray(t.data).tobytes()),
                            w=None if t.weights is None else _digest(np.ascontiguousarray(t.weights).tobytes())) for t in trees],
                binning=(patch.cache_path / "binning").read_bytes().hex(),
            )
        return out

    def ep_hist(self, W):
        cat = self.yaw.Catalog(self.root / "ref", max_workers=1)
        h = self.yaw.HistData.from_catalog(cat, self.config, max_workers=W, progress=self.progress)
        return dict(data=h.data.tobytes().hex(), samples=h.samples.tobytes().hex(), shape=list(h.samples.shape))

    def _links(self):
        from yaw.correlation.measurements import PatchLinkage

        return PatchLinkage

    def prepare_trees(self):
        edges, closed = self.config.binning.edges, self.config.binning.closed
        self.cref = self.yaw.Catalog(self.root / "ref", max_workers=1)
        self.cunk = self.yaw.Catalog(self.root / "unk", max_workers=1)
        self.crnd = self.yaw.Catalog(self.root / "rnd", max_workers=1)
        self.cref.build_trees(edges, closed=closed, max_workers=1)
        self.crnd.build_trees(edges, closed=closed, max_workers=1)
        self.cunk.build_trees(None, max_workers=1)
        self.links = self._links().from_catalogs(self.config, self.cref, self.cunk, self.crnd)

    def ep_count_auto(self, W):
        (nc,) = self.links.count_pairs(self.cref, max_workers=W, progress=self.progress)
        return _nc_digest(nc)

    def ep_count_cross(self, W):
        (nc,) = self.links.count_pairs(self.cref, self.cunk, max_workers=W, progress=self.progress)
        return _nc_digest(nc)

    def ep_crosscorrelate(self, W):
        (cf,) = self.yaw.crosscorrelate(self.config, self.cref, self.cunk, unk_rand=self.crnd, max_workers=W, progress=self.progress)
        return data.corrfunc_fingerprint(cf)

    def ep_autocorrelate(self, W):
        (cf,) = self.yaw.autocorrelate(self.config, self.cref, self.crnd, max_workers=W, progress=self.progress)
        return data.corrfunc_fingerprint(cf)


def _digest(b: bytes) -> str:
    import hashlib

    return hashlib.sha256(b).hexdigest()


def _nc_digest(nc) -> dict:
    return dict(
        counts=nc.counts.counts.tobytes().hex(),
        sw1=nc.sum_weights.sum_weights1.tobytes().hex(),
        sw2=nc.sum_weights.sum_weights2.tobytes().hex(),
    )


def first_diff(a, b, path=""):
    if type(a) is not type(b):
        return path or "type"
    if isinstance(a, dict):
        for k in sorted(set(a) | set(b), key=str):
            if k not in a or k not in b:
                return f"{path}.{k}"
            d = first_diff(a[k], b[k], f"{path}.{k}")
            if d:
                return d
        return None
    if isinstance(a, list):
        if len(a) != len(b):
            return f"{path}.len"
        for i, (x, y) in enumerate(zip(a, b)):
            d = first_diff(x, y, f"{path}[{i}]")
            if d:
                return d
        return None
    return None if a == b else (path or "value")


def run_with_orders(world: World, ep: str, W: int, orders_for_call):
    """Run entry point ``ep`` with pool size W; the i-th imap_unordered call of
    the run takes its completion order from ``orders_for_call(i, W, NT)``."""
    calls = []

    def order_source(w, nt):
        order = orders_for_call(len(calls), w, nt)
        calls.append((w, nt, tuple(order)))
        return order

    fn = getattr(world, f"ep_{ep}")
    # every other schedule runs with the progress display on: results then pass through the Indicator wrapper
    world.progress = sum(orders_for_call(0, W, 4)) % 2 == 1 if ep in ("build", "hist", "count_auto") else (len(calls) + W) % 2 == 1
    from harness.yawenv import quiet_fds

    try:
        with quiet_fds():
            sched, outcome = detrt.run_main(lambda: fn(W), order_source=order_source)
    finally:
        world.progress = False
    return outcome, calls, sched


def run(ctx) -> None:
    quick = ctx.quick
    rng = random.Random(ctx.seed)
    ctx.rule = (
        "every feasible completion order enumerated by TLC (PoolMap terminal states) for the explored (W, NT) "
        "is replayed through a fake multiprocessing.Pool into the real entry point; non-trivial = order differs "
        "from task order; distinct = (entry point, W, order)"
    )
    ctx.assume("fake Pool hands tasks out in order and pickles functions/arguments/results (the library uses chunksize 1; a chunksize > 1 "
               "is honoured like multiprocessing does it: a chunk is evaluated as a whole and its results are pickled together); "
               "validated against the real Pool in the thorough tier (PoolMapTrace)")
    ctx.assume("tasks of one parallel map touch disjoint files (true for Patch(), BinnedTrees.build); "
               "executing them one after the other in completion order is then equivalent to any true overlap")

    max_nt = 4 if quick else 5
    orders = tlc_orders(ctx, max_w=max_nt + 1, max_nt=max_nt, label="PoolMap ideal, all feasible orders")
    big = tlc_orders(ctx, max_w=3, max_nt=6, label="PoolMap ideal, NT<=6 (auto count_pairs)")
    for k, v in big.items():
        orders.setdefault(k, v)
    dev = tlc_deviation(ctx)
    chunked_dispatch(ctx)

    with scratch("c05_") as root:
        worlds = {}
        # single-call entry points: exhaustive over TLC's terminal states
        single = [("load", max_nt, "left"), ("build", max_nt, "left"), ("hist", max_nt, "left"), ("build", 3, "right"), ("hist", 3, "right")]
        for ep, npatch, closed in single:
            if npatch not in worlds:
                # (the cache lives below a directory that itself looks like a patch directory: a survey processed region by region)
                worlds[npatch] = World(root / f"region_patch_{npatch}" / "w", ctx.seed + npatch, npatch, 60 if quick else 150, closed=closed)
            world = worlds[npatch]
            base = getattr(world, f"ep_{ep}")(1)
            for W in range(2, npatch + 2):
                for order in orders[(W, npatch)]:
                    outcome, calls, _ = run_with_orders(world, ep, W, lambda i, w, nt, o=order: list(o))
                    nontriv = list(order) != sorted(order)
                    ctx.evaluated(1, (ep, W, order) if nontriv else None)
                    ctx.validated(1)
                    check_outcome(ctx, ep, W, npatch, calls, outcome, base)
            ctx.sample(dict(entry_point=ep, W=2, NT=npatch, completion_order=list(orders[(2, npatch)][-1]),
                            compared="bit-exact digest vs max_workers=1"))
        # the deviation counterexample, replayed on HistData.from_catalog
        if dev is not None:
            world = worlds[max_nt]
            base = world.ep_hist(1)
            # extend TLC's order to the real task count: swap the first two tasks
            order = [o - 1 for o in dev["out"]] + list(range(dev["NT"], max_nt))
            outcome, calls, _ = run_with_orders(world, "hist", 2, lambda i, w, nt: order)
            ctx.validated(1)
            ctx.extra["deviation_replay"] = dict(tlc=dev, replayed_order=order,
                                                 real_code_differs=(outcome[0] != "ok" or first_diff(outcome[1], base) is not None))
        # pair counting: P=3 fully linked -> auto NT=6 (exhaustive), cross NT=9 (sampled)
        w3 = World(root / "pc", ctx.seed + 100, 3, 60 if quick else 150, closed="left")
        w3.prepare_trees()
        nt_auto = len(w3.links.get_patch_pairs(w3.cref))
        nt_cross = len(w3.links.get_patch_pairs(w3.cref, w3.cunk))
        ctx.extra["pair_tasks"] = dict(auto=nt_auto, cross=nt_cross)
        base = w3.ep_count_auto(1)
        for W in (2, 3):
            olist = orders.get((W, nt_auto))
            ctx.require(olist is not None, f"no TLC orders for W={W} NT={nt_auto}")
            if quick and len(olist) > 60:
                olist = rng.sample(olist, 60)
            for order in olist:
                outcome, calls, _ = run_with_orders(w3, "count_auto", W, lambda i, w, nt, o=order: list(o))
                ctx.evaluated(1, ("count_auto", W, order) if list(order) != sorted(order) else None)
                ctx.validated(1)
                check_outcome(ctx, "count_auto", W, nt_auto, calls, outcome, base)
        # many patch pairs per worker (9 densely linked patches: >= 64 cross jobs, >= 32 jobs per worker for W = 2): dispatch in
        # batches (a chunksize heuristic) must neither lose jobs nor let results of one batch share state
        w7 = World(root / "pc7", ctx.seed + 200, 9, 90 if quick else 180, closed="right", sep_deg=0.15)
        w7.prepare_trees()
        ctx.extra["pair_tasks_9_patches"] = dict(auto=len(w7.links.get_patch_pairs(w7.cref)), cross=len(w7.links.get_patch_pairs(w7.cref, w7.cunk)))
        for ep in ("count_cross", "count_auto"):
            base7 = getattr(w7, f"ep_{ep}")(1)
            for W in ((2, 3) if quick else (2, 3, 4, 5, 8)):
                for r in range(2 if quick else 6):
                    sub = random.Random(rng.random())
                    outcome, calls, _ = run_with_orders(w7, ep, W, lambda i, w, nt, sub=sub: feasible_random(sub, w, nt))
                    ctx.evaluated(1, (ep, "9patches", W, tuple(c[2] for c in calls)))
                    ctx.validated(1)
                    check_outcome(ctx, ep, W, None, calls, outcome, base7)
        # composite entry points with one random feasible order per internal call
        nruns = 25 if quick else 300
        for ep in ("count_cross", "crosscorrelate", "autocorrelate"):
            base = getattr(w3, f"ep_{ep}")(1)
            for r in range(nruns):
                W = rng.choice([2, 3, 4, 5, 12])
                sub = random.Random(rng.random())

                def pick(i, w, nt, sub=sub):
                    return feasible_random(sub, w, nt)

                outcome, calls, _ = run_with_orders(w3, ep, W, pick)
                ctx.evaluated(1, (ep, W, tuple(c[2] for c in calls)))
                ctx.validated(1)
                check_outcome(ctx, ep, W, None, calls, outcome, base)
                if r == 0:
                    ctx.sample(dict(entry_point=ep, W=W, calls=[dict(W=c[0], NT=c[1], order=list(c[2])) for c in calls][:3]))
        if not quick:
            real_pool_traces(ctx, w3, rng)


def feasible_random(rng, W, NT):
    """A random feasible completion order (the k-th arrival is one of the
    first W+k tasks, 0-based) - same law as PoolMap.FeasibleOrder."""
    running, nxt, order = [], 0, []
    while len(order) < NT:
        while len(running) < W and nxt < NT:
            running.append(nxt)
            nxt += 1
        pick = rng.choice(running)
        running.remove(pick)
        order.append(pick)
    return order


def check_outcome(ctx, ep, W, nt, calls, outcome, base) -> None:
    kind = outcome[0]
    if kind == "ok":
        diff = first_diff(outcome[1], base)
        if diff is None:
            return
        what = diff.strip(".").split(".")[0].split("[")[0]
        ctx.violation(
            f"C05|{ep}|differs_from_sequential|{what}",
            dict(entry_point=ep, W=W, calls=[dict(W=c[0], NT=c[1], order=list(c[2])) for c in calls], first_difference=diff),
        )
    elif kind == "raised":
        exc = outcome[1]
        ctx.violation(
            f"C05|{ep}|raises_{type(exc).__name__}",
            dict(entry_point=ep, W=W, calls=[dict(W=c[0], NT=c[1], order=list(c[2])) for c in calls], error=repr(exc)),
        )
    else:
        ctx.violation(f"C05|{ep}|deadlock", dict(entry_point=ep, W=W, waiting=str(outcome[1])))


# --- code -> spec: the real pool is a PoolMap behaviour ------------------

TRACE_MODULE = r"""
---- MODULE PoolMapTrace ----
EXTENDS PoolMap, Json, IOUtils, TLCExt
Traces == ndJsonDeserialize(IOEnv.TRACE_FILE)
VARIABLES tid, l
tvars == <<W, NT, next, running, out, tid, l>>
(* one trace = [W, NT, assign (task -> worker), arrival (sequence of tasks)];
   a trace is accepted iff some interleaving of Dispatch/Complete consistent
   with the recorded worker of every task produces the recorded arrival order *)
T == Traces[tid]
TInit == /\ tid \in 1..Len(Traces) /\ l = 0
         /\ TLCSet(tid, FALSE)
         /\ W = Traces[tid].W /\ NT = Traces[tid].NT /\ next = 1
         /\ running = [i \in 1..Traces[tid].W |-> 0] /\ out = <<>>
TDispatch(i) == /\ Dispatch(i) /\ T.assign[next] = i /\ UNCHANGED <<tid, l>>
TComplete(i) == /\ Complete(i) /\ l < Len(T.arrival) /\ running[i] = T.arrival[l + 1]
                /\ l' = l + 1 /\ UNCHANGED tid
TNext == \E i \in 1..W : TDispatch(i) \/ TComplete(i)
TSpec == TInit /\ [][TNext]_tvars
Accepted == (l = Len(T.arrival) /\ Done) => TLCSet(tid, TRUE)
Setup == \A i \in 1..Len(Traces) : TLCSet(i, FALSE)
Post == PrintT(<<"accepted", [i \in 1..Len(Traces) |-> TLCGet(i)]>>)
====
"""


def real_pool_traces(ctx, world, rng) -> None:
    """Run the real multiprocessing.Pool with seeded delays and validate the
    observed (worker, task) assignment + arrival order against PoolMap."""
    import multiprocessing
    import os

    from yaw.utils import parallel

    traces = []
    with scratch("c05t_") as tdir:
        for run_i in range(12):
            W = rng.choice([2, 3, 4])
            NT = rng.choice([3, 4, 5, 6])
            delays = [rng.choice([0.0, 0.01, 0.03, 0.06]) for _ in range(NT)]
            logf = tdir / f"log{run_i}"
            res = list(parallel.iter_unordered(_traced_task, [(i, delays[i], str(logf)) for i in range(NT)], unpack=True, max_workers=W))
            arrival = [r + 1 for r in res]
            recs = [json.loads(x) for x in logf.read_text().splitlines()]
            pids = sorted({r["pid"] for r in recs})
            assign = [0] * NT
            for r in recs:
                assign[r["task"]] = pids.index(r["pid"]) + 1
            # tasks of one worker must be in increasing order of task index
            traces.append(dict(W=W, NT=NT, assign=assign, arrival=arrival))
        good = list(traces)
        # binding demonstration: corrupt one trace so that it is infeasible
        bad = dict(good[0])
        bad = dict(W=1, NT=3, assign=[1, 1, 1], arrival=[2, 1, 3])
        allt = good + [bad]
        tf = tdir / "traces.ndjson"
        tf.write_text("".join(json.dumps(t) + "\n" for t in allt))
        cfg = "SPECIFICATION TSpec\nCONSTANT MaxW = 4\nCONSTANT MaxNT = 6\nCONSTANT NP = 3\nCONSTANT Deviations = {}\nINVARIANT Accepted\nINVARIANT FeasibleOrder\nCHECK_DEADLOCK FALSE\nPOSTCONDITION Post\n"
        # TLCSet registers must be initialised: use ASSUME-free approach via Init conjunct
        mod = TRACE_MODULE
        res = tlc.run("PoolMapTrace", cfg, workers=1, extra_modules={"PoolMapTrace": mod}, env={"TRACE_FILE": str(tf)})
        ctx.add_tlc("PoolMapTrace (real multiprocessing.Pool runs)", res)
        acc = res.printed("accepted")
        ctx.require(bool(acc), "trace validation produced no verdict")
        verdict = list(acc[-1])
        ctx.require(verdict[-1] is not True, "binding demonstration failed: corrupted trace accepted")
        for i, ok in enumerate(verdict[:-1]):
            ctx.validated(1)
            if ok is not True:
                ctx.drift("C05|real_pool_not_a_PoolMap_behaviour", dict(trace=good[i]))
        ctx.extra["real_pool_traces"] = dict(validated=len(good), rejected=[i for i, ok in enumerate(verdict[:-1]) if ok is not True],
                                             corrupted_trace_rejected=True, sample=good[0])


def _traced_task(i, delay, logf):
    import os

    time.sleep(delay)
    with open(logf, "a") as f:
        f.write(json.dumps(dict(pid=os.getpid(), task=i)) + "\n")
    return i
