"""C08 - a crash never leaves a cache that is silently wrong.

Spec      : spec/CacheFS.tla - the cache directory as a file-system state machine,
            one action per syscall, Crash between any two; tree cache of a patch
            (marker/trees protocol), catalog creation (patch index written last,
            overwrite via rmtree), result-file triple.  TLC: NeverWrongTrees,
            CatalogAllOrNothing, ResultsOneGeneration over workload x prior state
            x crash point x recovery; deviation configs reproduce the code as
            found.
code->spec: every workload runs once for real under strace; the syscalls on the
            cache tree, projected to abstract events, must be a behaviour of
            CacheFS (CacheFSTrace, checked by TLC): this pins the ORDER of file
            operations.
spec->code: for EVERY syscall boundary of every trace the surviving directory is
            materialised (prefix replay on a tree model with inode semantics,
            validated byte-for-byte against the real end state and, in the
            thorough tier, against real SIGKILLs) and the real recovery actions are
            run on it.
oracle    : each recovery either raises, or its records / measurement / result
            equal those of the completed step or of the state before the step.
"""

from __future__ import annotations

import json
import os
import shutil
import subprocess
import sys
from pathlib import Path

from harness import cachework as cw
from harness import data, fstrace, tlc, tracecheck
from harness.yawenv import REPO, scratch

VERIF = Path(__file__).resolve().parent.parent
BIN = '{"N", "A", "A2", "B", "C"}'


def consts(workload, dev="{}"):
    return dict(Workload=f'"{workload}"', Binnings=BIN, MaxBuilds=3, NPatch=2, Deviations=dev)


def model(ctx):
    table = [
        ("trees", ["NeverWrongTrees", "HistoryIndependent"], "StaleMarkerDuringRebuild", "NeverWrongTrees"),
        ("catalog", ["CatalogAllOrNothing", "NoCrashCatalogOK"], "IdsWrittenInPlace", "CatalogAllOrNothing"),
        ("results", ["ResultsOneGeneration"], "ResultTripleNotAtomic", "ResultsOneGeneration"),
    ]
    cex = {}
    for wl, invs, dev, expect in table:
        res = tlc.run("CacheFS", tlc.make_cfg(constants=consts(wl), invariants=invs, deadlock=False), coverage=True)
        ctx.add_tlc(f"CacheFS ideal, workload={wl}", res)
        ctx.require(res.ok, f"CacheFS ideal ({wl}) violated: {res.error_name}")
        # (only the invariant the deviation is meant to break: which one TLC meets first must not depend on thread timing)
        res = tlc.run("CacheFS", tlc.make_cfg(constants=consts(wl, '{"%s"}' % dev), invariants=[expect], deadlock=False))
        ctx.add_tlc(f"CacheFS deviation {dev}", res)
        ctx.require(not res.ok and res.error_name == expect, f"deviation {dev} yields no counterexample (stale)")
        cex[dev] = [f"{t['action']}{t['context'] or ''}" for t in res.trace[1:]]
    ctx.extra["tlc_counterexamples"] = cex


# ---------------------------------------------------------------------------


def traced(name, root, inputs, log):
    env = dict(os.environ, YAW_REPO=str(REPO), YAW_NUM_THREADS="1", PYTHONHASHSEED="0", PYTHONDONTWRITEBYTECODE="1", OMP_NUM_THREADS="1")
    rc, out, err = fstrace.run_traced([sys.executable, "-m", "harness.cachework", name, str(root), str(inputs)], log, env=env)
    return rc, err


def attempt(fn):
    try:
        return ("ok", fn())
    except Exception as exc:  # noqa: BLE001
        return ("error", f"{type(exc).__name__}: {exc}"[:200])


def last_op_class(ops, k):
    if k == 0:
        return "start"
    op = ops[k - 1]
    cls, _ = fstrace.classify_path(op["path"])
    return f"{op['op']}({cls})"


def tree_events(ops, patch):
    """Abstract events of the trees machine for one patch."""
    evs = []
    mine = [o for o in ops if fstrace.classify_path(o["path"])[1] == patch and fstrace.classify_path(o["path"])[0] in ("trees", "marker")]
    nmarker = 0
    for i, o in enumerate(mine):
        cls = fstrace.classify_path(o["path"])[0]
        if o["op"] == "unlink" and cls == "marker":
            evs.append(dict(ev="unlink_marker"))
        elif o["op"] == "open":
            evs.append(dict(ev="open_trees" if cls == "trees" else "open_marker"))
            nmarker = 0
        elif o["op"] == "write" and cls == "trees":
            last = not (i + 1 < len(mine) and mine[i + 1]["op"] == "write" and mine[i + 1]["path"] == o["path"])
            evs.append(dict(ev="wlast" if last else "wpart"))
        elif o["op"] == "write" and cls == "marker":
            nmarker += 1
            evs.append(dict(ev="wbyte" if nmarker == 1 else "wedges"))
        elif o["op"] == "close":
            evs.append(dict(ev="close"))
        else:
            evs.append(dict(ev=f"unexpected_{o['op']}_{cls}"))
    return evs


def catalog_events(ops):
    evs = []
    for o in ops:
        cls, pid = fstrace.classify_path(o["path"][4:] if o["path"].startswith("cat/") else ("." if o["path"] == "cat" else o["path"]))
        p = pid + 1 if pid >= 0 else 0
        k = o["op"]
        if o["path"].endswith("patch_ids.bin.tmp"):
            # temporary index file (written completely, then renamed into place)
            to_ids = k == "rename" and o["to"].endswith("patch_ids.bin")
            evs.append(dict(ev={"open": "open_ids", "write": "skip", "close": "close"}.get(k, "rename_ids" if to_ids else "skip"), patch=0))
        elif cls in ("meta", "marker", "trees", "other"):
            evs.append(dict(ev="skip", patch=p))
        elif k == "unlink" and cls == "ids":
            evs.append(dict(ev="rm_ids", patch=0))
        elif k == "unlink" and cls == "data":
            evs.append(dict(ev="rm_data", patch=p))
        elif k == "rmdir" and cls == "patchdir":
            evs.append(dict(ev="rm_patchdir", patch=p))
        elif k == "rmdir" and cls == "root":
            evs.append(dict(ev="rm_root", patch=0))
        elif k == "mkdir" and cls == "root":
            evs.append(dict(ev="mk_root", patch=0))
        elif k == "mkdir" and cls == "patchdir":
            evs.append(dict(ev="mk_patch", patch=p))
        elif k == "open" and cls == "data":
            evs.append(dict(ev="open_data", patch=p))
        elif k == "write" and cls == "data":
            evs.append(dict(ev="append", patch=p))
        elif k == "open" and cls == "ids":
            evs.append(dict(ev="open_ids", patch=0))
        elif k == "write" and cls == "ids":
            evs.append(dict(ev="write_ids", patch=0))
        elif k == "rename" and fstrace.classify_path(o["to"][4:] if o["to"].startswith("cat/") else o["to"])[0] == "ids":
            evs.append(dict(ev="rename_ids", patch=0))
        elif k == "close":
            evs.append(dict(ev="close", patch=p))
        else:
            evs.append(dict(ev="skip", patch=p))
    return evs


def validate_traces(ctx, workload, records):
    """records: list of dicts with 'events' + init fields.  Try the ideal spec,
    then the deviation; returns the deviation set that explains all traces."""
    import tempfile

    dev_of = {"trees": '{"StaleMarkerDuringRebuild"}', "catalog": '{"IdsWrittenInPlace"}'}
    explained = None
    detail = {}
    for dev in ("{}", dev_of[workload]):
        fd, name = tempfile.mkstemp(prefix="cfs_", suffix=".ndjson")
        os.close(fd)
        # a corrupted copy: swap two adjacent protocol events of the first trace
        bad = json.loads(json.dumps(records[0]))
        evs = bad["events"]
        idx = [i for i, e in enumerate(evs) if e["ev"] not in ("close", "skip")]
        if len(idx) >= 2:
            i, j = idx[-2], idx[-1]
            evs[i], evs[j] = evs[j], evs[i]
        with open(name, "w") as f:
            for r in records + [bad]:
                f.write(json.dumps(r) + "\n")
        try:
            cfg = tlc.make_cfg(spec="TSpec", constants=consts(workload, dev), invariants=["Progress"], postcondition="Post", deadlock=False)
            res = tlc.run("CacheFSTrace", cfg, workers=1, env={"TRACE_FILE": name})
        finally:
            os.unlink(name)
        ctx.add_tlc(f"CacheFSTrace workload={workload} Deviations={dev}", res, traces=len(records))
        v = res.printed("verdict")[-1]
        seq = [v[k] for k in sorted(v)] if isinstance(v, dict) else list(v)
        verdicts = [(int(x[0]), x[1] is True) for x in seq]
        ctx.require(not verdicts[-1][1], "binding demonstration failed: trace with swapped syscalls accepted")
        ok = [a for _, a in verdicts[:-1]]
        detail[dev] = [dict(label=r.get("label"), matched=m, of=len(r["events"]), accepted=a,
                            first_unmatched=(r["events"][m] if m < len(r["events"]) else None))
                       for (m, a), r in zip(verdicts, records)]
        if all(ok):
            explained = dev
            break
    return explained, detail


def run(ctx) -> None:
    yaw = data.import_yaw()
    quick = ctx.quick
    ctx.rule = ("one strace recording per workload x prior disk state; crash point = every prefix of the recorded syscalls on the cache tree; "
                "each materialised and recovered with the real library; non-trivial = crash strictly inside the workload")
    ctx.assume("process death loses exactly the user-space buffers: the surviving tree is the prefix of completed syscalls (validated against "
               "the real end state byte for byte, and against real SIGKILLs in the thorough tier); power loss / page cache are out of scope")
    model(ctx)
    summary = {}
    with scratch("c08_") as base:
        aux = base / "aux"
        cw.prepare_aux(aux)
        inputs = base / "inputs"
        inputs.mkdir()
        # result objects: old and new generation
        gens = {}
        for gen, which in (("new", "new"), ("old", "old")):
            cat = cw.make(base / f"src_{gen}", which)
            rnd = yaw.Catalog(aux / "rnd", max_workers=1)
            unk = yaw.Catalog(aux / "unkaux", max_workers=1)
            rnd2 = yaw.Catalog(aux / "rnd2", max_workers=1)
            (cf,) = yaw.crosscorrelate(cw.config_for("A"), cat, unk, ref_rand=rnd, unk_rand=rnd2, max_workers=1)   # dd, dr, rd, rr
            cf.to_file(inputs / f"cf_{gen}.hdf")
            cf.sample().to_files(inputs / f"cd_{gen}")
            gens[gen] = cf
        # references
        ref_records = {g: cw.records(base / f"src_{g}") for g in ("new", "old")}
        ref_measure = {}
        for g in ("new", "old"):
            for b in cw.BINNINGS:
                tmp = data.copy_cache(base / f"src_{g}", base / "tmp_ref")
                ref_measure[(g, b)] = cw.measure(tmp, b, aux)

        tree_traces, cat_traces = [], []

        def crash_sweep(label, root, ops, initial, recoveries):
            n = len(ops)
            ks = range(0, n + 1)
            bad = 0
            for k in ks:
                tree = fstrace.prefix_tree(initial, ops, k)
                for rname, rfun in recoveries.items():
                    crashdir = base / "crash"
                    tree.materialise(crashdir)
                    res = attempt(lambda: rfun(crashdir))
                    ctx.evaluated(1, (label, k, rname) if 0 < k < n else None)
                    ctx.validated(1)
                    verdict = judge(label, rname, res)
                    if verdict is not None:
                        bad += 1
                        ctx.violation(f"C08|{label}|crash_after={last_op_class(ops, k)}|recovery={rname}|{verdict}",
                                      dict(workload=label, crash_point=k, of=n, last_syscall={kk: vv for kk, vv in (ops[k - 1] if k else {}).items() if kk != 'data'},
                                           recovery=rname, outcome=str(res)[:300]))
            summary[label] = dict(syscalls=n, crash_points=n + 1, recoveries=len(recoveries), silently_wrong=bad)

        judges = {}

        def judge(label, rname, res):
            return judges[label](rname, res)

        def record_and_check(label, root, name):
            initial = fstrace.Tree.from_disk(root)
            log = base / f"{label.replace(':', '_').replace(',', '_')}.strace"
            rc, err = traced(name, root, inputs, log)
            ctx.require(rc == 0, f"traced workload {label} failed: {err[-400:]}")
            ops = fstrace.parse(log, root)
            full = fstrace.prefix_tree(initial, ops, len(ops))
            ctx.require(full.snapshot() == fstrace.disk_snapshot(root), f"materialiser disagrees with the real end state of {label}")
            ctx.require(len(ops) > 0, f"no syscalls recorded for {label}")
            log.unlink()
            return initial, ops

        # ---- W1 create, W2 overwrite --------------------------------------
        for label, prior in (("create", None), ("overwrite", "old")):
            root = base / f"w_{label}"
            root.mkdir()
            if prior:
                c = cw.make(root / "cat", prior)
                cw.build(c, "A")
            initial, ops = record_and_check(label, root, label)

            def jd(rname, res, prior=prior):
                if res[0] == "error":
                    return None
                if rname == "open":
                    # the property speaks about the record set; which patches already have their meta.yml is not observable
                    ok = [ref_records["new"]["records"]] + ([ref_records["old"]["records"]] if prior else [])
                    if res[1]["records"] in ok:
                        return None
                    n = sum(len(v) for v in res[1]["records"].values())
                    return "opens_empty_catalog" if n == 0 else "opens_partial_or_mixed_catalog"
                ok = [ref_measure[("new", "A")]] + ([ref_measure[("old", "A")]] if prior else [])
                return None if res[1] in ok else "measurement_differs_from_complete_catalogs"

            judges[label] = jd
            crash_sweep(label, root, ops, initial, dict(open=lambda d: cw.records(d / "cat"), measure_A=lambda d: cw.measure(d / "cat", "A", aux)))
            cat_traces.append(dict(label=label, old=bool(prior), events=catalog_events([o for o in ops if o["path"].startswith("cat")])))

        # ---- W1b creation of a catalog with more records per patch than any write buffer ---------------
        root = base / "w_create_big"
        root.mkdir()
        initial, ops = record_and_check("create_big", root, "create_big")
        big = cw.big_frame()
        big_ok = (len(big), float(big["w"].sum()))

        def jd_big(rname, res):
            if res[0] == "error":
                return None
            return None if res[1] == big_ok else ("opens_empty_catalog" if res[1][0] == 0 else "opens_partial_or_mixed_catalog")

        judges["create_big"] = jd_big
        crash_sweep("create_big", root, ops, initial, dict(open=lambda d: cw.count_records(d / "cat")))

        # ---- W3 first metadata computation ---------------------------------
        root = base / "w_meta"
        root.mkdir()
        data.copy_cache(base / "src_new", root / "cat")
        ref_meta = cw.records(data.copy_cache(base / "src_new", base / "tmp_meta"))   # metadata recomputed from the data alone
        initial, ops = record_and_check("meta", root, "meta")

        def jd_meta(rname, res):
            if res[0] == "error":
                return None
            if rname == "open":
                if res[1]["records"] != ref_meta["records"]:
                    return "records_differ"
                return None if res[1]["meta"] == ref_meta["meta"] else "metadata_differ_from_recomputation"
            return None if res[1] == ref_measure[("new", "A")] else "measurement_differs"

        judges["meta"] = jd_meta
        crash_sweep("meta", root, ops, initial, dict(open=lambda d: cw.records(d / "cat"), measure_A=lambda d: cw.measure(d / "cat", "A", aux)))

        # ---- W4 tree (re)builds ---------------------------------------------
        pairs = [(None, "A", False), ("A", "B", False), ("A", "A2", False), ("A", "A", True), ("B", "N", False), ("N", "C", False)]
        if not quick:
            pairs += [("C", "A", False), ("A2", "A", False), ("B", "A", False), ("N", "N", True), ("A", "C", False)]
        for prior, new, force in pairs:
            label = f"build:prior={prior},new={new}" + (",force" if force else "")
            root = base / ("w_" + label.replace(":", "_").replace(",", "_").replace("=", ""))
            root.mkdir()
            c = cw.make(root / "cat", "new")
            if prior:
                cw.build(c, prior)
            initial, ops = record_and_check(label, root, f"build:{new}:{'force' if force else 'noforce'}")
            uses = sorted({b for b in (prior, new, "N" if quick else "B") if b})

            def jd_build(rname, res):
                if res[0] == "error":
                    return None
                b = rname.split("_", 1)[1]
                return None if res[1] == ref_measure[("new", b)] else "measurement_uses_wrong_or_stale_trees"

            judges[label] = jd_build
            crash_sweep(label, root, ops, initial, {f"measure_{b}": (lambda d, b=b: cw.measure(d / "cat", b, aux)) for b in uses})
            for patch in range(cw.NPATCH):
                tree_traces.append(dict(label=f"{label}/patch{patch}", marker0=(prior or "absent"), trees0=(prior or "absent"), req=new,
                                        events=tree_events([o for o in ops], patch)))

        # ---- W5 / W6 result files --------------------------------------------
        for label, name, prior in (("cf_tofile", "cf_tofile", False), ("cf_tofile_over_old", "cf_tofile", True),
                                   ("cd_tofiles", "cd_tofiles", False), ("cd_tofiles_over_old", "cd_tofiles", True)):
            root = base / f"w_{label}"
            root.mkdir()
            if prior:
                if name == "cf_tofile":
                    shutil.copy(inputs / "cf_old.hdf", root / "cf.hdf")
                else:
                    for ext in (".dat", ".smp", ".cov"):
                        shutil.copy(str(inputs / "cd_old") + ext, str(root / "res") + ext)
            initial, ops = record_and_check(label, root, name)
            if name == "cf_tofile":
                refs = [gens["new"]] + ([gens["old"]] if prior else [])
                rec = dict(read=lambda d: yaw.CorrFunc.from_file(d / "cf.hdf"))

                def jd_res(rname, res, refs=refs):
                    if res[0] == "error":
                        return None
                    return None if any(res[1] == r for r in refs) else "reads_back_neither_old_nor_new"
            else:
                # references = the text files as they read back when intact
                refs = [yaw.CorrData.from_files(inputs / "cd_new")] + ([yaw.CorrData.from_files(inputs / "cd_old")] if prior else [])
                rec = dict(read=lambda d: yaw.CorrData.from_files(d / "res"))

                def jd_res(rname, res, refs=refs):
                    if res[0] == "error":
                        return None
                    got = res[1]
                    for r in refs:
                        if got.binning == r.binning and _close(got.data, r.data) and _close(got.samples, r.samples):
                            return None
                    return "reads_back_mixed_generations"

            judges[label] = jd_res
            crash_sweep(label, root, ops, initial, rec)

        # ---- code -> spec: order of file operations ---------------------------
        explained, detail = validate_traces(ctx, "trees", tree_traces)
        ctx.validated(len(tree_traces))
        summary["trace_validation_trees"] = dict(traces=len(tree_traces), explained_by_deviations=explained)
        if explained is None:
            ctx.drift("C08|tree_rebuild_syscall_order_not_a_CacheFS_behaviour", dict(detail={k: [d for d in v if not d["accepted"]][:2] for k, v in detail.items()}))
        explained, detail = validate_traces(ctx, "catalog", cat_traces)
        ctx.validated(len(cat_traces))
        summary["trace_validation_catalog"] = dict(traces=len(cat_traces), explained_by_deviations=explained)
        if explained is None:
            ctx.drift("C08|catalog_creation_syscall_order_not_a_CacheFS_behaviour", dict(detail={k: [d for d in v if not d["accepted"]][:2] for k, v in detail.items()}))
        ctx.sample(dict(workload="build:prior=A,new=B", abstract_events=[e["ev"] for e in tree_traces[2]["events"]]))
        ctx.sample(dict(workload="create", abstract_events=[e["ev"] for e in cat_traces[0]["events"]][:25]))
        interrupted_creation(ctx, yaw, base, ref_records)
        interrupted_results(ctx, yaw, base, gens)
        if not quick:
            real_kills(ctx, base, inputs)
    ctx.extra["workloads"] = summary


def _close(a, b):
    import numpy as np

    return a.shape == b.shape and np.array_equal(a, b, equal_nan=True)


def interrupted_creation(ctx, yaw, base, ref_records):
    """The process is brought down by Ctrl-C / SIGINT or sys.exit() while a chunk is fetched: a BaseException travels
    through the library (its context managers run), then the process is gone.  What is left must refuse to open or be
    the complete new catalog - or the untouched old one."""
    from harness import pipeline

    df = cw.frames()["new"]
    cs = 25
    nchunks = -(-len(df) // cs)
    for prior in (False, True):
        for exc_cls in (KeyboardInterrupt, SystemExit):
            for k in range(nchunks):
                work = base / f"intr_{prior}_{exc_cls.__name__}_{k}"
                work.mkdir()
                cache = work / "cat"
                if prior:
                    cw.make(cache, "old")

                class Frame(pipeline.InterruptingFrame):
                    def __getitem__(self, item, exc_cls=exc_cls):
                        try:
                            return super().__getitem__(item)
                        except KeyboardInterrupt:
                            raise exc_cls("process interrupted while a chunk is fetched") from None

                died = None
                try:
                    yaw.Catalog.from_dataframe(cache, Frame(df, k * cs), ra_name="ra", dec_name="dec", weight_name="w", redshift_name="z",
                                               patch_centers=cw.centers(), chunksize=cs, overwrite=True, max_workers=1)
                except BaseException as exc:  # noqa: BLE001 - the 'process' dies here
                    died = type(exc).__name__
                ctx.evaluated(1, ("interrupted_creation", prior, exc_cls.__name__, k))
                if died is None:
                    ctx.violation(f"C08|create{',over_old' if prior else ''}|interrupted_by_{exc_cls.__name__}|creation_returns_normally", dict(chunk=k))
                    continue
                got = attempt(lambda: cw.records(cache))
                if got[0] == "error":
                    continue
                ok = [ref_records["new"]["records"]] + ([ref_records["old"]["records"]] if prior else [])
                if got[1]["records"] not in ok:
                    n = sum(len(v) for v in got[1]["records"].values())
                    ctx.violation(f"C08|create{',over_old' if prior else ''}|interrupted_by_{exc_cls.__name__}|recovery=open|catalog_opens_with_partial_records",
                                  dict(chunk=k, of=nchunks, records_found=n, records_input=len(df)))


def interrupted_results(ctx, yaw, base, gens):
    """CorrFunc.to_file is brought down (Ctrl-C, or an I/O error such as a full disk) at its n-th HDF5 write call, for
    every n: the file is closed by the library's context manager and is a VALID but incomplete HDF5 file.  Reading
    it back must fail or give the complete result - not a CorrFunc with fewer pair counts that samples differently."""
    import h5py

    cf = gens["new"]
    orig = h5py.Group.create_dataset
    for exc_cls in (KeyboardInterrupt, OSError):
        n = 0
        while True:
            path = base / f"intr_cf_{exc_cls.__name__}_{n}.hdf"
            count = {"k": 0}

            def create_dataset(self, *a, **k):
                if count["k"] == n:
                    count["k"] += 1
                    raise exc_cls("interrupted while writing the result file")
                count["k"] += 1
                return orig(self, *a, **k)

            h5py.Group.create_dataset = create_dataset
            died = False
            try:
                cf.to_file(path)
            except BaseException:  # noqa: BLE001 - the writing 'process' dies here
                died = True
            finally:
                h5py.Group.create_dataset = orig
            if not died:
                break           # n is beyond the last write call: the file is complete
            ctx.evaluated(1, ("interrupted_results", exc_cls.__name__, n))
            if path.exists():
                got = attempt(lambda: yaw.CorrFunc.from_file(path))
                if got[0] == "ok" and not (got[1] == cf):
                    members = [m for m in ("dd", "dr", "rd", "rr") if getattr(got[1], m) is not None]
                    ctx.violation(f"C08|cf_tofile|interrupted_by_{exc_cls.__name__}|recovery=read|reads_back_incomplete_result",
                                  dict(write_call=n, members_read=members, members_written=[m for m in ("dd", "dr", "rd", "rr") if getattr(cf, m) is not None]))
            n += 1
            if n > 200:
                break


def real_kills(ctx, base, inputs):
    """Validate the materialiser: kill the real process with SIGKILL at the k-th
    write syscall (strace fault injection) and compare the surviving tree with
    the model's prefix state."""
    agree = 0
    tried = 0
    for k in (1, 2, 3, 5, 8):
        root = base / f"kill{k}"
        root.mkdir()
        initial = fstrace.Tree.from_disk(root)
        log = base / f"kill{k}.strace"
        env = dict(os.environ, YAW_REPO=str(REPO), YAW_NUM_THREADS="1", PYTHONHASHSEED="0", PYTHONDONTWRITEBYTECODE="1")
        cmd = ["strace", "-f", "-o", str(log), "-xx", "-s", "50000000", "-e", f"trace={fstrace.TRACE}",
               "-e", f"inject=write:signal=KILL:when={400 + k}", sys.executable, "-m", "harness.cachework", "create", str(root), str(inputs)]
        subprocess.run(cmd, capture_output=True, text=True, env=env, cwd=str(VERIF), timeout=300)
        if not log.exists():
            continue
        ops = fstrace.parse(log, root)
        tried += 1
        model_tree = fstrace.prefix_tree(initial, ops, len(ops)).snapshot()
        if model_tree == fstrace.disk_snapshot(root):
            agree += 1
    ctx.extra["real_sigkill_crosscheck"] = dict(tried=tried, model_equals_disk=agree)
    ctx.require(tried == 0 or agree == tried, "materialiser disagrees with the tree left by a real SIGKILL")
