"""C02 - catalog creation stores every input record exactly once, unchanged.

Spec      : spec/CreatePipeline.tla (ExactOnSuccess over all lengths, chunk sizes,
            worker counts and schedules of the reader -> pool -> queue -> writer
            pipeline) and spec/Reader.tla (chunks partition the input).
spec->code: every fault-free scenario (L, chunksize, W) enumerated by TLC is
            instantiated for each source format (data frame, HDF5, FITS big-endian,
            Parquet with several row-group layouts), column dtype (f8, f4, i8),
            optional-column combination, degrees/radian input and patch mode, and
            run on the deterministic multiprocessing runtime under several
            schedules (all schedules, depth first, for the smallest scenarios).
oracle    : per-patch multiset of (weight, redshift, ra, dec) read back from the
            returned catalog AND from Catalog(cache): weights/redshifts bit-identical
            to the input cast to float64, coordinates within 2 ulp of the exact
            x*pi/180 (computed with 40-digit decimals), each record in the patch of
            its nearest given centre / named index, every record exactly once.
"""

from __future__ import annotations

import random
from decimal import Decimal, getcontext

import numpy as np

from harness import data, detrt, pipeline, tlc
from harness.yawenv import scratch

getcontext().prec = 50
PI = Decimal("3.14159265358979323846264338327950288419716939937510")


def exact_rad(x) -> float:
    """float64 nearest to x*pi/180 for the float x (exact decimal arithmetic)."""
    return float(Decimal(float(x)) * PI / Decimal(180))


def ulp_diff(a: float, b: float) -> float:
    if a == b:
        return 0.0
    return abs(a - b) / np.spacing(max(abs(a), abs(b)))


def scenarios(ctx):
    quick = ctx.quick
    consts = dict(MaxL=5 if quick else 6, MaxCS=3 if quick else 4, Ws="{1, 2, 3}" if quick else "{1, 2, 3, 4}", Pres='{"absent"}', Faults="{0}", Wheres='{"reader"}', Kills='{"none"}', BufSizes="{0, 1, 2, 3}", Deviations="{}")
    res = tlc.run("CreatePipeline", tlc.make_cfg(constants=consts, invariants=["TypeOK", "BufferedOrWritten", "ExactOnSuccess", "FailStop", "PrintDone"], properties=["Termination"]),
                  coverage=True, timeout=3600)
    ctx.add_tlc("CreatePipeline fault-free scenarios, all schedules", res, constants=consts)
    ctx.require(res.ok, f"CreatePipeline violated: {res.error_kind} {res.error_name}")
    for act in ("SeqChunk", "SeqFinal", "MRead", "Work", "MMapDone", "MPutEOQ", "MJoin", "WInit", "WGet", "Load"):
        ctx.require(res.coverage.get(act, (0, 0))[1] > 0, f"action {act} never taken")
    out = set()
    for c, outcome, loaded, dirstate, ids, _killed in res.printed("done"):
        if not c["EmptyCentre"] and str(outcome) == "success":
            out.add((c["L"], c["CS"], c["W"]))
    ctx.require(len(out) > 10, "too few successful scenarios from TLC")
    return sorted(out)


DTYPES = ["f8", "f4", "i8", "u2"]     # u2: coordinates f8, weight and patch index columns unsigned 16 bit


def base_columns(L, seed, dtype, degrees):
    """Columns with values exactly representable in the requested dtype."""
    rng = np.random.default_rng(seed)
    idx = np.arange(1, L + 1)
    side = idx % 2
    unsigned = dtype == "u2"
    if unsigned:
        dtype = "f8"
    if dtype == "i8":
        ra = (10 + 4 * side + (idx % 2)).astype("i8")  # integer degrees
        dec = (idx % 3 - 1).astype("i8")
    else:
        ra = (10.0 + 4.0 * side + rng.uniform(0, 1, L)).astype(dtype)
        dec = rng.uniform(-1, 1, L).astype(dtype)
    if dtype == "f8" and L >= 4:
        # two records 1e-7 deg either side of the bisector of the two centres (the meridian ra = 12.5): far above double
        # precision rounding, far below single precision
        for k, eps in enumerate((1e-7, 3e-8, 1e-8, 3e-9)[: min(4, L)]):
            sgn = 1 if k % 2 else -1
            ra[L - 1 - k], side[L - 1 - k] = 12.5 + sgn * eps, (1 if sgn > 0 else 0)
    if not degrees:
        ra = np.deg2rad(ra.astype("f8")).astype("f8" if dtype == "i8" else dtype)
        dec = np.deg2rad(dec.astype("f8")).astype("f8" if dtype == "i8" else dtype)
    w = idx.astype(dtype if dtype != "i8" else "i8")  # record id, exact in f4 for small L
    z = (0.1 + rng.uniform(0, 0.9, L)).astype("f8" if dtype == "i8" else dtype)
    pid = side.astype("i8")
    if unsigned:
        w = (idx + 40000).astype("u2")     # beyond the int16 range: a signed reading would be negative
        pid = side.astype("u2")
    # a stale patch column that disagrees with the centres (documented: ignored when patch_centers is given)
    return dict(ra=ra, dec=dec, w=w, z=z, pid=pid, pid_stale=(1 - side).astype(pid.dtype))


def write_source(fmt, cols, workdir, groups=None):
    import pandas as pd

    df = pd.DataFrame(cols)
    if fmt == "frame":
        # data frames as users have them: a row selection / concatenation leaves a non-default index
        n = len(df)
        kind = (n + len(cols)) % 3
        if kind == 1:
            df.index = np.arange(n) * 3 + 5
        elif kind == 2:
            df.index = np.arange(n)[::-1].copy()
        return df
    if fmt == "hdf":
        import h5py

        path = workdir / "in.hdf5"
        with h5py.File(path, "w") as f:
            for k, v in cols.items():
                f.create_dataset(k, data=v)
        return path
    if fmt == "fits":
        from astropy.table import Table

        path = workdir / "in.fits"
        Table({k: v for k, v in cols.items()}).write(path, overwrite=True)
        return path
    if fmt == "parquet":
        import pyarrow as pa
        from pyarrow import parquet

        path = workdir / "in.parquet"
        table = pa.Table.from_pandas(df)
        with parquet.ParquetWriter(path, table.schema) as wr:
            pos = 0
            for g in groups:
                wr.write_table(table.slice(pos, g), row_group_size=max(g, 1))
                pos += g
        return path
    raise ValueError(fmt)


def expected(cols, has_w, has_z, degrees, mode):
    """patch -> sorted list of (w, z, ra_rad, dec_rad) expected from the property."""
    out = {}
    n = len(cols["ra"])
    for i in range(n):
        ra, dec = float(cols["ra"][i]), float(cols["dec"][i])
        if degrees:
            ra, dec = exact_rad(ra), exact_rad(dec)
        w = float(cols["w"][i]) if has_w else None
        z = float(cols["z"][i]) if has_z else None
        pid = int(cols["pid"][i])
        out.setdefault(pid, []).append((w, z, ra, dec, i))
    return {k: sorted(v, key=lambda t: (t[2], t[3])) for k, v in out.items()}


def got_records(cat, has_w, has_z):
    out = {}
    for pid, patch in cat.items():
        d = patch.load_data()
        recs = []
        for i in range(len(d)):
            recs.append((float(d["weights"][i]) if has_w else None, float(d["redshifts"][i]) if has_z else None,
                         float(d["ra"][i]), float(d["dec"][i])))
        if ("weights" in d.dtype.names) != has_w or ("redshifts" in d.dtype.names) != has_z:
            recs.append(("COLUMNS", tuple(d.dtype.names)))
        out[int(pid)] = sorted(recs, key=lambda t: (t[2], t[3]) if t[0] != "COLUMNS" else (9e9, 9e9))
    return out


def compare(got, exp, mode):
    """Return None or a short description of the first discrepancy."""
    if mode == "create":
        # patch assignment by k-means is not fixed by the property: compare the union
        got = {0: sorted((r for v in got.values() for r in v), key=lambda t: (t[2], t[3]))}
        exp = {0: sorted((r for v in exp.values() for r in v), key=lambda t: (t[2], t[3]))}
    if set(got) != set(exp):
        return f"patch_ids_{sorted(got)}_expected_{sorted(exp)}"
    for k in exp:
        if len(got[k]) != len(exp[k]):
            return f"record_count_patch{k}_{len(got[k])}_expected_{len(exp[k])}"
        for g, e in zip(got[k], exp[k]):
            if g[0] == "COLUMNS":
                return "stored_columns_differ"
            if g[0] != e[0]:
                return "weight_not_bit_identical"
            if g[1] != e[1]:
                return "redshift_not_bit_identical"
            if ulp_diff(g[2], e[2]) > 2 or ulp_diff(g[3], e[3]) > 2:
                return "coordinate_not_exact_to_rounding"
    return None


def run_one(yaw, root, n, fmt, L, CS, W, dtype, has_w, has_z, degrees, mode, groups, progress, chooser=None, seed=0, buf=0):
    work = root / f"r{n}"
    work.mkdir()
    cols = base_columns(L, 1000 + L, dtype, degrees)
    src = write_source(fmt, cols, work, groups)
    kw = dict(ra_name="ra", dec_name="dec", degrees=degrees, chunksize=CS, max_workers=W, progress=progress)
    if has_w:
        kw["weight_name"] = "w"
    if has_z:
        kw["redshift_name"] = "z"
    if mode in ("apply", "apply_both"):
        pts = np.deg2rad([[10.5, 0.0], [14.5, 0.0]])
        kw["patch_centers"] = yaw.AngularCoordinates(pts)
        if mode == "apply_both":
            kw["patch_name"] = "pid_stale"
    elif mode == "divide":
        kw["patch_name"] = "pid"
    else:
        kw["patch_num"] = 2
        kw["probe_size"] = 20
    cache = work / "cache"
    if sum(map(ord, str(n))) % 3 == 0:
        # the cache directory has a HISTORY in this process: another catalog (other records, one more of them) was created
        # there and read completely; the creation under test then replaces it (overwrite=True) and must hold the new input only
        import shutil

        try:
            old = {k: v for k, v in kw.items() if k not in ("chunksize", "max_workers", "progress")}
            prior = yaw.Catalog.from_dataframe(cache, write_source("frame", base_columns(L + 1, 7000 + L, dtype, degrees), work), **old, max_workers=1)
            got_records(prior, has_w, has_z)
            got_records(yaw.Catalog(cache, max_workers=1), has_w, has_z)
            kw["overwrite"] = True
        except Exception:  # noqa: BLE001 - the prior catalog is not the subject
            shutil.rmtree(cache, ignore_errors=True)

    def main():
        if fmt == "frame":
            cat = yaw.Catalog.from_dataframe(cache, src, **kw)
        else:
            cat = yaw.Catalog.from_file(cache, src, **kw)
        return got_records(cat, has_w, has_z)

    import contextlib
    import io

    with contextlib.redirect_stderr(io.StringIO()), contextlib.redirect_stdout(io.StringIO()):  # progress bar output
        from harness import pipeline

        with pipeline.buffersize(yaw, None if not buf else buf):      # PatchWriter buffer size (hard-coded -1 by from_*)
            sched, outcome = detrt.run_main(main, chooser=chooser, seed=seed)
    exp = expected(cols, has_w, has_z, degrees, mode)
    return outcome, exp, cache


def run(ctx) -> None:
    yaw = data.import_yaw()
    rng = random.Random(ctx.seed)
    quick = ctx.quick
    ctx.rule = ("fault-free scenarios (L, chunksize, W) from TLC x source format x dtype x optional columns x degrees x patch mode x schedule; "
                "non-trivial = more than one chunk or worker; distinct = full parameter tuple + schedule index")
    ctx.assume("schedules are explored on the fake multiprocessing runtime (validated against real processes in the thorough tier)")
    scen = scenarios(ctx)
    combos = []
    for (L, CS, W) in scen:
        if L < 2:
            continue  # a single record leaves one given centre empty (C09's business)
        combos.append((L, CS, W))
    rng.shuffle(combos)
    nper = 90 if quick else 700
    n = 0
    with scratch("c02_") as root:
        for (L, CS, W) in (combos * 20)[:nper]:
            n += 1
            fmt = ["frame", "hdf", "fits", "parquet"][n % 4]
            dtype = DTYPES[(n // 4) % 4]
            has_w, has_z = [(True, True), (True, False), (False, True), (False, False)][(n // 3) % 4]
            degrees = (n % 5) != 0
            mode = ["apply", "divide", "apply", "create", "apply_both", "divide", "apply", "create"][(n // 2) % 8]
            if mode == "create" and L < 4:
                mode = "apply"
            groups = None
            if fmt == "parquet":
                cuts = sorted(rng.sample(range(1, L), min(rng.choice([0, 1, 2]), L - 1))) if L > 1 else []
                bounds = [0] + cuts + [L]
                groups = [b - a for a, b in zip(bounds, bounds[1:])]
            progress = (n % 11) == 0
            nsched = 1 if W == 1 else (2 if quick else 4)
            for s in range(nsched):
                buf = [0, 1, 2, 3, 0, 5][(n + s) % 6]
                outcome, exp, cache = run_one(yaw, root, f"{n}_{s}", fmt, L, CS, W, dtype, has_w, has_z, degrees, mode, groups, progress,
                                              seed=rng.randrange(1 << 30), buf=buf)
                ctx.evaluated(1, (fmt, L, CS, W, dtype, has_w, has_z, degrees, mode, tuple(groups or ()), s) if (L > CS or W > 1) else None)
                ctx.validated(1)
                params = dict(format=fmt, L=L, chunksize=CS, workers=W, dtype=dtype, weights=has_w, redshifts=has_z, degrees=degrees,
                              mode=mode, row_groups=groups, progress=progress, buffersize=buf or -1)
                judge(ctx, yaw, outcome, exp, cache, has_w, has_z, mode, params)
            if n <= 4:
                ctx.sample(params)
        # all schedules (depth first) of small multiprocessing scenarios
        for (L, CS, W) in [(3, 2, 2), (4, 2, 2), (3, 1, 3)]:
            cnt = {"n": 0}

            def once(ch, L=L, CS=CS, W=W):
                cnt["n"] += 1
                outcome, exp, cache = run_one(yaw, root, f"dfs{L}{CS}{W}_{cnt['n']}", "frame", L, CS, W, "f8", True, True, True, "apply", None, False, chooser=ch)
                judge(ctx, yaw, outcome, exp, cache, True, True, "apply", dict(format="frame", L=L, chunksize=CS, workers=W, dfs=True))
                return outcome[0]

            limit = 120 if quick else 3000
            k = 0
            for _ in detrt.dfs_schedules(once, max_runs=limit):
                k += 1
                ctx.evaluated(1, ("dfs", L, CS, W, k))
                ctx.validated(1)
            ctx.extra.setdefault("dfs_schedules", []).append(dict(L=L, CS=CS, W=W, schedules=k, exhausted=k < limit))
        random_sources(ctx, yaw, root)
        if not quick:
            real_processes(ctx, yaw, root, rng)
    # binding demonstration for the comparator
    e = {0: [(1.0, 0.5, 0.1, 0.2, 0)]}
    ctx.require(compare({0: [(1.0, 0.5, 0.1 * (1 + 1e-9), 0.2)]}, e, "apply") is not None, "comparator accepts a perturbed coordinate")
    ctx.require(compare({0: []}, e, "apply") is not None, "comparator accepts a lost record")


def judge(ctx, yaw, outcome, exp, cache, has_w, has_z, mode, params):
    tag = f"{params['format']}|{mode}|workers={'1' if params['workers'] == 1 else 'n'}"
    if outcome[0] == "deadlock":
        ctx.violation(f"C02|{tag}|hangs", dict(params=params, waiting=str(outcome[1])))
        return
    if outcome[0] == "raised":
        ctx.violation(f"C02|{tag}|raises_{type(outcome[1]).__name__}", dict(params=params, error=repr(outcome[1])))
        return
    d = compare(outcome[1], exp, mode)
    if d:
        cls = d if not d.startswith(("record_count", "patch_ids")) else d.split("_")[0] + "_" + d.split("_")[1]
        if params.get("dtype") in ("f4",) and d == "coordinate_not_exact_to_rounding":
            cls += "_f4"
        ctx.violation(f"C02|{tag}|{cls}", dict(params=params, discrepancy=d))
        return
    try:
        re = got_records(yaw.Catalog(cache, max_workers=1), has_w, has_z)
    except Exception as exc:  # noqa: BLE001
        ctx.violation(f"C02|{tag}|reopen_raises_{type(exc).__name__}", dict(params=params, error=repr(exc)))
        return
    if re != outcome[1]:
        ctx.violation(f"C02|{tag}|reopened_catalog_differs", dict(params=params))


def random_sources(ctx, yaw, root) -> None:
    """Random generator as the source: the catalog holds exactly the requested number of records - the points the
    generator yields chunk by chunk - for sizes around multiples of the chunk size."""
    import yaw.randoms

    centres = yaw.AngularCoordinates(np.deg2rad([[10.5, 0.0], [14.5, 0.0]]))
    n = 0
    for CS in (4, 5):
        for N in (CS - 1, CS, CS + 1, 2 * CS - 1, 2 * CS, 2 * CS + 1, 3 * CS):
            for W in (1, 2):
                n += 1
                gen = yaw.randoms.BoxRandoms(10, 15, -1, 1, seed=5)
                cache = root / f"rand{n}"
                s_, outcome = detrt.run_main(lambda: got_records(yaw.Catalog.from_random(cache, gen, N, patch_centers=centres, chunksize=CS,
                                                                                      max_workers=W, overwrite=True), False, False), seed=n)
                ctx.evaluated(1, ("random", N, CS, W))
                ctx.validated(1)
                params = dict(format="random", N=N, chunksize=CS, workers=W)
                cls = "N=k*chunksize" if N % CS == 0 else "N=k*chunksize+r"
                if outcome[0] != "ok":
                    ctx.violation(f"C02|random|{cls}|workers={'1' if W == 1 else 'n'}|creation_{outcome[0]}", dict(params=params, error=repr(outcome[1])[:200]))
                    continue
                ref = yaw.randoms.BoxRandoms(10, 15, -1, 1, seed=5)
                exp_pts = []
                left = N
                while left > 0:
                    pts = ref(min(CS, left))
                    exp_pts += list(zip(pts["ra"].tolist(), pts["dec"].tolist()))
                    left -= min(CS, left)
                got_pts = sorted((r[2], r[3]) for recs in outcome[1].values() for r in recs)
                exp_rad = sorted((float(a), float(b)) for a, b in exp_pts)      # the generator yields radian
                if len(got_pts) != N:
                    ctx.violation(f"C02|random|{cls}|workers={'1' if W == 1 else 'n'}|record_count", dict(params=params, stored=len(got_pts)))
                elif any(ulp_diff(g[0], e[0]) > 2 or ulp_diff(g[1], e[1]) > 2 for g, e in zip(got_pts, exp_rad)):
                    ctx.violation(f"C02|random|{cls}|workers={'1' if W == 1 else 'n'}|points_differ_from_generator", dict(params=params))


def _slow_split(chunk, patch_centers, _orig=None, _delays=None):
    import os
    import time

    time.sleep(_delays[os.getpid() % len(_delays)])
    return _orig(chunk, patch_centers)


def real_processes(ctx, yaw, root, rng):
    """A few runs with the real multiprocessing pipeline (seeded delays in the
    pool workers, inherited through fork)."""
    import functools

    import yaw.catalog.catalog as cc

    orig = cc.split_into_patches
    bad = 0
    try:
        for i in range(12):
            delays = [rng.choice([0.0, 0.02, 0.08]) for _ in range(5)]
            cc.split_into_patches = functools.partial(_slow_split, _orig=orig, _delays=delays)
            L, CS, W = rng.choice([(40, 7, 3), (30, 10, 2), (25, 4, 4)])
            work = root / f"real{i}"
            work.mkdir()
            cols = base_columns(L, 50 + i, "f8", True)
            import pandas as pd

            kw = dict(ra_name="ra", dec_name="dec", weight_name="w", redshift_name="z", chunksize=CS, max_workers=W,
                      patch_centers=yaw.AngularCoordinates(np.deg2rad([[10.5, 0.0], [14.5, 0.0]])))
            cat = yaw.Catalog.from_dataframe(work / "cache", pd.DataFrame(cols), **kw)
            d = compare(got_records(cat, True, True), expected(cols, True, True, True, "apply"), "apply")
            ctx.evaluated(1, ("real", i))
            ctx.validated(1)
            if d:
                bad += 1
                ctx.violation(f"C02|frame|apply|workers=n|{d}|real_processes", dict(L=L, chunksize=CS, workers=W, delays=delays))
    finally:
        cc.split_into_patches = orig
    ctx.extra["real_process_runs"] = dict(runs=12, discrepancies=bad)
