"""C04 - correlation estimators and the n(z) formula are applied as documented.

Spec      : spec/Containers.tla, actions PatchSum (NormalisedCounts /
            PatchedSumWeights.sample_patch_sum), Sample (CorrFunc.sample:
            Landy-Szalay / Davis-Peebles selection), RedshiftCF / RedshiftCD
            (RedshiftData.from_corrfuncs / from_corrdata), Normalise
            (HistData.normalised / RedshiftData.normalised), GetArray (the read
            accessors get_array() of PatchedCounts / PatchedSumWeights /
            NormalisedCounts, also through the members of a CorrFunc: the terms
            of the estimators must be the same before and after a caller looked
            at the arrays).  TLC checks on exact
            rationals: normaliser = product of the total weights (half the
            squared total for an autocorrelation) for the value and every
            leave-one-patch-out sample, the einsum shortcut of the jackknife, the
            estimator chosen for every member combination, integral = 1 after
            normalisation, absent autocorrelations enter n(z) as 1, the arrays
            handed out by get_array sum to what sample_patch_sum reports.
spec->code: every (scenario, operation) case printed by TLC with its exact
            rational result is executed on real containers built from the same
            integers; value AND every jackknife row are compared (1e-9; where the
            property's formula is 0/0 or x/0 - an empty bin, an empty
            leave-one-out sample - the real value must be nan or +-inf, a finite
            number there is a violation), and so
            are the raw counts / sums of weights of every container of the
            workspace after every step (an accessor or estimator that rescales
            the stored counts is noticed at once and in the following Sample /
            PatchSum / RedshiftCF of the same history).  The
            irrational n(z) = w_sp / sqrt(dz^2 w_ss w_pp) is evaluated by the
            driver from the exact rationals the spec selects.
end-to-end: CorrFuncs measured by the real autocorrelate/crosscorrelate (all
            random-catalog combinations) are checked with a reference evaluator
            of the property's formulas that is first validated against TLC.
"""

from __future__ import annotations

import itertools
import random
from concurrent.futures import ThreadPoolExecutor

import numpy as np

from harness import containers as C
from harness import data
from harness.yawenv import scratch

S = C.scenario

MEMS = [("dr",), ("rd",), ("rr",), ("dr", "rd"), ("dr", "rr"), ("rd", "rr"), ("dr", "rd", "rr")]
C04_OPS = ["PatchSum", "Sample", "RedshiftCF", "RedshiftCD", "RedshiftCDVar", "Normalise", "GetArray"]
DEEP_OPS = C04_OPS + ["Mul", "Bins", "Patches"]
# compositions that must be among the replayed histories (state carried from a read accessor into an estimator)
REQUIRED_PAIRS = [("GetArray", "Sample"), ("GetArray", "PatchSum"), ("GetArray", "RedshiftCF"), ("GetArray", "GetArray"),
                  ("Bins", "GetArray"), ("Patches", "GetArray"), ("Mul", "GetArray")]

# hypothetical deviations: the laws of the spec must notice them (non-vacuity)
HYPO = {
    "LsMixedTwice": (S("CF", 2, 3, mem=("dr", "rd", "rr"), seed=1), ["Sample"], ["EstimatorLaw"]),
    "HistNormBeforeWidth": (S("CD", 3, 2, seed=1), ["Normalise"], ["IntegralIsOne"]),
    "NcArrayPairwiseNorm": (S("NC", 2, 3, seed=1), ["GetArray"], ["GetArrayLaw"]),
}


def scenarios(quick: bool, rng):
    shapes = [(2, 3), (1, 2), (3, 2)] if quick else [(2, 3), (1, 2), (3, 2), (1, 1), (4, 4), (2, 1), (3, 3)]
    seeds = [1, 2, 0] if quick else [1, 2, 3, 4, 5, 6, 7, 8, 9, 10, 11, 0]
    out = []
    for (nb, np_), mem, auto in itertools.product(shapes, MEMS, (False, True)):
        for seed in seeds:
            out.append(S("CF", nb, np_, auto=auto, mem=mem, seed=seed, closed="right" if seed % 2 else "left"))
    for (nb, np_), auto, lv in itertools.product(shapes, (False, True), ("NC", "SW", "PC")):
        for seed in seeds[:3]:
            out.append(S(lv, nb, np_, auto=auto, seed=seed))
    for (nb, np_) in shapes:
        for seed in seeds + [8, 9, 10]:
            out.append(S("CD", nb, np_, seed=seed, closed="left" if seed % 3 == 0 else "right"))
    # an empty redshift bin (no pairs, no weights): the terms are 0/0 there, everything else is as prescribed
    for (nb, np_), zero in (((2, 3), 2), ((3, 2), 1)):
        for mem, auto in ((("dr", "rd", "rr"), False), (("dr",), True), (("rd",), False), (("dr", "rr"), True)):
            out.append(S("CF", nb, np_, auto=auto, mem=mem, seed=1 + zero, zero=zero))
        for lv in ("NC", "SW", "PC"):
            out.append(S(lv, nb, np_, auto=zero == 1, seed=2, zero=zero))
        out.append(S("CD", nb, np_, seed=3, zero=zero))
    return out


def deep_scenarios(quick: bool):
    base = [S("CF", 2, 3, mem=("dr", "rd", "rr"), seed=1), S("CF", 2, 2, auto=True, mem=("dr", "rr"), seed=2),
            S("CF", 3, 2, mem=("rd",), seed=3), S("CD", 3, 2, seed=1), S("NC", 2, 3, auto=True, seed=1),
            S("CF", 2, 2, mem=("dr",), seed=2, zero=2), S("SW", 2, 2, seed=1), S("PC", 2, 2, auto=True, seed=2)]
    if not quick:
        base += [S("CF", 3, 3, mem=("dr", "rd"), seed=4), S("CF", 2, 3, auto=True, mem=("dr",), seed=5),
                 S("CF", 3, 3, mem=("dr", "rr"), seed=6), S("CD", 2, 3, seed=2, closed="left"), S("SW", 3, 3, seed=2)]
    return base


def run(ctx) -> None:
    quick = ctx.quick
    rng = random.Random(ctx.seed)
    world = C.World()
    if ctx.replay:
        np.seterr(all="ignore")
        return C.replay_case(ctx, world, ctx.replay, own_ops=set(C04_OPS))
    np.seterr(all="ignore")
    ctx.rule = ("every (scenario, operation) case enumerated by TLC (Containers.tla: member subsets x auto/cross x shapes x "
                "contents; PatchSum, Sample, RedshiftCF/CD, Normalise, GetArray, also after Mul/Bins/Patches/GetArray) is executed on real "
                "containers; evaluation = one executed operation, value and every jackknife row compared with the exact "
                "rationals and the stored counts/weights of all containers compared with the model's integers; non-trivial = composed history or non-value outcome; distinct = (scenario, history)")
    ctx.assume("pair counts / weights are small integers, bin edges a fixed affine image of integers; float comparison at 1e-9 "
               "relative; where the formula is undefined (0/0, x/0, negative radicand) the real value must be non-finite (nan and "
               "+-inf are not told apart; n(z) may be exactly 0 where only an autocorrelation term is undefined = possibly infinite)")
    ctx.assume("member combinations without a prescribed formula (rr without dr) may be rejected or evaluated (accepted both); "
               "with dr and rd but no rr both DD/DR-1 and DD/RD-1 are accepted")

    scens = scenarios(quick, rng)
    deep = deep_scenarios(quick)
    jobs = {}
    with ThreadPoolExecutor(max_workers=3 if quick else 4) as pool:
        jobs["laws d1"] = pool.submit(C.run_model, scens, C04_OPS, 1, invariants=C.LAWS_C04, workers=6)
        jobs["emit d1"] = pool.submit(C.run_model, scens, C04_OPS, 1, invariants=["TypeOK", "AcceptIffValid", "RedshiftLaw"],
                                      emit=True, workers=4)
        jobs["laws d2"] = pool.submit(C.run_model, deep, DEEP_OPS, 2, invariants=C.LAWS_C04, selset="small", workers=6)
        jobs["emit d2"] = pool.submit(C.run_model, deep, DEEP_OPS, 2 if quick else 3, invariants=["TypeOK", "AcceptIffValid", "RedshiftLaw"],
                                      emit=True, selset="small", workers=6)
        jobs["cover"] = pool.submit(C.run_model, deep, C04_OPS, 1, invariants=["TypeOK"], coverage=True, workers=2)
        for dev, (sc, ops, invs) in HYPO.items():
            jobs["dev " + dev] = pool.submit(C.run_model, [sc], ops, 1, invariants=invs, dev=[dev], workers=1)
        results = {k: f.result() for k, f in jobs.items()}

    for label in ("laws d1", "laws d2"):
        ctx.add_tlc(f"Containers ideal, {label}: laws of C04", results[label])
        ctx.require(results[label].ok, f"Containers ideal design violates {results[label].error_name} ({label})")
    cov = results["cover"]
    ctx.add_tlc("Containers ideal, action coverage", cov)
    for op in C04_OPS:
        taken = max(cov.coverage.get("Some" + op, (0, 0))[1], cov.coverage.get(op, (0, 0))[1])
        ctx.require(taken > 0, f"Containers action {op} never taken (vacuous)")
    for dev, (sc, ops, invs) in HYPO.items():
        res = results["dev " + dev]
        ctx.add_tlc(f"Containers hypothetical deviation {dev}", res)
        ctx.require(not res.ok and res.error_name in invs, f"law {invs} does not notice the hypothetical deviation {dev} (vacuous law)")
    ctx.extra["hypothetical_deviations_noticed_by_TLC"] = {d: results["dev " + d].error_name for d in HYPO}

    total_ops: dict = {}
    total_pairs: dict = {}
    kept = None
    for label in ("emit d1", "emit d2"):
        res = results[label]
        ctx.add_tlc(f"Containers ideal, {label}: cases for replay", res)
        ctx.require(res.ok, f"Containers ideal design violates {res.error_name} ({label})")
        inits, steps = C.parse_emitted(res.out)
        ctx.require(len(steps) + len(inits) == res.distinct, f"{label}: parsed {len(steps)}+{len(inits)} of {res.distinct} states")
        rp = C.Replayer(ctx, world, "C04", inits, steps, own_ops=set(C04_OPS))
        rp.run()
        ctx.validated(rp.histories)
        for k, n in rp.ops_seen.items():
            total_ops[k] = total_ops.get(k, 0) + n
        for k, n in rp.pairs_seen.items():
            total_pairs[k] = total_pairs.get(k, 0) + n
        ctx.extra.setdefault("replay", {})[label] = dict(scenarios=len(inits), steps=len(steps), executed=rp.replayed,
                                                          histories=rp.histories, continued_with_model_object=rp.repaired,
                                                          expected_outcomes=rp.judge.by_outcome)
        if label == "emit d1":
            kept = (inits, steps)
            picks = [x for x in steps if x[1][-1]["op"] in ("Sample", "RedshiftCF", "Normalise")]
            for sk, hist, r in picks[:: max(1, len(picks) // 5)][:5]:
                ctx.sample(dict(scenario=[str(x) for x in sk], history=[C._short_entry(h) for h in hist], expected=C._short_res(r),
                                nz_ingredients=[it["data"] for it in r["items"]] if r["out"] == "nz" else None))
    for op in C04_OPS:
        ctx.require(total_ops.get(op, 0) > 0, f"operation {op} never replayed on the real code")
    ctx.extra["operations_replayed"] = total_ops
    for pair in REQUIRED_PAIRS:
        ctx.require(total_pairs.get(pair, 0) > 0, f"no history with {pair[0]} followed by {pair[1]} was replayed on the real code")
    ctx.extra["compositions_replayed"] = {f"{a}->{b}": n for (a, b), n in sorted(total_pairs.items())}
    members_seen = sorted({"+".join(sorted(sk[4])) + ("/auto" if sk[3] else "/cross") for sk in kept[0] if sk[0] == "CF"})
    ctx.require(len(members_seen) == 14, f"not all member subsets x auto/cross explored: {members_seen}")
    ctx.extra["member_combinations"] = members_seen

    # binding demonstration: corrupted expectations must be noticed
    inits, steps = kept
    tried = caught = 0
    missed = []
    per_op: dict = {}
    for sk, hist, r in steps:
        op = hist[-1]["op"]
        if per_op.get(op, 0) >= 15:
            continue
        bad = corrupt_c04(r)
        if bad is None:
            continue
        scen, v0 = inits[sk]
        root = world.build(v0)
        out = C.execute(world, hist[-1], r, [root], salt=len(hist))
        good_log, bad_log = [], []
        C.Judge(ctx, world, "C04", collect=good_log).judge(scen, hist, r, [v0], out)
        if op == "Normalise" and out[0] == "val":
            # the property fixes only the integral: corrupt the real result instead of the expectation
            o = out[1]
            wrong = ("val", type(o)(o.binning, np.asarray(o.data) * 2.0, np.asarray(o.samples) * 2.0))
            C.Judge(ctx, world, "C04", collect=bad_log).judge(scen, hist, r, [v0], wrong)
        else:
            C.Judge(ctx, world, "C04", collect=bad_log).judge(scen, hist, bad, [v0], out)
        if any(kind == "violation" for kind, _ in good_log):
            continue
        per_op[op] = per_op.get(op, 0) + 1
        tried += 1
        hit = any(kind == "violation" for kind, _ in bad_log)
        caught += hit
        if not hit:
            missed.append((op, sk))
    # (a library so broken that hardly any step is clean is reported through its violations, not as a machinery failure)
    ctx.require((tried >= 20 or bool(ctx._violations)) and caught == tried,
                f"binding demonstration failed: {caught}/{tried} corrupted expectations noticed; missed {missed[:5]}")
    ctx.extra["binding_demo"] = dict(corrupted_expectations=tried, noticed=caught, per_operation=per_op)

    # reference evaluator (property formulas in floats) validated against TLC, then applied to measured counts
    nref = validate_reference(ctx, world, kept)
    end_to_end(ctx, world, rng, quick)
    ctx.extra["reference_evaluator_cases_validated_against_TLC"] = nref
    ctx.exhaustive = True


def corrupt_c04(res):
    import json

    bad = C.corrupt(res)
    if bad is not None:
        return bad
    if res["out"] == "nz":
        bad = json.loads(json.dumps(res))
        data0, _ = C.nz_expected(res["items"])
        for b, x in enumerate(data0):
            if np.isfinite(x):
                for pos in (0, 3):   # the alternative w_sp (if any) as well
                    if pos < len(bad["items"]):
                        n, d = bad["items"][pos]["data"][b]
                        bad["items"][pos]["data"][b] = [n + 3 * d, d]
                return bad
    return None


# ---------------------------------------------------------------------------
# reference evaluator of the property's formulas on real containers
# ---------------------------------------------------------------------------


def ref_term(nc, k=None):
    """Total pair count / product of total weights (half the squared total for
    an autocorrelation), optionally leaving out patch k - by definition, not by
    the library's shortcut."""
    cnt = np.asarray(nc.counts.counts, dtype=np.float64)
    w1 = np.asarray(nc.sum_weights.sum_weights1, dtype=np.float64)
    w2 = np.asarray(nc.sum_weights.sum_weights2, dtype=np.float64)
    if k is not None:
        keep = [i for i in range(cnt.shape[1]) if i != k]
        cnt = cnt[:, keep][:, :, keep]
        w1, w2 = w1[:, keep], w2[:, keep]
    total = cnt.sum(axis=(1, 2))
    if nc.auto:
        norm = 0.5 * w1.sum(axis=1) ** 2
    else:
        norm = w1.sum(axis=1) * w2.sum(axis=1)
    return total / norm


def ref_estimate(cf, k=None):
    """-> list of admissible estimates (arrays over bins), [] if no formula is prescribed."""
    t = {m: ref_term(getattr(cf, m), k) for m in ("dd", "dr", "rd", "rr") if getattr(cf, m) is not None}
    if "rr" in t:
        if "dr" not in t:
            return []
        rd = t.get("rd", t["dr"])
        return [(t["dd"] - t["dr"] - rd + t["rr"]) / t["rr"]]
    return [t["dd"] / t[m] - 1.0 for m in ("rd", "dr") if m in t]


def ref_check_sample(cf, corr) -> list[str]:
    """Mismatches between CorrFunc.sample() (corr) and the reference evaluator."""
    bad = []
    alts = ref_estimate(cf)
    if not alts:
        return bad
    if not any(_close(corr.data, a) for a in alts):
        bad.append("data")
    for k in range(cf.num_patches):
        if not any(_close(corr.samples[k], a) for a in ref_estimate(cf, k)):
            bad.append("samples")
            break
    # where the formula is 0/0 or x/0 (every admissible estimator is non-finite there) the result must not be a number
    if not bad:
        def finite_where_undefined(got, refs):
            undef = np.all([~np.isfinite(np.asarray(a, dtype=float)) for a in refs], axis=0)
            return bool(np.any(np.isfinite(np.asarray(got, dtype=float))[undef]))
        if finite_where_undefined(corr.data, alts) or any(finite_where_undefined(corr.samples[k], ref_estimate(cf, k))
                                                          for k in range(cf.num_patches)):
            bad.append("finite_where_formula_is_undefined")
    return bad


def _close(got, exp) -> bool:
    got, exp = np.asarray(got, dtype=float), np.asarray(exp, dtype=float)
    if got.shape != exp.shape:
        return False
    ok = np.isfinite(exp)
    return bool(np.allclose(got[ok], exp[ok], rtol=1e-9, atol=1e-12))


def validate_reference(ctx, world, kept) -> int:
    """The reference evaluator must reproduce TLC's rationals on every Sample case."""
    inits, steps = kept
    n = 0
    for sk, hist, r in steps:
        if len(hist) != 1 or hist[0]["op"] != "Sample" or r["out"] not in ("val", "alts"):
            continue
        cf = world.build(inits[sk][1])
        alts = r["items"] if r["out"] == "alts" else [r["v"]]
        ref = ref_estimate(cf)
        ctx.require(len(ref) == len(alts), "reference evaluator and spec disagree on the admissible estimators")
        for a, v in zip(ref, alts):
            exp = np.array([C.rat(x) for x in v["data"]])
            ctx.require(_close(a, exp), f"reference evaluator disagrees with TLC on {sk}")
        for k in range(cf.num_patches):
            for a, v in zip(ref_estimate(cf, k), alts):
                exp = np.array([C.rat(x) for x in v["samples"][k]])
                ctx.require(_close(a, exp), f"reference evaluator disagrees with TLC on jackknife sample {k} of {sk}")
        n += 1
    ctx.require(n >= 50, "too few cases to validate the reference evaluator")
    return n


def end_to_end(ctx, world, rng, quick) -> None:
    """Measured pair counts (real catalogs, every combination of random catalogs)."""
    yaw = world.yaw
    runs = 0
    combos = []
    with scratch("c04_") as root:
        for trial in range(2 if quick else 12):
            npatch = rng.choice([2, 3, 4])
            seed = ctx.seed * 100 + trial
            centers = data.centers_grid(npatch, sep_deg=3.0)
            n = 80 if quick else 200
            fref = data.frame(seed, n, npatch, sep_deg=3.0, spread_deg=1.6)
            if trial % 2 == 1:
                # a patch without any object in the upper half of the redshift range (an empty tree next to populated ones)
                sel = (fref["pid"] == npatch - 1) & (fref["z"] > 0.55)
                fref.loc[sel, "z"] = 0.15 + 0.4 * (fref.loc[sel, "z"] - 0.55)
            ref = data.make_catalog(root / f"ref{trial}", fref, centers)
            unk = data.make_catalog(root / f"unk{trial}", data.frame(seed + 1, n, npatch, sep_deg=3.0, spread_deg=1.6), centers,
                                    redshifts=False)
            rnd = data.make_catalog(root / f"rnd{trial}", data.frame(seed + 2, 2 * n, npatch, sep_deg=3.0, spread_deg=1.6), centers)
            urnd = data.make_catalog(root / f"urnd{trial}", data.frame(seed + 3, 2 * n, npatch, sep_deg=3.0, spread_deg=1.6), centers,
                                     redshifts=False)
            method = rng.choice(["linear", "comoving", "logspace"])
            config = yaw.Configuration.create(rmin=500.0, rmax=5000.0, zmin=0.1, zmax=1.0, num_bins=rng.choice([2, 3, 4]),
                                              method=method, max_workers=1)
            cfs = {}
            for label, kw in (("dr", dict(unk_rand=urnd)), ("rd", dict(ref_rand=rnd)), ("dr+rd+rr", dict(ref_rand=rnd, unk_rand=urnd))):
                (cfs[label],) = yaw.crosscorrelate(config, ref, unk, max_workers=1, **kw)
            (auto_rr,) = yaw.autocorrelate(config, ref, rnd, count_rr=True, max_workers=1)
            (auto_dp,) = yaw.autocorrelate(config, ref, rnd, count_rr=False, max_workers=1)
            # "the two samples' total weights": per bin and patch, from the records of the catalogs themselves
            edges = np.asarray(config.binning.edges)
            own = {}
            for cname, cat_ in (("ref", ref), ("unk", unk), ("rnd", rnd), ("urnd", urnd)):
                tot = np.zeros((len(edges) - 1, npatch))
                for pid, patch in cat_.items():
                    d = patch.load_data()
                    if "redshifts" in d.dtype.names:
                        idx = np.digitize(d["redshifts"], edges, right=True)      # closed = right
                        for b in range(1, len(edges)):
                            tot[b - 1, int(pid)] = d["weights"][idx == b].sum()
                    else:
                        tot[:, int(pid)] = d["weights"].sum()
                own[cname] = tot
            roles = {("cross", "dd"): ("ref", "unk"), ("cross", "dr"): ("ref", "urnd"), ("cross", "rd"): ("rnd", "unk"), ("cross", "rr"): ("rnd", "urnd"),
                     ("auto", "dd"): ("ref", "ref"), ("auto", "dr"): ("ref", "rnd"), ("auto", "rr"): ("rnd", "rnd")}
            for label, cf in list(cfs.items()) + [("auto dr+rr", auto_rr), ("auto dr", auto_dp)]:
                for m in ("dd", "dr", "rd", "rr"):
                    member = getattr(cf, m)
                    if member is None:
                        continue
                    r1, r2 = roles[("auto" if label.startswith("auto") else "cross", m)]
                    ctx.evaluated(1, ("e2e-sumw", trial, label, m))
                    for which, got, want in (("sum_weights1", member.sum_weights.sum_weights1, own[r1]), ("sum_weights2", member.sum_weights.sum_weights2, own[r2])):
                        if got.shape != want.shape or not np.allclose(got, want, rtol=1e-12, atol=1e-12):
                            ctx.violation(f"C04|NormalisedCounts.sum_weights|measured:{m}|{which}_is_not_the_samples_total_weight",
                                          dict(trial=trial, seed=seed, members=label, got=np.asarray(got).tolist(), expected=want.tolist(),
                                               empty_patch_bin=bool(trial % 2)))
                            break
                mem = "+".join(m for m in ("dd", "dr", "rd", "rr") if getattr(cf, m) is not None)
                arg = mem
                combos.append(arg)
                ctx.evaluated(1, ("e2e", trial, label))
                runs += 1
                try:
                    corr = cf.sample()
                except Exception as exc:
                    ctx.violation(f"C04|CorrFunc.sample|measured:{arg}|raises_{type(exc).__name__}", dict(trial=trial, error=repr(exc)))
                    continue
                bad = ref_check_sample(cf, corr)
                if bad and bad[0].startswith("finite_where"):
                    ctx.violation(f"C04|CorrFunc.sample|measured:undefined_bin|{bad[0]}",
                                  dict(trial=trial, seed=seed, members=mem, real=[float(x) for x in corr.data],
                                       real_samples=np.asarray(corr.samples, dtype=float).tolist()))
                elif bad:
                    ctx.violation(f"C04|CorrFunc.sample|measured:{arg}|wrong_" + bad[0],
                                  dict(trial=trial, seed=seed, members=mem, real=[float(x) for x in corr.data],
                                       reference=[[float(x) for x in a] for a in ref_estimate(cf)]))
            # n(z) with and without the reference autocorrelation
            for cross_label, cross in cfs.items():
                for ref_cf in (None, auto_rr, auto_dp):
                    ctx.evaluated(1, ("e2e-nz", trial, cross_label, ref_cf is not None))
                    runs += 1
                    arg = f"measured:ref={'no' if ref_cf is None else 'yes'},unk=no"
                    try:
                        nz = yaw.RedshiftData.from_corrfuncs(cross, ref_cf)
                    except Exception as exc:
                        ctx.violation(f"C04|RedshiftData.from_corrfuncs|{arg}|raises_{type(exc).__name__}", dict(trial=trial, error=repr(exc)))
                        continue
                    wsp = cross.sample()
                    wss = ref_cf.sample() if ref_cf is not None else None
                    dz = np.diff(cross.binning.edges)
                    bad = []
                    for name, got, a, b in [("data", nz.data, wsp.data, None if wss is None else wss.data)] + \
                            [("samples", nz.samples[k], wsp.samples[k], None if wss is None else wss.samples[k])
                             for k in range(cross.num_patches)]:
                        rad = np.ones_like(a) if b is None else b
                        exp = np.where(rad > 0, a / (dz * np.sqrt(np.where(rad > 0, rad, 1.0))), np.nan)
                        if not _close(got, exp) and name not in bad:
                            bad.append(name)
                    if bad:
                        ctx.violation(f"C04|RedshiftData.from_corrfuncs|{arg}|wrong_" + bad[0],
                                      dict(trial=trial, seed=seed, real=[float(x) for x in nz.data]))
                    tot = float(np.nansum(dz * nz.data))
                    if np.isfinite(tot) and abs(tot) > 1e-9:
                        integral = float(np.nansum(dz * nz.normalised().data))
                        if abs(integral - 1.0) > 1e-9:
                            ctx.violation(f"C04|RedshiftData.normalised|{arg}|integral_not_1", dict(trial=trial, integral=integral))
            # histogram of the reference sample, normalised
            hist = yaw.HistData.from_catalog(ref, config, max_workers=1)
            ctx.evaluated(1, ("e2e-hist", trial))
            runs += 1
            if float(np.sum(hist.data)) > 0:
                integral = float(np.nansum(np.diff(hist.binning.edges) * hist.normalised().data))
                if abs(integral - 1.0) > 1e-9:
                    ctx.violation("C04|HistData.normalised|measured|integral_not_1",
                                  dict(trial=trial, method=method, integral=integral, edges=[float(x) for x in hist.binning.edges]))
    ctx.validated(runs)
    ctx.extra["end_to_end"] = dict(runs=runs, member_combinations=sorted(set(combos)))
