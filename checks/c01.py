"""C01 - pair counts are exact and complete for every catalog and configuration.

Spec      : spec/Sky.tla - discrete sky (ring of 72 slots, 5 deg apart): nearest-centre
            assignment, patch radii, pruning of patch pairs (Linked), the (lo, hi]
            separation rule per scale and redshift bin, bin membership, per-cell
            weight-product sums for cross- and autocorrelation.  TLC checks
            PruningLosesNothing, LinkSymmetric, SelfLinked, TotalsAgree,
            MetaDescribesPatch for EVERY scenario of each configuration family and
            prints the exact expected integers; deviation configs (radii of one
            catalog only; pruning angle at the floored redshift) must yield
            counterexamples.
spec->code: sampled scenarios of every family (and every TLC counterexample) are
            realised on the real sphere under several rigid placements of the ring
            (equator, across RA=0, over both poles, tilted), catalogs are created with
            Catalog.from_dataframe and measured with crosscorrelate / autocorrelate;
            scale thresholds lie between lattice distances, so counts are exact.
            Scale -> angle per bin and the implementation's pruning angle are taken
            from the real get_angle_radian / get_max_angle and become TLC constants.
oracle    : CorrFunc.dd/dr counts and sum_weights1/2 equal the model's integers
            cell by cell.
"""

from __future__ import annotations

import random

import numpy as np

from harness import data, par, sky
from harness.yawenv import scratch


def families(quick):
    F = {}
    F["angular"] = sky.SkyConfig(nref=3, nunk=2, zcells="{2, 4}", weights="{1}", rmin=(2.5,), rmax=(12.5,),
                                 slots=("{0, 1, 3, 4, 6, 8, 9}" if quick else "0..9"))
    F["two_scales_weights"] = sky.SkyConfig(nref=2, nunk=2, zcells="{2, 4}", weights="{1, 2}", slots="{0, 1, 3, 4, 6, 8, 9}",
                                            rmin=(2.5, 7.5), rmax=(12.5, 17.5))
    # the widest scale is NOT the last one listed
    F["scales_descending"] = sky.SkyConfig(nref=2, nunk=2, zcells="{2}", weights="{1}", rmin=(2.5, 2.5), rmax=(22.5, 7.5))
    # physical scales: the angle differs per bin (larger at low redshift)
    F["physical"] = sky.SkyConfig(nref=2, nunk=2, zcells="{2, 4}", weights="{1}", unit="Mpc", edges=(0.2, 0.5, 0.8), rmin=(40.0,), rmax=(160.0,))
    # lowest bin centre below the 0.05 floor of get_max_angle
    F["low_redshift"] = sky.SkyConfig(nref=2, nunk=2, zcells="{2, 4}", weights="{1}", unit="Mpc", edges=(0.01, 0.03, 0.09), rmin=(2.0,), rmax=(26.0,),
                                      slots="0..11", centres=(2, 9))
    # separation weighting: counts times a power law of the separation (two resolutions, two exponents)
    F["rweight_neg"] = sky.SkyConfig(nref=2, nunk=2, zcells="{2, 4}", weights="{1, 2}", slots="{0, 1, 3, 4, 6, 8, 9}", rmin=(2.5, 7.5), rmax=(12.5, 22.5),
                                     rweight=-0.8, resolution=50)
    F["rweight_pos"] = sky.SkyConfig(nref=2, nunk=2, zcells="{2}", weights="{1}", rmin=(2.5,), rmax=(22.5,), rweight=1.0, resolution=7)
    # scales listed in descending order together with separation weighting
    F["rweight_descending"] = sky.SkyConfig(nref=2, nunk=2, zcells="{2}", weights="{1}", rmin=(7.5, 2.5), rmax=(22.5, 12.5), rweight=-1.0, resolution=20)
    # the FIRST catalog (binned reference) is the smaller one
    F["unknown_larger"] = sky.SkyConfig(nref=2, nunk=3, zcells="{2, 4}", weights="{1}", slots=("{0, 1, 3, 4, 6, 8, 9}" if quick else "0..9"),
                                        rmin=(2.5,), rmax=(12.5,))
    F["three_centres"] = sky.SkyConfig(nref=3, nunk=3, zcells="{2}", weights="{1}", centres=(1, 5, 9),
                                       slots=("{0, 1, 4, 6, 9, 10}" if quick else "{0, 1, 2, 4, 5, 6, 8, 9, 10}"), rmin=(2.5,), rmax=(17.5,))
    # very extended patches: radius_i + radius_j + max_angle exceeds pi (two 'hemispheres' whose members meet at the far side)
    F["wide_patches"] = sky.SkyConfig(nref=2, nunk=2, zcells="{2}", weights="{1}", centres=(0, 36), slots="{0, 17, 19, 36, 53, 55}",
                                      rmin=(2.5,), rmax=(12.5,))
    # binned objects exactly on bin edges (outer and inner), both closed conventions
    F["on_edges_right"] = sky.SkyConfig(nref=2, nunk=2, zcells="{1, 3, 5}", weights="{1}", slots="{0, 1, 3, 8, 9}", rmin=(2.5,), rmax=(12.5,))
    F["on_edges_left"] = sky.SkyConfig(nref=2, nunk=2, zcells="{1, 3, 5}", weights="{1}", slots="{0, 1, 3, 8, 9}", rmin=(2.5,), rmax=(12.5,), closed="left")
    # physical scales in a curved cosmology (angular diameter distance is not comoving distance / (1 + z))
    F["physical_curved"] = sky.SkyConfig(nref=2, nunk=2, zcells="{2, 4}", weights="{1}", unit="Mpc", edges=(0.5, 0.8, 1.1), rmin=(40.0,), rmax=(261.0,),
                                         slots="{0, 1, 3, 4, 6, 8, 9}", cosmology="closed")     # rmax: 10.11 deg at z = 0.65 (9.89 deg with D_C/(1+z))
    if not quick:
        F["angular_big"] = sky.SkyConfig(nref=3, nunk=3, zcells="{2, 4}", weights="{1}", rmin=(2.5,), rmax=(12.5,))
        F["comoving"] = sky.SkyConfig(nref=3, nunk=2, zcells="{2, 4}", weights="{1}", unit="Mpc/h", edges=(0.3, 0.6, 0.9), rmin=(30.0,), rmax=(150.0,))
    return F


def compare_counts(ctx, prop, fam, sc, exp, obs, emb, extra_key=""):
    """cell-by-cell comparison; returns True when everything matches."""
    ok = True
    nb, nc = sc.nb, len(sc.centres)
    linked = {(int(i), int(j)) for i, j in exp["linked"]}
    for kind, exp_arr, obs_arr in (("cross", exp["cross"], obs.get("cross")), ("cross_dr", exp["cross"], obs.get("cross_dr")),
                                   ("cross_rd", exp["cross"], obs.get("cross_rd")), ("cross_rr", exp["cross"], obs.get("cross_rr")),
                                   ("auto", exp["auto"], obs.get("auto"))):
        if obs_arr is None:
            continue
        for s in range(len(sc.rmin)):
            for b in range(nb):
                for i in range(nc):
                    for j in range(nc):
                        e = exp_arr[s][b][i][j]
                        o = obs_arr[s][b][i][j]
                        if o != e:
                            ok = False
                            if o < e and (i != j):
                                cause = "pair_lost"
                                if fam == "low_redshift" or min(sc.edges) < 0.05:
                                    cls = "bin_centre_below_0.05"
                                else:
                                    r1, r2 = exp["rad1"], exp["rad2"]
                                    cls = "catalog_wider_than_reference_catalog" if (r1[i] != r2[i] or r1[j] != r2[j]) else "other"
                                key = f"{prop}|{kind.split('_')[0]}correlate|{cls}|pairs_lost_to_pruning"
                            else:
                                key = f"{prop}|{kind.split('_')[0]}correlate|{fam}|count_differs_from_brute_force"
                            ctx.violation(key + extra_key, dict(family=fam, embedding=str(emb), scale=s, bin=b, patch_pair=[i, j], expected=e, observed=o,
                                                                 ref=[dict(o_) for o_ in exp["ref"]], unk=[dict(o_) for o_ in exp["unk"]],
                                                                 rad_ref=list(exp["rad1"]), rad_unk=list(exp["rad2"])))
                            return ok
    if "sw1" in obs:
        for b in range(nb):
            for i in range(nc):
                if obs["sw1"][b][i] != exp["binw"][b][i]:
                    ctx.violation(f"{prop}|crosscorrelate|{fam}|sum_weights1_differs" + extra_key,
                                  dict(family=fam, bin=b, patch=i, expected=exp["binw"][b][i], observed=obs["sw1"][b][i], ref=[dict(o_) for o_ in exp["ref"]]))
                    return False
                if obs["sw2"][b][i] != exp["sumw2"][i]:
                    ctx.violation(f"{prop}|crosscorrelate|{fam}|sum_weights2_differs" + extra_key,
                                  dict(family=fam, bin=b, patch=i, expected=exp["sumw2"][i], observed=obs["sw2"][b][i]))
                    return False
                if "auto_sw1" in obs and obs["auto_sw1"][b][i] != exp["binw"][b][i]:
                    ctx.violation(f"{prop}|autocorrelate|{fam}|sum_weights1_differs" + extra_key,
                                  dict(family=fam, bin=b, patch=i, expected=exp["binw"][b][i], observed=obs["auto_sw1"][b][i], ref=[dict(o_) for o_ in exp["ref"]]))
                    return False
                for which in ("sw1_rd", "sw1_rr"):      # the reference randoms are binned by the same rule as the reference sample
                    if which in obs and obs[which][b][i] != exp["binw"][b][i]:
                        ctx.violation(f"{prop}|crosscorrelate|{fam}|sum_weights1_of_reference_randoms_differs" + extra_key,
                                      dict(family=fam, member=which[-2:], bin=b, patch=i, expected=exp["binw"][b][i], observed=obs[which][b][i],
                                           ref=[dict(o_) for o_ in exp["ref"]]))
                        return False
    return ok


def compare_weighted(ctx, fam, sc, exp, obs, emb):
    """separation weighting: every pair contributes in proportion to the power law at the
    logarithmic centre of its fine separation bin (floats: 1e-9 relative)."""
    nb, nc = sc.nb, len(sc.centres)
    for s in range(len(sc.rmin)):
        for b in range(nb):
            f = sky.separation_weights(sc, s, b)
            for i in range(nc):
                for j in range(nc):
                    e = sum(exp["bydist"][b][i][j][d - 1] * f[d] for d in range(1, sc.max_d + 1))
                    o = obs["cross"][s][b][i][j]
                    if abs(o - e) > 1e-9 * max(abs(e), 1e-12):
                        ctx.violation(f"C01|crosscorrelate|{fam}|separation_weighted_count_differs",
                                      dict(family=fam, embedding=str(emb), scale=s, bin=b, patch_pair=[i, j], expected=e, observed=o,
                                           rweight=sc.rweight, resolution=sc.resolution, ref=[dict(o_) for o_ in exp["ref"]], unk=[dict(o_) for o_ in exp["unk"]]))
                        return False
    return True


def interesting(exp):
    cross = exp["cross"]
    nz = sum(1 for s in cross for b in s for i, row in enumerate(b) for j, v in enumerate(row) if v and i != j)
    raddiff = sum(abs(a - b) for a, b in zip(exp["rad1"], exp["rad2"]))
    return nz * 3 + raddiff + (len(exp["linked"]) < len(exp["rad1"]) ** 2) + (50 if exp.get("critical") else 0)


def pick(scen, n, rng):
    """half of the sample: scenarios that are critical for the pruning / richest in cross-patch counts
    (random among equals), the other half uniformly random"""
    scen = list(scen)
    rng.shuffle(scen)
    scen.sort(key=lambda e: -interesting(e))
    top = scen[: n // 2]
    rest = scen[n // 2 :]
    return top + rng.sample(rest, min(len(rest), n - len(top)))


def realise_job(ctx, job) -> None:
    """one scenario on the real library (runs in a worker process; ctx is a collector)"""
    import shutil
    from pathlib import Path

    fam, sc, exp, emb, work = job
    work = Path(work)
    try:
        try:
            import zlib

            # a third of the scenarios: reference split by a patch-index column, centres and radii derived from its data
            obs = sky.realise(sc, exp, work, emb, want=("cross",) if sc.rweight is not None else ("cross", "auto"),
                              derived=zlib.crc32(repr(exp["ref"]).encode()) % 3 == 0)
        except Exception as exc:  # noqa: BLE001
            ctx.violation(f"C01|measure|{fam}|raises_{type(exc).__name__}", dict(family=fam, error=repr(exc)[:300], ref=[dict(o) for o in exp["ref"]]))
            return
        ctx.evaluated(1, (fam, emb, repr(exp["ref"]), repr(exp["unk"])) if interesting(exp) > 0 else None)
        if obs.get("derived_centres"):
            ctx.evaluated(0, ("derived_centres", fam, emb, repr(exp["ref"]), repr(exp["unk"])))
        ctx.validated(1)
        if sc.rweight is not None:
            compare_weighted(ctx, fam, sc, exp, obs, emb)
        else:
            compare_counts(ctx, "C01", fam, sc, exp, obs, emb)
    finally:
        shutil.rmtree(work, ignore_errors=True)


def run(ctx) -> None:
    data.import_yaw()
    rng = random.Random(ctx.seed)
    quick = ctx.quick
    ctx.rule = ("scenarios enumerated exhaustively by TLC per configuration family (objects on a 10-12 slot window of a 72-slot ring, 2-3 centres, "
                "2 redshift bins); a stratified sample of them is realised on the real sphere under rigid placements; non-trivial = at least one "
                "non-zero cross-patch cell or unequal patch radii")
    ctx.assume("all separations are multiples of 5 deg and all scale thresholds lie between lattice distances: geometry between lattice points is not exercised (C14)")
    pair_iteration(ctx)
    progress_wrapper(ctx)
    F = families(quick)
    embs = ["equator", "ra_wrap", "meridian_pole", "tilted"] if quick else list(sky.EMBEDDINGS)
    nreal = 40 if quick else 400
    with scratch("c01_") as root:
        n = 0
        jobs = []
        for sc in F.values():
            sc.derive()
        outs = sky.model_check_many(ctx, [(f"Sky ideal, family {fam}", sc, sky.DESIGN_INVS, {}) for fam, sc in F.items()])
        for (fam, sc), (res, scen) in zip(F.items(), outs):
            ctx.require(res.ok, f"Sky ideal ({fam}) violated: {res.error_name}")
            ctx.require(len(scen) > 0, f"no scenarios printed for {fam}")
            ctx.extra.setdefault("families", {})[fam] = dict(scenarios=len(scen), lo=sc.lo, hi=sc.hi, theta_impl=sc.theta_impl, unit=sc.unit)
            for exp in pick(scen, nreal, rng):
                emb = embs[n % len(embs)]
                n += 1
                jobs.append((fam, sc, exp, emb, str(root / f"job{n}")))
        par.pmap(ctx, realise_job, jobs)
        for fam, sc, exp, emb, _ in jobs:
            if len(ctx.samples) < 5 and interesting(exp) > 3:
                ctx.sample(dict(family=fam, embedding=emb, ref=[dict(o) for o in exp["ref"]], unk=[dict(o) for o in exp["unk"]],
                                expected_cross=sky.nested(exp["cross"]), linked=sorted(map(list, exp["linked"]))))
        # deviations: TLC must find the pruning counterexamples; they are replayed on the real code
        for dev, fam in (("RadiiFromLargestCatalog", "angular"), ("MaxAngleFloored", "low_redshift")):
            sc = F[fam]
            res, _ = sky.model_check(ctx, f"Sky deviation {dev}, family {fam}", sc, ["PruningLosesNothing"], deviations='{"%s"}' % dev, want_print=False)
            if dev == "MaxAngleFloored" and sc.theta_impl >= max(max(r) for r in sc.hi):
                # the pruning angle the REAL get_max_angle returns already covers every bin: deviation absent from the code
                ctx.require(res.ok, "MaxAngleFloored with a covering angle must be equivalent to the ideal design")
                ctx.extra.setdefault("deviation_replays", {})[dev] = dict(present_in_code=False, theta_impl=sc.theta_impl, theta_needed=max(max(r) for r in sc.hi))
                continue
            ctx.require(not res.ok and res.error_name == "PruningLosesNothing", f"deviation {dev} yields no counterexample (stale)")
            st = res.trace[-1]["state"]
            # expected values of the counterexample scenario: re-run the ideal spec restricted to it
            import copy

            one = copy.copy(sc)
            exp = expected_for(ctx, one, st)
            obs = sky.realise(sc, exp, root / "cex", "equator", want=("cross", "auto"))
            ctx.validated(1)
            ok = compare_counts(ctx, "C01", fam, sc, exp, obs, "equator")
            ctx.extra.setdefault("deviation_replays", {})[dev] = dict(scenario=dict(ref=st["ref"], unk=st["unk"]), real_code_exact=ok)


def pair_iteration(ctx):
    """spec/PairIter.tla: iter_patch_id_pairs for every symmetric reflexive link relation;
    the order produced by the real code must be one of the orders TLC enumerates."""
    from harness import tlc
    from yaw.correlation.measurements import PatchLinkage

    np_ = 3 if ctx.quick else 4
    cfg = tlc.make_cfg(constants=dict(NP=np_, Autos="{TRUE, FALSE}"),
                       invariants=["EachLinkedPairOnce", "NeverTwice", "AutosFirst", "PrintDone"], properties=["Termination"])
    res = tlc.run("PairIter", cfg, coverage=True)
    ctx.add_tlc(f"PairIter: all link relations on {np_} patches, all pop orders", res)
    ctx.require(res.ok, f"PairIter violated: {res.error_kind} {res.error_name}")
    for act in ("AutoStep", "RoundStep", "RoundEnd"):
        ctx.require(res.coverage.get(act, (0, 0))[1] > 0, f"PairIter action {act} never taken")
    allowed = {}
    for links0, auto, yielded in res.printed("done"):
        rel = tuple(tuple(sorted(links0[i])) for i in sorted(links0)) if isinstance(links0, dict) else tuple(tuple(sorted(x)) for x in links0)
        allowed.setdefault((rel, bool(auto)), set()).add(tuple(tuple(p) for p in yielded))
    cfgobj = sky.SkyConfig().yaw_config()
    for (rel, auto), orders in allowed.items():
        links = {i: set(j - 1 for j in rel[i]) for i in range(np_)}          # patch ids are 0-based in the library
        got = tuple((i + 1, j + 1) for i, j in PatchLinkage(cfgobj, links).iter_patch_id_pairs(auto=auto))
        ctx.evaluated(1, ("pairiter", rel, auto))
        ctx.validated(1)
        want = {(i + 1, j) for i in range(np_) for j in rel[i] if (not auto or j >= i + 1)}
        if sorted(got) != sorted(want):
            kind = "auto" if auto else "cross"
            missing = sorted(want - set(got))
            ctx.violation(f"C01|iter_patch_id_pairs|{kind}|linked_pairs_not_visited_exactly_once",
                          dict(links={k: sorted(v) for k, v in links.items()}, auto=auto, yielded=list(got), missing=missing[:4],
                               duplicates=len(got) - len(set(got))))
        elif got not in orders:
            ctx.drift("C01|iter_patch_id_pairs|order_not_among_model_orders", dict(links={k: sorted(v) for k, v in links.items()}, auto=auto, yielded=list(got)))
    ctx.extra["pair_iteration"] = dict(link_relations=len(allowed) // 2, patches=np_)


def progress_wrapper(ctx):
    """spec/Progress.tla: the Indicator progress wrapper around every result iterator of a
    progress=True run (pair counts, trees, input chunks).  Every terminal behaviour TLC
    enumerates (item count, root/other rank, known/unknown total, failing source, every
    pattern of clock advances) is replayed on the real class with a scripted clock; the
    items handed on must be the source's items, each once, in order."""
    import io
    import math

    import yaw.utils.logging as ylog
    from harness import tlc

    maxn = 3 if ctx.quick else 4
    consts = dict(MaxN=maxn, Ticks="{0, 1, 2}", Intervals="{0, 1}")
    laws = ["PassThrough", "CompleteAtEnd", "RaisePropagates", "SilentOffRoot", "Throttled", "CloseCountsAll"]
    cfg = tlc.make_cfg(constants=dict(consts, Dev='"none"'), invariants=laws + ["PrintDone"], properties=["Termination"])
    res = tlc.run("Progress", cfg, coverage=True)
    ctx.add_tlc(f"Progress: Indicator over <= {maxn} items, every clock pattern", res)
    ctx.require(res.ok, f"Progress violated: {res.error_kind} {res.error_name}")
    for act in ("Begin", "Step", "StepOff", "Raise", "Close"):
        ctx.require(res.coverage.get(act, (0, 0))[1] > 0, f"Progress action {act} never taken")
    dev = tlc.run("Progress", tlc.make_cfg(constants=dict(consts, Dev='"SkipWhenFast"'), invariants=["PassThrough"]), workers=1)
    ctx.add_tlc("Progress deviation SkipWhenFast (throttle skips the yield)", dev)
    ctx.require(dev.error_kind == "invariant" and dev.error_name == "PassThrough", "deviation SkipWhenFast gave no PassThrough counterexample")

    class Recorder:
        def __init__(self):
            self.calls = []

        def display(self, step, frac, elapsed):
            self.calls.append((int(step), float(elapsed), False, frac))

        def close(self, step, frac, elapsed):
            self.calls.append((int(step), float(elapsed), True, frac))

    class SourceError(RuntimeError):
        pass

    behaviours = res.printed("prog")
    ctx.require(len(behaviours) > 100, f"only {len(behaviours)} Progress behaviours printed")
    saved = (ylog.default_timer, ylog.on_root)
    seen = set()
    try:
        for n, known, root, failat, interval, ticks, yielded, shown, st in behaviours:
            key = (n, known, root, failat, interval, tuple(ticks))
            if key in seen:
                continue
            seen.add(key)
            items = [f"item{k}" for k in range(1, n + 1)]

            def source():
                for k, it in enumerate(items, 1):
                    if k == failat:
                        raise SourceError(k)
                    yield it

            clock = [0.0]
            for d in ticks:
                clock.append(clock[-1] + float(d))
            reads = []

            def timer():
                reads.append(1)
                return clock[min(len(reads) - 1, len(clock) - 1)]

            ylog.default_timer, ylog.on_root = timer, (lambda r=root: bool(r))
            rec = Recorder()
            got, outcome = [], "closed"
            try:
                ind = ylog.Indicator(source(), n if known else None, min_interval=float(interval), stream=io.StringIO())
                ind.printer = rec
                for it in ind:
                    got.append(it)
            except SourceError:
                outcome = "raised"
            except Exception as err:  # noqa: BLE001
                outcome = "raises_" + type(err).__name__
            ctx.evaluated(1, ("progress",) + key)
            ctx.validated(1)
            cond = ("fast_arrivals" if 0 in ticks else "slow_arrivals") if root else "other_rank"
            if failat:
                cond = "source_raises"
            case = dict(items=n, total_known=bool(known), root=bool(root), source_raises_at=failat, min_interval=interval, clock_advances=list(ticks),
                        handed_on=got, outcome=outcome)
            want = [items[k - 1] for k in yielded]
            if got != want:
                ctx.violation(f"C01|progress_indicator|{cond}|items_not_passed_through_exactly_once_in_order", dict(case, expected=want))
            elif outcome != st:
                ctx.violation(f"C01|progress_indicator|{cond}|ends_{outcome}_instead_of_{st}", case)
            else:
                model = [(r["i"], float(r["e"]), bool(r["c"])) for r in shown[(1 if root else 0):]]   # start line: written by __init__ to the stream
                if [c[:3] for c in rec.calls] != model or len(reads) != len(clock) * bool(root):
                    ctx.drift("C01|progress_indicator|display_differs_from_model", dict(case, displays=[c[:3] for c in rec.calls], model=model, timer_reads=len(reads)))
                elif any((math.isnan(c[3]) != (not known or n == 0)) for c in rec.calls):
                    ctx.drift("C01|progress_indicator|fraction_differs_from_model", dict(case, displays=[repr(c) for c in rec.calls]))
    finally:
        ylog.default_timer, ylog.on_root = saved
    ctx.extra["progress_wrapper"] = dict(behaviours=len(seen), max_items=maxn, clock_advances=[0, 1, 2], min_intervals=[0, 1])


def expected_for(ctx, sc, st):
    """Expected record of ONE scenario: TLC on the ideal spec with Init narrowed to it."""
    from harness import tlc
    from harness.tlaval import to_tla

    defs = sc.tla_defs("{}")
    ref = "<<" + ", ".join(f"[s |-> {o['s']}, z |-> {o['z']}, w |-> {o['w']}]" for o in st["ref"]) + ">>"
    unk = "<<" + ", ".join(f"[s |-> {o['s']}, w |-> {o['w']}]" for o in st["unk"]) + ">>"
    name, mods, consts = tlc.mc_module("Sky", defs)
    text = mods[name].replace("====", f"OneInit == ref = {ref} /\\ unk = {unk}\n====")
    cfg = tlc.make_cfg(spec=None, init="OneInit", next_="Next", constants=consts, invariants=["PrintScenario"], deadlock=False)
    res = tlc.run(name, cfg, extra_modules={name: text})
    ctx.add_tlc("Sky expected values of a counterexample scenario", res)
    return res.printed("scenario")[0]
