"""C06 - MPI runs terminate and the root rank gets the single-process result.

Specs     : MPISem + IterUnorderedMPI (iter_unordered protocol), CreateMPI (MPI
            write_patches pipeline), CollectiveIO (collective skeleton).
TLC       : termination (liveness under WF), exactly-once execution/collection,
            no record lost, no leftover message - for world sizes 2..4(5), all
            max_workers, eager and rendezvous sends, every wildcard match.
            Deviation configs (code as found) must yield counterexamples.
code->spec: the REAL library runs on a fake mpi4py (one cooperative thread per
            rank, scheduler-controlled matching); its event logs (segments of
            iter_unordered / write_patches) are validated by TLC against
            IterUnorderedMPITrace / CreateMPITrace; the collective sequences of
            whole workloads are model-checked by CollectiveIO.
spec->code: TLC counterexamples and simulated behaviours are replayed on the
            runtime (the scheduler follows the TLC actions) against the real
            functions.
oracle    : exact deadlock detection, per-rank exceptions, and the root's
            results (records on disk, metadata, CorrFunc, HistData, file
            round trip) compared with a single-process reference run.
"""

from __future__ import annotations

import json
import os
import random
import subprocess
import sys

import numpy as np

from harness import data, detrt, fakempi, tlc, tracecheck
from harness.yawenv import scratch

ITER_INVS = ["TypeOK", "ExecutedExactlyOnce", "NeverTwice", "CollectedExactlyOnce", "NoLeftover", "ActiveBounded"]
CREATE_INVS = ["TypeOK", "NoRecordLost", "NoLeftover", "Rejects"]
BOTH = '{"eager", "sync"}'
EAGER = '{"eager"}'


def iter_consts(size, nt, mw, modes=EAGER, dev="{}", node_only=False, remote="{}"):
    return dict(Size=size, NT=nt, MaxWorkers=mw, NodeOnly="TRUE" if node_only else "FALSE", RemoteRanks=remote,
                SendModes=modes, Deviations=dev)


def create_consts(size, mw, nc, modes=EAGER, dev="{}", remote="{}"):
    return dict(Size=size, MaxWorkers=mw, NC=nc, SendModes=modes, RemoteRanks=remote, Deviations=dev)


# ---------------------------------------------------------------------------
# A. model checking
# ---------------------------------------------------------------------------


def model_check(ctx):
    quick = ctx.quick
    iter_matrix = [
        (2, 3, 0, BOTH), (3, 3, 0, BOTH), (3, 0, 0, BOTH), (3, 4, 2, BOTH), (4, 4, 0, EAGER), (4, 3, 2, BOTH), (4, 2, 3, BOTH),
        (3, 2, 1, BOTH),  # ideal design: max_workers=1 still has one worker
    ]
    if not quick:
        iter_matrix += [(4, 5, 0, BOTH), (5, 5, 3, EAGER), (5, 4, 0, EAGER), (4, 4, 1, BOTH)]
    for size, nt, mw, modes in iter_matrix:
        cfg = tlc.make_cfg(constants=iter_consts(size, nt, mw, modes), invariants=ITER_INVS, properties=["Termination"])
        res = tlc.run("IterUnorderedMPI", cfg, coverage=True)
        ctx.add_tlc(f"IterUnorderedMPI ideal Size={size} NT={nt} max_workers={mw or None} modes={modes}", res)
        ctx.require(res.ok, f"IterUnorderedMPI ideal design violated: {res.error_kind} {res.error_name}")
    # rank0_node_only with a remote rank
    cfg = tlc.make_cfg(constants=iter_consts(4, 3, 0, BOTH, node_only=True, remote="{3}"), invariants=ITER_INVS, properties=["Termination"])
    res = tlc.run("IterUnorderedMPI", cfg)
    ctx.add_tlc("IterUnorderedMPI ideal rank0_node_only, rank 3 remote", res)
    ctx.require(res.ok, "IterUnorderedMPI node-only config violated")
    # deviation: the code as found
    cfg = tlc.make_cfg(constants=iter_consts(3, 2, 1, EAGER, dev='{"NoEligibleWorker"}'), invariants=["ExecutedExactlyOnce", "CollectedExactlyOnce"])
    res = tlc.run("IterUnorderedMPI", cfg)
    ctx.add_tlc("IterUnorderedMPI deviation NoEligibleWorker (max_workers=1)", res)
    ctx.require(not res.ok and res.error_name in ("ExecutedExactlyOnce", "CollectedExactlyOnce"),
                "deviation NoEligibleWorker yields no counterexample (stale)")
    cex_iter = res.trace

    create_matrix = [(2, 0, 2, BOTH), (3, 0, 2, BOTH), (3, 0, 3, EAGER), (4, 0, 2, EAGER), (4, 3, 2, BOTH), (3, 1, 2, EAGER), (3, 0, 0, BOTH)]
    if not quick:
        create_matrix += [(4, 0, 2, BOTH), (4, 0, 3, EAGER), (5, 0, 2, EAGER), (5, 3, 3, EAGER)]
    for size, mw, nc, modes in create_matrix:
        cfg = tlc.make_cfg(constants=create_consts(size, mw, nc, modes), invariants=CREATE_INVS, properties=["Termination"])
        res = tlc.run("CreateMPI", cfg, coverage=True)
        ctx.add_tlc(f"CreateMPI ideal Size={size} max_workers={mw or None} chunks={nc} modes={modes}", res)
        ctx.require(res.ok, f"CreateMPI ideal design violated: {res.error_kind} {res.error_name}")
    for size, mw, remote in ((4, 2, "{1, 3}"), (4, 0, "{1}"), (5, 3, "{1, 2}")):
        cfg = tlc.make_cfg(constants=create_consts(size, mw, 2, BOTH, remote=remote), invariants=CREATE_INVS, properties=["Termination"])
        res = tlc.run("CreateMPI", cfg)
        ctx.add_tlc(f"CreateMPI ideal Size={size} max_workers={mw or None} ranks {remote} on another node", res)
        ctx.require(res.ok, f"CreateMPI with remote ranks violated: {res.error_kind} {res.error_name}")
    # (only the invariant the deviation is meant to break: which violated invariant TLC meets first must not depend on thread timing)
    cfg = tlc.make_cfg(constants=create_consts(3, 0, 2, EAGER, dev='{"SingleRootEOQ"}'), invariants=["NoRecordLost"])
    res = tlc.run("CreateMPI", cfg)
    ctx.add_tlc("CreateMPI deviation SingleRootEOQ, eager sends", res)
    ctx.require(not res.ok and res.error_name == "NoRecordLost", "deviation SingleRootEOQ yields no counterexample (stale)")
    cex_create = res.trace
    cfg = tlc.make_cfg(constants=create_consts(3, 0, 2, '{"sync"}', dev='{"SingleRootEOQ"}'), invariants=CREATE_INVS, properties=["Termination"])
    res = tlc.run("CreateMPI", cfg)
    ctx.add_tlc("CreateMPI deviation SingleRootEOQ, rendezvous sends only (safe)", res)
    ctx.extra["single_eoq_safe_under_rendezvous"] = res.ok
    return cex_iter, cex_create


# ---------------------------------------------------------------------------
# helpers for running the real code on the fake MPI
# ---------------------------------------------------------------------------


def _ident(x):
    return x


def iter_program(nt, mw, node_only=False):
    from yaw.utils import parallel

    def prog(rank):
        return list(parallel.iter_unordered(_ident, range(1, nt + 1), max_workers=mw, rank0_node_only=node_only))

    return prog


def iter_argfn(obj):
    if isinstance(obj, tuple):
        return int(obj[1])
    if isinstance(obj, (int, np.integer)):
        return int(obj)
    return 0


def spec_events(log, *, keep=lambda e: True):
    out = []
    for e in log:
        if not keep(e) or e.get("ev") in ("seg_begin", "seg_end"):
            continue
        e = dict(e)
        if e.get("cls") == "EndOfQueue":
            e["cls"] = "EOQ"
        out.append(e)
    return out


# ---------------------------------------------------------------------------
# B. code -> spec for iter_unordered
# ---------------------------------------------------------------------------


def validate_iter_traces(ctx, rng):
    quick = ctx.quick
    configs = [(3, 3, None), (3, 4, 2), (4, 3, None), (2, 2, None), (4, 2, 3)]
    if not quick:
        configs += [(4, 5, None), (5, 4, 3), (3, 0, None)]
    nruns = 12 if quick else 60
    for size, nt, mw in configs:
        traces, metas = [], []
        for i in range(nruns):
            seed = rng.randrange(1 << 30)
            out = fakempi.run_world(size, iter_program(nt, mw), seed=seed, send_modes=("eager", "sync"), argfn=iter_argfn)
            oracle_iter(ctx, out, size, nt, mw, seed)
            traces.append(spec_events(out["log"]))
            metas.append(seed)
        # binding demonstration: one corrupted field, one dropped event
        bad1 = [dict(e) for e in traces[0]]
        for e in bad1:
            if e["ev"] == "recv" and e.get("cls") == "Result" and nt > 1:
                e["arg"] = e["arg"] % nt + 1
                break
        else:
            for e in bad1:     # no result message to corrupt (no or a single task): corrupt a message class instead
                if e["ev"] == "send":
                    e["cls"] = "Task" if e.get("cls") == "EOQ" else "EOQ"
                    break
        bad2 = [dict(e) for e in traces[0]]
        del bad2[len(bad2) // 2]
        consts = iter_consts(size, nt, mw or 0, BOTH)
        res, verdicts = tracecheck.validate("IterUnorderedMPITrace", consts, traces + [bad1, bad2], invariants=["NeverTwice", "TypeOK", "ActiveBounded"])
        ctx.add_tlc(f"IterUnorderedMPITrace Size={size} NT={nt} max_workers={mw}", res, traces=len(traces))
        ctx.require(res.ok, f"invariant violated on a real trace: {res.error_name}")
        ctx.require(not verdicts[-1][1] and not verdicts[-2][1], "binding demonstration failed: corrupted trace accepted")
        for (matched, ok), tr, seed in zip(verdicts, traces, metas):
            ctx.validated(1)
            if not ok:
                ctx.drift("C06|iter_unordered|trace_not_explained_by_spec",
                          dict(size=size, nt=nt, max_workers=mw, seed=seed, matched_prefix=matched,
                               first_unmatched=tr[matched] if matched < len(tr) else "end: not Done"))
        ctx.sample(dict(kind="iter_unordered trace", size=size, nt=nt, max_workers=mw, events=len(traces[0]),
                        head=[{k: v for k, v in e.items() if k in ("ev", "src", "dst", "tag", "cls", "arg", "mode")} for e in traces[0][:4]]))
    ctx.extra["binding_demo_iter"] = "corrupted Result arg and dropped event both rejected"


def oracle_iter(ctx, out, size, nt, mw, seed, node_only=False):
    """Property predicate on the real run of iter_unordered."""
    ctx.evaluated(1, ("iter", size, nt, mw, seed))
    where = f"size={size},nt={nt},max_workers={mw}"
    mwkey = "max_workers=1" if mw == 1 else "max_workers=ok"
    if out["outcome"] == "deadlock":
        ctx.violation(f"C06|iter_unordered|{mwkey}|deadlock", dict(where=where, seed=seed, waiting=out["waiting"]))
        return
    if out["outcome"] == "error":
        ctx.violation(f"C06|iter_unordered|{mwkey}|rank_raised", dict(where=where, seed=seed, errors=[repr(e) for e in out["errors"]]))
        return
    got = sorted(out["results"][0])
    if got != list(range(1, nt + 1)):
        ctx.violation(f"C06|iter_unordered|{mwkey}|tasks_not_executed_exactly_once",
                      dict(where=where, seed=seed, root_collected=out["results"][0], expected=list(range(1, nt + 1))))
    if out["leftover"]:
        ctx.violation(f"C06|iter_unordered|{mwkey}|messages_left_over", dict(where=where, seed=seed, leftover=out["leftover"]))


# ---------------------------------------------------------------------------
# C. spec -> code: replay TLC behaviours on the runtime
# ---------------------------------------------------------------------------

W = ("W",)


def iter_script(trace):
    """TLC actions of IterUnorderedMPI -> predicates over (task, label, option)."""
    script = []
    for step in trace[1:]:
        a, c = step["action"], step["context"]
        st = step["state"]
        if a in ("RootFirst", "RootReply"):
            script.append((lambda t, l, o: t == "rank0" and l[0] == "send" and l[4] == 1, a))
        elif a == "RootRecv":
            w = c["w"]
            script.append((lambda t, l, o, w=w: t == "rank0" and l[0] == "recv" and o == w, f"{a}({w})"))
        elif a == "WRecv":
            r = c["r"]
            script.append((lambda t, l, o, r=r: t == f"rank{r}" and l[0] == "recv", f"{a}({r})"))
        elif a == "WSend":
            r = c["r"]
            script.append((lambda t, l, o, r=r: t == f"rank{r}" and l[0] == "send", f"{a}({r})"))
        elif a == "SyncDone":
            r = c["r"]
            script.append((lambda t, l, o, r=r: t == f"rank{r}" and l[0] == "sendwait", f"{a}({r})"))
        elif a == "BarrierArrive":
            r = c["r"]
            script.append((lambda t, l, o, r=r: t == f"rank{r}" and l[0] == "coll" and l[1] == "Barrier", f"{a}({r})"))
        elif a == "BarrierPass":
            r = c["r"]
            script.append((lambda t, l, o, r=r: t == f"rank{r}" and l[0] == "collwait" and l[1] == "Barrier", f"{a}({r})"))
        # RootFirstEnd / RootLoopExit: no scheduling point in the code
    return script


def mode_fix(script_pred, mode):
    return script_pred


def auto_start(t, l, o):
    return l[0] == "start"


def replay_iter(ctx, cex, rng):
    # 1. the counterexample of the deviation, on the real code
    size, nt, mw = 3, 2, 1
    ch = detrt.ReplayChooser(iter_script(cex), auto_start)
    out = fakempi.run_world(size, iter_program(nt, mw), chooser=ch, send_modes=("eager",), argfn=iter_argfn)
    ctx.validated(1)
    ctx.extra["replay_NoEligibleWorker"] = dict(
        tlc_actions=[s["action"] for s in cex[1:]], divergences=ch.divergences,
        real_root_collected=out["results"][0], outcome=out["outcome"])
    oracle_iter(ctx, out, size, nt, mw, seed=-1)
    # 2. simulated behaviours of the ideal spec replayed step by step
    nsim = 20 if ctx.quick else 150
    for size, nt, mw in [(3, 3, 0), (4, 3, 2)]:
        cfg = tlc.make_cfg(constants=iter_consts(size, nt, mw, BOTH), invariants=ITER_INVS, deadlock=False)
        res, behaviours = tlc.simulate("IterUnorderedMPI", cfg, num=nsim, depth=80, seed=rng.randrange(1 << 20))
        ctx.add_tlc(f"IterUnorderedMPI simulate Size={size} NT={nt} mw={mw}", res, behaviours=len(behaviours))
        ndiv = 0
        for beh in behaviours:
            trace = [dict(action=a, context=_ctx_from_params(a, p), state=st) for a, p, st in beh]
            script = iter_script(trace)
            # send modes: follow the behaviour (sync iff the spec state shows pc = swait)
            script = _with_modes(script, trace)
            ch = detrt.ReplayChooser(script, auto_start)
            out = fakempi.run_world(size, iter_program(nt, mw or None), chooser=ch, send_modes=("eager", "sync"), argfn=iter_argfn)
            ctx.validated(1)
            oracle_iter(ctx, out, size, nt, mw or None, seed=-2)
            final = trace[-1]["state"]
            done = all(v == "done" for v in fvalues(final["pc"]))
            if ch.divergences:
                ndiv += 1
                ctx.drift("C06|iter_unordered|spec_behaviour_not_executable", dict(size=size, nt=nt, mw=mw, divergence=ch.divergences[0]))
            elif done and out["outcome"] == "ok":
                coll = list(final["collected"])
                if list(out["results"][0]) != coll:
                    ctx.drift("C06|iter_unordered|collected_order_differs_from_spec", dict(spec=coll, real=out["results"][0]))
        ctx.extra.setdefault("replayed_behaviours", []).append(dict(size=size, nt=nt, mw=mw, behaviours=len(behaviours), diverged=ndiv))


def _ctx_from_params(action, params):
    if action in ("RootRecv",):
        return {"w": params[0]} if params else {}
    if action in ("WorkerGetSplit", "SendPatches", "WBarrierArrive", "WBarrierPass", "SendEOQ", "GBarrierArrive", "GBarrierPass",
                  "WRecv", "WSend", "SyncDone", "BarrierArrive", "BarrierPass"):
        return {"r": params[0]} if params else {}
    if action == "WriterRecv":
        return {"s": params[0]} if params else {}
    return {}


def fget(f, k):
    """Apply a TLA+ function parsed either from JSON (string keys / list) or
    from TLC's text format (int keys / tuple)."""
    if isinstance(f, dict):
        return f[k] if k in f else f[str(k)]
    return f[k]


def fvalues(f):
    return list(f.values()) if isinstance(f, dict) else list(f)


def _with_modes(script, trace):
    """Refine send predicates with the mode the behaviour chose: a send action
    whose successor state has the sender in pc='swait' was synchronous."""
    out = []
    k = 0
    for step in trace[1:]:
        a = step["action"]
        if a in ("RootFirstEnd", "RootLoopExit", "WriterFinalize", "ReaderScatterNone"):
            continue
        pred, descr = script[k]
        k += 1
        if a in ("RootFirst", "RootReply", "WSend", "ReaderScatter", "SendPatches", "SendEOQ"):
            r = 0 if a in ("RootFirst", "RootReply", "ReaderScatter") else step["context"].get("r")
            pcs = step["state"]["pc"]
            pcv = fget(pcs, r)
            mode = "sync" if pcv == "swait" else "eager"
            out.append((lambda t, l, o, pred=pred, mode=mode: pred(t, l, o) and o == mode, f"{descr}[{mode}]"))
        else:
            out.append((pred, descr))
    return out


# ---------------------------------------------------------------------------
# D. CreateMPI: traces of the real write_patches + replay of the counterexample
# ---------------------------------------------------------------------------


def create_frame(n, npatch, seed):
    """Records carry their index in the weight column (ids), patch by nearest centre."""
    df = data.frame(seed, n, npatch, weights=False)
    df = df.reset_index(drop=True)
    df["w"] = np.arange(len(df), dtype=float)
    return df


def create_program(path, df, centers, chunksize, mw, results):
    yaw = data.import_yaw()

    def prog(rank):
        cat = yaw.Catalog.from_dataframe(path, df, ra_name="ra", dec_name="dec", weight_name="w", redshift_name="z",
                                         patch_centers=centers, overwrite=True, chunksize=chunksize, max_workers=mw)
        ids = sorted(int(x) for p in cat.values() for x in p.weights)
        return dict(keys=list(cat.keys()), ids=ids)

    return prog


def segment(log, name):
    """Events of all ranks while they are inside segment ``name`` (per-rank
    markers emitted by the harness wrappers)."""
    inside = {}
    out = []
    for e in log:
        p = e.get("p")
        if e.get("ev") == "seg_begin" and e.get("name") == name:
            inside[p] = True
            continue
        if e.get("ev") == "seg_end" and e.get("name") == name:
            inside[p] = False
            continue
        if inside.get(p) and e.get("ev") not in ("seg_begin", "seg_end"):
            out.append(e)
    return out


def install_markers():
    """Wrap write_patches / _mpi_iter_unordered so that the log can be cut into
    per-protocol segments (harness-side, no source hook)."""
    import yaw.catalog.catalog as cc
    from yaw.utils import parallel

    if getattr(cc, "_verif_wrapped", False):
        return
    cc._verif_wrapped = True
    orig_wp = cc.write_patches

    def write_patches(*a, **k):
        s = fakempi._current["world"].s if fakempi._current["world"] else None
        if s:
            s.emit(ev="seg_begin", name="write_patches")
        try:
            return orig_wp(*a, **k)
        finally:
            if s:
                s.emit(ev="seg_end", name="write_patches")

    cc.write_patches = write_patches
    orig_iu = parallel._mpi_iter_unordered

    def _mpi_iter_unordered(*a, **k):
        s = fakempi._current["world"].s if fakempi._current["world"] else None
        if s:
            s.emit(ev="seg_begin", name="iter_unordered")
        try:
            yield from orig_iu(*a, **k)
        finally:
            if s:
                s.emit(ev="seg_end", name="iter_unordered")

    parallel._mpi_iter_unordered = _mpi_iter_unordered


def create_argfn(chunksize):
    def argfn(obj):
        try:
            if isinstance(obj, dict):
                for v in obj.values():
                    if len(v):
                        return int(v["weights"][0]) // chunksize + 1
                return -1
            if isinstance(obj, np.ndarray) and obj.dtype.names and "weights" in obj.dtype.names:
                return int(obj["weights"][0]) // chunksize + 1 if len(obj) else -1
        except Exception:
            return -1
        return 0

    return argfn


def writer_of(log):
    for e in log:
        if e.get("ev") == "send" and e.get("cls") == "Patches":
            return e["dst"]
    return 1


def oracle_create(ctx, out, n, where, seed):
    ctx.evaluated(1, ("create", where, seed))
    if out["outcome"] == "deadlock":
        ctx.violation("C06|write_patches|deadlock", dict(where=where, seed=seed, waiting=out["waiting"]))
        return False
    if out["outcome"] == "error":
        errs = [repr(e) for e in out["errors"]]
        ctx.violation("C06|write_patches|rank_raised", dict(where=where, seed=seed, errors=errs))
        return False
    root = out["results"][0]
    if root["ids"] != list(range(n)):
        lost = sorted(set(range(n)) - set(root["ids"]))
        ctx.violation("C06|write_patches|records_lost",
                      dict(where=where, seed=seed, stored=len(root["ids"]), expected=n, first_lost=lost[:5],
                           duplicated=len(root["ids"]) - len(set(root["ids"]))))
        return False
    if out["leftover"]:
        # the writer stopped before consuming every message, but no record is missing (empty parts): not a
        # violation of the property as stated, recorded as drift from the ideal protocol
        ctx.drift("C06|write_patches|messages_left_over_without_record_loss", dict(where=where, seed=seed, leftover=out["leftover"]))
    return True


def create_script(trace):
    script = []
    for step in trace[1:]:
        a, c = step["action"], step["context"]
        if a == "ReaderScatter":
            script.append((lambda t, l, o: t == "rank0" and l[0] == "send" and l[4] == 2, a))
        elif a == "WorkerGetSplit":
            r = c["r"]
            script.append((lambda t, l, o, r=r: t == f"rank{r}" and l[0] == "recv" and l[4] == 2, f"{a}({r})"))
        elif a in ("SendPatches", "SendEOQ"):
            r = c["r"]
            script.append((lambda t, l, o, r=r: t == f"rank{r}" and l[0] == "send" and l[4] == 1 and l[1] == W, f"{a}({r})"))
        elif a == "WriterRecv":
            s = c["s"]
            script.append((lambda t, l, o, s=s: l[0] == "recv" and l[1] == W and l[4] == 1 and l[3] == fakempi.ANY_SOURCE and o == s, f"{a}({s})"))
        elif a == "SyncDone":
            r = c["r"]
            script.append((lambda t, l, o, r=r: t == f"rank{r}" and l[0] == "sendwait", f"{a}({r})"))
        elif a in ("WBarrierArrive", "GBarrierArrive"):
            r = c["r"]
            world = a[0] == "G"
            script.append((lambda t, l, o, r=r, world=world: t == f"rank{r}" and l[0] == "coll" and l[1] == "Barrier" and (l[2] == W) == world, f"{a}({r})"))
        elif a in ("WBarrierPass", "GBarrierPass"):
            r = c["r"]
            world = a[0] == "G"
            script.append((lambda t, l, o, r=r, world=world: t == f"rank{r}" and l[0] == "collwait" and l[1] == "Barrier" and (l[2] == W) == world, f"{a}({r})"))
    return script


def auto_create(t, l, o):
    """Transitions of the real program that CreateMPI does not model."""
    if l[0] == "start":
        return True
    if l[0] in ("coll", "collwait") and l[1] in ("gather", "bcast", "Split"):
        return True
    return False


def create_checks(ctx, cex, rng, root):
    quick = ctx.quick
    npatch = 2
    centers = data.centers_grid(npatch)
    # 1. replay of the TLC counterexample (Size 3, 2 chunks) on the real write_patches
    n, chunksize = 40, 20
    df = create_frame(n, npatch, 7)
    script = create_script(cex)
    spec_writer = cex[-1]["state"]["writer"]
    ch = detrt.ReplayChooser(script, auto_create)
    out = fakempi.run_world(3, create_program(str(root / "cex"), df, centers, chunksize, None, None), chooser=ch,
                            send_modes=("eager",), argfn=create_argfn(chunksize))
    ctx.validated(1)
    real_writer = writer_of(out["log"])
    ctx.extra["replay_SingleRootEOQ"] = dict(
        tlc_actions=[f"{s['action']}{s['context'] or ''}" for s in cex[1:]], divergences=ch.divergences[:3],
        spec_writer=spec_writer, real_writer=real_writer, outcome=out["outcome"],
        real_records_stored=(len(out["results"][0]["ids"]) if out["outcome"] == "ok" else None), records_input=n)
    oracle_create(ctx, out, n, "replay of TLC counterexample SingleRootEOQ, size=3, chunks=2", -1)

    # 2. random schedules: oracle + trace validation (ideal first, then as-implemented)
    # (size, records, chunksize, max_workers, nodes): nodes = processor name per rank (None: all on one node)
    configs = [(3, 40, 20, None, None), (4, 60, 20, None, None), (2, 40, 20, None, None), (4, 45, 20, 3, None), (3, 7, 3, None, None),
               (4, 40, 20, 2, ["A", "B", "A", "B"]), (4, 40, 20, None, ["A", "B", "A", "A"])]
    if not quick:
        configs += [(5, 60, 20, None, None), (4, 61, 20, None, None), (5, 50, 10, 4, None), (5, 60, 20, 3, ["A", "B", "B", "A", "A"])]
    nruns = 25 if quick else 120
    verdict_summary = {}
    for size, n, chunksize, mw, nodes in configs:
        remote = "{" + ", ".join(str(r) for r in range(size) if nodes and nodes[r] != nodes[0]) + "}"
        df = create_frame(n, npatch, n)
        nc = -(-n // chunksize)
        traces, seeds = [], []
        for i in range(nruns):
            seed = rng.randrange(1 << 30)
            out = fakempi.run_world(size, create_program(str(root / f"c{size}"), df, centers, chunksize, mw, None), seed=seed,
                                    send_modes=("eager", "sync"), argfn=create_argfn(chunksize), nodes=nodes)
            oracle_create(ctx, out, n, f"size={size},n={n},chunksize={chunksize},max_workers={mw},nodes={'interleaved' if nodes else 'one'}", seed)
            seg = spec_events(segment(out["log"], "write_patches")) if out["outcome"] == "ok" else []
            if seg:
                seg[0] = dict(seg[0], writer=writer_of(seg))
                traces.append(seg)
                seeds.append(seed)
        if not traces:
            continue
        accepted_by = None
        for dev in ("{}", '{"SingleRootEOQ"}'):
            consts = create_consts(size, mw or 0, nc, BOTH, dev, remote=remote)
            bad = [dict(e) for e in traces[0]]
            for e in bad:
                if e["ev"] == "recv" and e.get("cls") == "Patches":
                    e["cls"] = "EOQ"
                    break
            res, verdicts = tracecheck.validate("CreateMPITrace", consts, traces + [bad], invariants=["TypeOK"], extra_fields=dict(writer=-1))
            if res.distinct:
                ctx.add_tlc(f"CreateMPITrace Size={size} chunks={nc} mw={mw} Deviations={dev}", res, traces=len(traces))
            nacc = sum(ok for _, ok in verdicts[:-1])
            ctx.require(not verdicts[-1][1], "binding demonstration failed: corrupted create trace accepted")
            if nacc == len(traces):
                accepted_by = dev
                break
            verdict_summary.setdefault(f"size={size},chunks={nc},mw={mw},remote={remote}", {})[dev] = dict(
                accepted=nacc, of=len(traces),
                first_unmatched=next(({k: v for k, v in tr[m].items() if k in ("ev", "cls", "src", "dst", "tag", "wr", "kind")}
                                      for (m, ok), tr in zip(verdicts, traces) if not ok and m < len(tr)), None))
        ctx.validated(len(traces))
        verdict_summary.setdefault(f"size={size},chunks={nc},mw={mw},remote={remote}", {})["explained_by"] = accepted_by
        if accepted_by is None:
            ctx.drift("C06|write_patches|traces_explained_by_neither_ideal_nor_as_implemented", dict(size=size, nc=nc, mw=mw))
        ctx.sample(dict(kind="write_patches trace", size=size, chunks=nc, max_workers=mw, events=len(traces[0]), explained_by_deviations=accepted_by))
    ctx.extra["create_trace_validation"] = verdict_summary


# ---------------------------------------------------------------------------
# E. whole workloads vs single-process reference; collective skeleton
# ---------------------------------------------------------------------------

REF_SCRIPT = r"""
import json, sys
sys.path.insert(0, %(verif)r)
from checks import c06
print("REFJSON" + json.dumps(c06.workload(None, %(root)r, %(seed)d, 1)))
"""


def workload_frames(seed):
    npatch = 3
    centers = data.centers_grid(npatch, sep_deg=3.0)
    ref = data.frame(seed, 90, npatch, sep_deg=3.0, spread_deg=1.6, int_weights=True)
    unk = data.frame(seed + 1, 80, npatch, sep_deg=3.0, spread_deg=1.6, int_weights=True)
    rnd = data.frame(seed + 2, 150, npatch, sep_deg=3.0, spread_deg=1.6, int_weights=True)
    return centers, ref, unk, rnd


def workload(rank, root, seed, mw, create_mw=None, progress=False, sorted_input=False):
    """The same program on every rank (and, with rank None, single process).
    progress: every step runs with the progress display on (results pass through the Indicator wrapper on every rank);
    sorted_input: the input tables are ordered on the sky (patch by patch, highest patch first), so different chunks -
    and with them different sender ranks - hold different patches."""
    yaw = data.import_yaw()
    centers, ref, unk, rnd = workload_frames(seed)
    if sorted_input:
        ref, unk, rnd = (df.sort_values("pid", ascending=False, kind="stable").reset_index(drop=True) for df in (ref, unk, rnd))
    kw = dict(ra_name="ra", dec_name="dec", weight_name="w", patch_centers=centers, overwrite=True, chunksize=40,
              max_workers=(create_mw if rank is not None else 1), progress=progress)
    cref = yaw.Catalog.from_dataframe(f"{root}/ref", ref, redshift_name="z", **kw)
    cunk = yaw.Catalog.from_dataframe(f"{root}/unk", unk, **kw)
    crnd = yaw.Catalog.from_dataframe(f"{root}/rnd", rnd, redshift_name="z", **kw)
    out = {}
    cat = yaw.Catalog(f"{root}/ref", max_workers=mw)
    out["reload_keys"] = list(cat.keys())
    out["records"] = {int(k): sorted((float(a), float(b), float(c), float(d)) for a, b, c, d in
                                     zip(p.coords.ra, p.coords.dec, p.weights, p.redshifts)) for k, p in cat.items()}
    out["meta"] = dict(num=list(cat.get_num_records()), sw=list(cat.get_sum_weights()),
                       radii=[float(x) for x in cat.get_radii().data], centers=cat.get_centers().data.tolist())
    config = yaw.Configuration.create(rmin=500.0, rmax=5000.0, zmin=0.1, zmax=1.0, num_bins=3, max_workers=mw)
    (cf,) = yaw.crosscorrelate(config, cref, cunk, unk_rand=crnd, max_workers=mw, progress=progress)
    out["cross"] = data.corrfunc_fingerprint(cf)
    (af,) = yaw.autocorrelate(config, cref, crnd, max_workers=mw, progress=progress)
    out["auto"] = data.corrfunc_fingerprint(af)
    h = yaw.HistData.from_catalog(cref, config, max_workers=mw, progress=progress)
    out["hist"] = dict(data=h.data.tolist(), samples=h.samples.tolist())
    cf.to_file(f"{root}/cf.hdf")
    back = yaw.CorrFunc.from_file(f"{root}/cf.hdf")
    out["roundtrip_equal"] = bool(back == cf)
    cd = cf.sample()
    cd.to_files(f"{root}/cd")
    back_cd = yaw.CorrData.from_files(f"{root}/cd")
    out["corrdata_roundtrip"] = [float(x) for x in back_cd.data]
    h.to_files(f"{root}/hist")
    out["hist_roundtrip"] = [float(x) for x in yaw.HistData.from_files(f"{root}/hist").data]
    config.to_file(f"{root}/cfg.yml")
    out["config_roundtrip"] = bool(yaw.Configuration.from_file(f"{root}/cfg.yml").to_dict() == config.to_dict())
    return out


def reference(root, seed):
    code = REF_SCRIPT % dict(verif=str(data.Path(__file__).resolve().parent.parent), root=str(root), seed=seed)
    env = dict(os.environ, YAW_NUM_THREADS="1")
    p = subprocess.run([sys.executable, "-c", code], capture_output=True, text=True, env=env, timeout=600)
    for line in p.stdout.splitlines():
        if line.startswith("REFJSON"):
            return json.loads(line[7:])
    raise RuntimeError(f"reference run failed: {p.stderr[-2000:]}")


def _norm(x):
    return json.loads(json.dumps(x))


def workloads(ctx, rng, root):
    quick = ctx.quick
    from checks.c05 import first_diff

    seed = 11
    (root / "ref_single").mkdir()
    ref = reference(root / "ref_single", seed)
    nruns = 10 if quick else 60
    for i in range(nruns):
        size = rng.choice([2, 3, 4] if quick else [2, 3, 4, 5])
        mw = rng.choice([None, None, 1, 2, 3])
        modes = rng.choice([("eager",), ("eager", "sync")])
        sseed = rng.randrange(1 << 30)
        wroot = root / f"w{i}"
        wroot.mkdir()
        progress, sorted_input = i % 3 == 1, i % 2 == 1
        from harness.yawenv import quiet_fds

        with quiet_fds():
            out = fakempi.run_world(size, lambda r: workload(r, str(wroot), seed, mw, progress=progress, sorted_input=sorted_input), seed=sseed, send_modes=modes)
        ctx.evaluated(1, ("workload", size, mw, modes, sseed, progress, sorted_input))
        ctx.validated(1)
        where = dict(size=size, max_workers=mw, send_modes=list(modes), schedule_seed=sseed, progress_display=progress, input_sorted_by_patch=sorted_input)
        mwkey = "max_workers=1" if mw == 1 else "max_workers=ok"
        if out["mpi_errors"]:
            ctx.violation(f"C06|workload|{mwkey}|collective_mismatch", dict(where=where, errors=out["mpi_errors"][:3]))
        if out["outcome"] == "deadlock":
            ctx.violation(f"C06|workload|{mwkey}|deadlock", dict(where=where, waiting=out["waiting"], errors=[repr(e) for e in out["errors"]]))
        elif out["outcome"] == "error":
            ctx.violation(f"C06|workload|{mwkey}|rank_raised_{type(next(e for e in out['errors'] if e)).__name__}",
                          dict(where=where, errors=[repr(e) for e in out["errors"]]))
        else:
            d = first_diff(_norm(out["results"][0]), ref)
            if d:
                what = d.strip(".").split(".")[0].split("[")[0]
                ctx.violation(f"C06|workload|{mwkey}|root_differs_from_single_process|{what}", dict(where=where, first_difference=d))
        if i == 0:
            ctx.sample(dict(kind="workload", **where, outcome=out["outcome"], events=len(out["log"])))
    error_paths(ctx, rng, root)
    collective_skeletons(ctx, rng, root)


def error_paths(ctx, rng, root):
    """Invalid requests that a single process rejects before any data is touched (probe larger than the random sample,
    a cache directory that does not exist, catalogs with different patch sets): every rank must get that same
    exception and the run must go on to the next collective operation - a rank that alone raises (or alone carries
    on) leaves the others blocked in a collective for ever."""
    yaw = data.import_yaw()
    import yaw.randoms  # noqa: F401

    centers, ref, unk, rnd = workload_frames(11)
    kw = dict(ra_name="ra", dec_name="dec", weight_name="w", chunksize=40, overwrite=True)

    def p_probe(r, d):
        gen = yaw.randoms.BoxRandoms(10, 20, -5, 5, seed=3)
        return yaw.Catalog.from_random(f"{d}/rnd_probe", gen, 50, patch_num=2, probe_size=80, overwrite=True)

    def p_open_missing(r, d):
        return yaw.Catalog(f"{d}/does_not_exist")

    def p_misaligned(r, d):
        a = yaw.Catalog.from_dataframe(f"{d}/a", ref, redshift_name="z", patch_centers=centers, **kw)
        b = yaw.Catalog.from_dataframe(f"{d}/b", unk[unk["pid"] < 2], patch_centers=yaw.AngularCoordinates(centers.data[:2]), **kw)
        cfg = yaw.Configuration.create(rmin=500.0, rmax=5000.0, zmin=0.1, zmax=1.0, num_bins=3)
        return yaw.crosscorrelate(cfg, a, b)

    progs = dict(from_random_probe_larger_than_sample=(p_probe, ("ValueError",)),
                 open_missing_cache=(p_open_missing, ("OSError", "FileNotFoundError", "InconsistentPatchesError")),
                 crosscorrelate_different_patch_sets=(p_misaligned, ("ValueError", "InconsistentPatchesError")))
    n = 0
    for name, (fn, expected) in progs.items():
        for size in ((2, 3) if ctx.quick else (2, 3, 4)):
            for rep_ in range(1 if ctx.quick else 3):
                n += 1
                d = root / f"err{n}"
                d.mkdir()

                def prog(r, fn=fn, d=d):
                    try:
                        fn(r, str(d))
                        res = ("returned",)
                    except Exception as e:  # noqa: BLE001
                        res = ("raised", type(e).__name__)
                    # the program goes on: a collective operation that works when all ranks are still in step
                    cat = yaw.Catalog.from_dataframe(f"{d}/after", ref, redshift_name="z", patch_centers=centers, **kw)
                    return res + (len(cat),)

                sseed = rng.randrange(1 << 30)
                out = fakempi.run_world(size, prog, seed=sseed, send_modes=("eager", "sync"))
                ctx.evaluated(1, ("error_path", name, size, sseed))
                ctx.validated(1)
                where = dict(request=name, size=size, schedule_seed=sseed, results=[list(r) if r else None for r in out["results"]])
                if out["outcome"] == "deadlock":
                    ctx.violation(f"C06|error_path|{name}|deadlock", dict(where=where, waiting=out["waiting"]))
                elif out["outcome"] != "ok" or len(set(out["results"])) != 1:
                    ctx.violation(f"C06|error_path|{name}|ranks_disagree", dict(where=where, errors=[repr(e) for e in out["errors"]]))
                elif out["results"][0][0] != "raised" or out["results"][0][1] not in expected:
                    ctx.violation(f"C06|error_path|{name}|root_differs_from_single_process", dict(where=where, expected=list(expected)))


def collective_skeletons(ctx, rng, root):
    """Record the collective call sequences of each MPI-aware entry point in one
    schedule and let TLC check them for ALL schedules (CollectiveIO)."""
    yaw = data.import_yaw()
    seed = 11
    base = root / "skel"
    base.mkdir()
    centers, ref, unk, rnd = workload_frames(seed)
    kw = dict(ra_name="ra", dec_name="dec", weight_name="w", patch_centers=centers, overwrite=True, chunksize=40)
    config = yaw.Configuration.create(rmin=500.0, rmax=5000.0, zmin=0.1, zmax=1.0, num_bins=3)
    state = {}

    def setup(r):
        cats = dict(
            ref=yaw.Catalog.from_dataframe(f"{base}/ref", ref, redshift_name="z", **kw),
            unk=yaw.Catalog.from_dataframe(f"{base}/unk", unk, **kw),
            rnd=yaw.Catalog.from_dataframe(f"{base}/rnd", rnd, redshift_name="z", **kw),
        )
        (cf,) = yaw.crosscorrelate(config, cats["ref"], cats["unk"], unk_rand=cats["rnd"])
        cats["cf"] = cf
        state[r] = cats
        return None

    def corrfunc_io(r):
        state[r]["cf"].to_file(f"{base}/cf.hdf")
        yaw.CorrFunc.from_file(f"{base}/cf.hdf")

    def config_io(r):
        config.to_file(f"{base}/cfg.yml")
        yaw.Configuration.from_file(f"{base}/cfg.yml")

    entry_points = dict(
        from_dataframe=lambda r: yaw.Catalog.from_dataframe(f"{base}/x", ref, redshift_name="z", **kw) and None,
        from_dataframe_patch_num=lambda r: yaw.Catalog.from_dataframe(
            f"{base}/y", ref, ra_name="ra", dec_name="dec", weight_name="w", redshift_name="z", patch_num=3, overwrite=True,
            chunksize=40, probe_size=60) and None,
        reopen=lambda r: yaw.Catalog(f"{base}/ref") and None,
        build_trees=lambda r: state[r]["ref"].build_trees(config.binning.edges, closed=config.binning.closed, force=True),
        crosscorrelate=lambda r: yaw.crosscorrelate(config, state[r]["ref"], state[r]["unk"], unk_rand=state[r]["rnd"]) and None,
        autocorrelate=lambda r: yaw.autocorrelate(config, state[r]["ref"], state[r]["rnd"]) and None,
        histogram=lambda r: yaw.HistData.from_catalog(state[r]["ref"], config) and None,
        corrfunc_io=corrfunc_io,
        config_io=config_io,
    )
    programs = {}
    sizes = [2, 3] if ctx.quick else [2, 3, 4]
    for size in sizes:
        state.clear()
        out = fakempi.run_world(size, setup, seed=rng.randrange(1 << 30))
        if out["outcome"] != "ok":
            ctx.extra.setdefault("skeleton_setup_failed", []).append(dict(size=size, outcome=out["outcome"], errors=[repr(e) for e in out["errors"]]))
            continue  # the same failure is reported by the workload oracle
        for name, fn in entry_points.items():
            if ctx.quick and name == "corrfunc_io" and size > 2:
                continue  # ~150 non-synchronising bcasts on 3 ranks: 400k states, thorough tier only
            out = fakempi.run_world(size, fn, seed=rng.randrange(1 << 30))
            ctx.evaluated(1, ("skeleton", name, size))
            if out["outcome"] == "ok":
                programs[(name, size)] = (size, collective_sequences(out["log"], size))
            elif out["outcome"] == "deadlock":
                ctx.violation(f"C06|{name}|max_workers=ok|deadlock", dict(size=size, waiting=out["waiting"], errors=[repr(e) for e in out["errors"]]))
            else:
                ctx.violation(f"C06|{name}|max_workers=ok|rank_raised", dict(size=size, errors=[repr(e) for e in out["errors"]]))
    check_collective_skeletons(ctx, programs)


def collective_sequences(log, size):
    """Per rank: the sequence of collective calls [kind, comm, root]."""
    progs = [[] for _ in range(size)]
    for e in log:
        if e.get("ev") == "coll_enter":
            progs[e["wr"]].append([e["kind"], e["comm"], -1 if e.get("root") is None else e["root"]])
    return progs


COLL_WRAPPER = """
---- MODULE CollectiveIO_MC ----
EXTENDS CollectiveIO
ProgDef == %s
MembersDef == %s
====
"""


def check_collective_skeletons(ctx, programs):
    """code -> spec: the collective skeleton recorded in one schedule is model
    checked for ALL interleavings (mismatch- and deadlock-freedom)."""
    from harness.tlaval import to_tla

    n = 0
    for key, (size, progs) in programs.items():
        comms = sorted({c for p in progs for _, c, _ in p})
        members = {c: sorted(r for r in range(size) if any(cc == c for _, cc, _ in progs[r])) for c in comms}
        prog_tla = "<<" + ", ".join("<<" + ", ".join(f'[kind |-> "{k}", comm |-> "{c}", root |-> {r}]' for k, c, r in p) + ">>" for p in progs) + ">>"
        mem_tla = "[c \\in {" + ", ".join(f'"{c}"' for c in comms) + "} |-> CASE " + " [] ".join(
            f'c = "{c}" -> {{{", ".join(str(x) for x in members[c])}}}' for c in comms) + "]"
        mod = COLL_WRAPPER % (prog_tla, mem_tla)
        cfg = tlc.make_cfg(constants=dict(Size=size, Prog="<- ProgDef", Members="<- MembersDef"), invariants=["NoMismatch", "TypeOK"],
                           properties=["Termination"])
        try:
            res = tlc.run("CollectiveIO_MC", cfg, extra_modules={"CollectiveIO_MC": mod}, timeout=240)
        except tlc.TLCMachineryError as exc:
            if "timed out" in str(exc):
                ctx.extra.setdefault("collective_skeletons_timed_out", []).append(str(key))
                continue
            raise
        ctx.add_tlc(f"CollectiveIO skeleton {key} calls={sum(len(p) for p in progs)}", res)
        n += 1
        if not res.ok:
            ctx.violation(f"C06|collectives|{key[0]}|{res.error_kind}_{res.error_name}",
                          dict(size=size, programs=progs, trace=[t["action"] for t in res.trace][-6:]))
    ctx.extra["collective_skeletons_checked"] = n


def run(ctx) -> None:
    fakempi.install()
    data.import_yaw()
    install_markers()
    rng = random.Random(ctx.seed)
    ctx.rule = ("real library on a fake mpi4py; schedules = seeded random choices among enabled MPI steps (wildcard matches, "
                "eager/rendezvous completion), TLC counterexamples and TLC-simulated behaviours; non-trivial = distinct "
                "(workload, world size, max_workers, schedule seed)")
    ctx.assume("fake mpi4py implements MPISem.tla (per-sender FIFO, wildcard nondeterminism, eager or rendezvous standard send, "
               "non-synchronising bcast/gather); no real MPI is installed to cross-check it")
    ctx.assume("ranks are cooperative threads: in-process state is not shared between ranks by the library (they are processes)")
    cex_iter, cex_create = model_check(ctx)
    validate_iter_traces(ctx, rng)
    replay_iter(ctx, cex_iter, rng)
    with scratch("c06_") as root:
        create_checks(ctx, cex_create, rng, root)
        workloads(ctx, rng, root)
