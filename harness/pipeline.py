"""Scenario runner for catalog creation (spec/CreatePipeline.tla): instantiate a
TLC scenario on the real library, run it on the deterministic multiprocessing
runtime, and project the result onto the spec's terminal state."""

from __future__ import annotations

import hashlib
import os
import shutil
from pathlib import Path

import numpy as np

from . import data, detrt

OLD_BASE = 1000.0  # weights (= record ids) of the pre-existing catalog


def snapshot(path: Path):
    """Content digest of whatever is at ``path``."""
    path = Path(path)
    if not path.exists():
        return ("absent",)
    if path.is_file():
        return ("file", hashlib.sha256(path.read_bytes()).hexdigest())
    out = []
    for f in sorted(path.rglob("*")):
        rel = str(f.relative_to(path))
        out.append((rel, hashlib.sha256(f.read_bytes()).hexdigest() if f.is_file() else "dir"))
    return ("dir", tuple(out))


def input_frame(L: int, fault=None, fault_row=None, patch_ids=False):
    """L records around two centres; weight column = record id (1..L)."""
    import pandas as pd

    idx = np.arange(1, L + 1)
    side = idx % 2  # record r -> patch r % 2 (spec: PatchOf)
    ra = 10.0 + 2.0 * side + 0.01 * (idx % 7)
    dec = 0.0 + 0.013 * (idx % 5)
    df = pd.DataFrame(dict(ra=ra, dec=dec, w=idx.astype(float), z=0.1 + 0.8 * (idx % 11) / 11.0))
    if patch_ids:
        df["pid"] = side.astype(np.int64)
    if fault is not None:
        r = fault_row
        if fault == "nan_z":
            df.loc[r, "z"] = np.nan
        elif fault == "inf_ra":
            df.loc[r, "ra"] = np.inf
        elif fault == "nan_w":
            df.loc[r, "w"] = np.nan
        elif fault == "pid_big":
            df.loc[r, "pid"] = 40000
        elif fault == "pid_neg":
            df.loc[r, "pid"] = -1
        elif fault == "pid_wrap":      # wraps to a valid id when cast to int16
            df.loc[r, "pid"] = 65537
        elif fault == "pid_wrap_neg":
            df.loc[r, "pid"] = -65535
        elif fault == "pid_nan":       # an integer column with a missing entry arrives as float64 with NaN
            df["pid"] = df["pid"].astype(np.float64)
            df.loc[r, "pid"] = np.nan
    return df


class InterruptingFrame:
    """A data frame whose chunk containing ``row`` cannot be fetched: the process gets a
    KeyboardInterrupt (Ctrl-C / SIGINT) - a BaseException, not an Exception - at that point."""

    def __init__(self, df, row: int) -> None:
        self._df, self._row = df, row

    def __len__(self) -> int:
        return len(self._df)

    @property
    def columns(self):
        return self._df.columns

    def __getitem__(self, item):
        if isinstance(item, slice) and (item.start or 0) <= self._row < (len(self._df) if item.stop is None else item.stop):
            raise KeyboardInterrupt("interrupted while fetching a chunk")
        return self._df[item]

    def __getattr__(self, name):
        return getattr(self._df, name)


def centres(yaw, empty_centre: bool):
    """Centre 0 at ra=10, centre 1 at ra=12 (records alternate); with an empty
    centre, a third centre far away that attracts nothing is put in the MIDDLE of
    the list (so that ids and centres get misaligned if it goes unnoticed)."""
    pts = [[10.0, 0.0], [12.0, 0.0]]
    if empty_centre:
        pts = [[10.0, 0.0], [200.0, -60.0], [12.0, 0.0]]
    return yaw.AngularCoordinates(np.deg2rad(pts))


class PrepareRefused(Exception):
    """Creating the PRIOR catalog (three clean records, two centres, sequential) raised:
    real-code evidence about creation itself, not a failure of the machinery."""

    def __init__(self, error):
        super().__init__(repr(error))
        self.error = error


def prepare_path(yaw, root: Path, pre: str) -> Path:
    root.mkdir(parents=True, exist_ok=True)
    path = root / "cache"
    if pre == "absent":
        pass
    elif pre == "old":
        import pandas as pd

        old = pd.DataFrame(dict(ra=[10.0, 12.0, 10.1], dec=[0.0, 0.0, 0.1], w=[OLD_BASE + 1, OLD_BASE + 2, OLD_BASE + 3], z=[0.2, 0.3, 0.4]))
        try:
            yaw.Catalog.from_dataframe(path, old, ra_name="ra", dec_name="dec", weight_name="w", redshift_name="z",
                                       patch_centers=centres(yaw, False), max_workers=1)
        except Exception as exc:  # noqa: BLE001
            raise PrepareRefused(exc) from exc
    elif pre == "foreign":
        path.mkdir()
        (path / "keep.txt").write_text("user data, not a catalog\n")
        (path / "sub").mkdir()
        (path / "sub" / "more.dat").write_bytes(b"\x00\x01")
    elif pre == "file":
        path.write_text("a regular file\n")
    elif pre == "noparent":
        path = root / "missing_parent" / "cache"
    else:
        raise ValueError(pre)
    return path


def records_of(cat) -> dict:
    """patch id -> sorted list of (w, z, ra, dec) of a catalog."""
    out = {}
    for pid, patch in cat.items():
        d = patch.load_data()
        cols = [d[n] for n in ("weights", "redshifts", "ra", "dec") if n in d.dtype.names]
        out[int(pid)] = sorted(zip(*[c.tolist() for c in cols]))
    return out


class InjectedFault(RuntimeError):
    """Raised by the wrappers that inject a fault into a pool worker / the writer."""


class buffersize:
    """Catalog.from_* hard-code buffersize=-1 when they call write_patches; substitute
    another value so that the PatchWriter buffer logic (flush when the shards hold
    >= buffersize records, flush at close) is exercised."""

    def __init__(self, yaw, value) -> None:
        import yaw.catalog.catalog as cc

        self.cc, self.value = cc, value

    def __enter__(self):
        if self.value is None:
            return self
        self.orig = orig = self.cc.write_patches
        value = self.value

        def write_patches(*a, **kw):
            kw["buffersize"] = value
            return orig(*a, **kw)

        self.cc.write_patches = write_patches
        return self

    def __exit__(self, *a):
        if self.value is not None:
            self.cc.write_patches = self.orig
        return None


class inject:
    """Make split_into_patches (where="worker") or CatalogWriter.process_patches
    (where="writer") raise when it meets the record with weight ``marker``.  The
    deterministic runtime runs pool tasks and the writer 'process' inside this
    interpreter, so patching the module attributes reaches them."""

    def __init__(self, yaw, where, marker) -> None:
        import yaw.catalog.catalog as cc

        self.cc, self.where, self.marker = cc, where, marker

    def __enter__(self):
        cc, marker = self.cc, self.marker
        if self.where == "worker":
            self.orig = orig = cc.split_into_patches

            def split_into_patches(chunk, patch_centers):
                if marker in chunk["weights"]:
                    raise InjectedFault(f"worker fault at record {marker}")
                return orig(chunk, patch_centers)

            cc.split_into_patches = split_into_patches
        elif self.where == "writer":
            self.orig = orig = cc.CatalogWriter.process_patches

            def process_patches(writer, patches):
                if any(marker in ch["weights"] for ch in patches.values()):
                    raise InjectedFault(f"writer fault at record {marker}")
                return orig(writer, patches)

            cc.CatalogWriter.process_patches = process_patches
        return self

    def __exit__(self, *a):
        if self.where == "worker":
            self.cc.split_into_patches = self.orig
        elif self.where == "writer":
            self.cc.CatalogWriter.process_patches = self.orig
        return None


def run_creation(yaw, root: Path, *, L, CS, W, pre="absent", overwrite=False, fault=None, fault_chunk=0,
                 empty_centre=False, mode="apply", chooser=None, seed=0, where="reader", kill=None, buf=0):
    """Run Catalog.from_dataframe for the scenario on the deterministic
    runtime.  Returns a dict with the projection onto the spec's terminal state
    and everything the oracles need."""
    path = prepare_path(yaw, root, pre)
    fault_row = (fault_chunk - 1) * CS if fault_chunk else None
    if where != "reader":
        fault = None        # the input is clean, the fault is injected into the helper
    df = input_frame(L, fault, fault_row, patch_ids=(mode == "divide"))
    kw = dict(ra_name="ra", dec_name="dec", weight_name="w", redshift_name="z", overwrite=overwrite, chunksize=CS, max_workers=W)
    if mode == "apply":
        kw["patch_centers"] = centres(yaw, empty_centre)
    elif mode == "divide":
        kw["patch_name"] = "pid"
    if fault == "missing_column":
        kw["redshift_name"] = "nosuchcolumn"
    before = snapshot(path)
    source = InterruptingFrame(df, fault_row) if fault == "interrupt" else df

    def main():
        cat = yaw.Catalog.from_dataframe(path, source, **kw)
        return dict(records=records_of(cat), keys=list(cat.keys()),
                    centers=cat.get_centers().data.tolist(), num=list(cat.get_num_records()))

    killer = None
    if kill == "init":        # before the writer process ran a single statement
        killer = detrt.kill_process_when(lambda t: t.label == ("start",))
    elif kill is not None:    # ("get", j): while it waits for / is about to take item j+1 off the queue
        killer = detrt.kill_process_when(lambda t, j=kill[1]: t.label[:1] == ("get",) and t.seq == 1 + j)
    with inject(yaw, where if fault_chunk else "reader", (fault_row or 0) + 1), buffersize(yaw, None if not buf else buf):
        sched, outcome = detrt.run_main(main, chooser=chooser, seed=seed, describe=describe_item, before_step=killer)
    after = snapshot(path)
    res = dict(path=path, before=before, after=after, kind=outcome[0], sched=sched, df=df,
               killed=bool(killer is not None and killer.state["done"]))
    if outcome[0] == "ok":
        res["result"] = outcome[1]
    elif outcome[0] == "raised":
        res["error"] = outcome[1]
    else:
        res["waiting"] = outcome[1]
    # what does the path open as afterwards?
    try:
        reopened = yaw.Catalog(path, max_workers=1) if path.exists() and path.is_dir() else None
        res["reopen"] = None if reopened is None else records_of(reopened)
    except Exception as exc:  # noqa: BLE001
        res["reopen"] = None
        res["reopen_error"] = repr(exc)
    return res


def describe_item(item) -> dict:
    """Projection of a queue item for the trace (spec/CreatePipelineTrace.tla):
    the record ids (= weights) it carries and those filed under patch 0."""
    if not isinstance(item, dict):
        return {}
    recs, p0 = [], []
    for pid, chunk in item.items():
        ws = [int(w) for w in chunk["weights"]]
        recs += ws
        if int(pid) == 0:
            p0 += ws
    return dict(recs=sorted(recs), p0=sorted(p0))


TRACE_FIELDS = dict(recs=[], p0=[], nt=-1, alive=False, failed=False, outcome="", loaded="", dir="", ids=False, exc="")


def trace_of(res, proj) -> list[dict]:
    """The runtime's event log of the creation (up to the return of
    from_dataframe) followed by the observed terminal state."""
    evs = [dict(e) for e in res["sched"].log]
    outcome, loaded, dirstate, ids = proj
    evs.append(dict(ev="final", outcome=outcome, loaded=loaded, dir=dirstate, ids=bool(ids)))
    return evs


def expected_records(df, empty_centre=False) -> dict:
    """patch -> sorted (w, z, ra_rad, dec_rad) per the property (nearest given
    centre = r % 2; with the empty middle centre the second real centre has id 2)."""
    out = {}
    for _, row in df.iterrows():
        side = int(row["w"]) % 2
        pid = (2 if side == 1 else 0) if empty_centre else side
        out.setdefault(pid, []).append((float(row["w"]), float(row["z"]), float(np.deg2rad(row["ra"])), float(np.deg2rad(row["dec"]))))
    return {k: sorted(v) for k, v in out.items()}


def same_records(got: dict, exp: dict) -> bool:
    if set(got) != set(exp):
        return False
    for k in exp:
        if len(got[k]) != len(exp[k]):
            return False
        for a, b in zip(got[k], exp[k]):
            if a[0] != b[0] or a[1] != b[1]:
                return False
            if abs(a[2] - b[2]) > 4e-16 * max(1.0, abs(b[2])) or abs(a[3] - b[3]) > 4e-16 * max(1.0, abs(b[3])):
                return False
    return True
