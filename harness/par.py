"""Process-parallel map for replays (fork start method, results must be picklable)."""

from __future__ import annotations

import multiprocessing as mp
import os


class Collector:
    """Stand-in for harness.core.Ctx inside worker processes: records calls, replayed on the real ctx."""

    def __init__(self) -> None:
        self.calls: list = []
        self.samples: list = []
        self.quick = True
        self.data: list = []     # picklable payload handed back to the caller of pmap
        self._violations: list = []

    def violation(self, key, detail):
        self.calls.append(("violation", key, detail))
        self._violations.append(key)

    def emit(self, obj) -> None:
        self.data.append(obj)

    def drift(self, key, detail):
        self.calls.append(("drift", key, detail))

    def evaluated(self, n=1, key=None):
        self.calls.append(("evaluated", n, key))

    def validated(self, n=1):
        self.calls.append(("validated", n))

    def sample(self, obj, limit=6):
        self.calls.append(("sample", obj))

    def apply(self, ctx) -> None:
        for c in self.calls:
            if c[0] == "violation":
                ctx.violation(c[1], c[2])
            elif c[0] == "drift":
                ctx.drift(c[1], c[2])
            elif c[0] == "evaluated":
                ctx.evaluated(c[1], c[2])
            elif c[0] == "validated":
                ctx.validated(c[1])
            elif c[0] == "sample":
                ctx.sample(c[1])


def nprocs(default: int | None = None) -> int:
    n = int(os.environ.get("VERIF_PROCS", "0") or 0)
    if n > 0:
        return n
    return default or max(1, min(12, (os.cpu_count() or 2) - 2))


def _run(args):
    fn, item = args
    col = Collector()
    try:
        fn(col, item)
    except Exception as exc:  # noqa: BLE001 - machinery failure inside a worker
        import traceback

        return ("error", f"{type(exc).__name__}: {exc}\n{traceback.format_exc()[-1500:]}")
    return ("ok", col)


def pmap(ctx, fn, items, procs: int | None = None) -> list:
    """Run ``fn(collector, item)`` for every item in worker processes and replay
    the recorded verdict calls on ``ctx`` in item order.  Returns, per item, the
    list of objects the job handed back with ``collector.emit``."""
    items = list(items)
    procs = min(nprocs(procs), max(1, len(items)))
    if procs <= 1:
        results = [_run((fn, it)) for it in items]
    else:
        with mp.get_context("fork").Pool(procs) as pool:
            results = pool.map(_run, [(fn, it) for it in items], chunksize=max(1, len(items) // (procs * 4)))
    out = []
    for kind, val in results:
        if kind == "error":
            raise RuntimeError(f"worker failed: {val}")
        val.apply(ctx)
        out.append(val.data)
    return out
