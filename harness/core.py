"""Check context: evidence bookkeeping, verdict policy, known-finding matching.

Verdict policy (DESIGN 2.3):
  * ctx.violation(key, detail) is called only on evidence from the *real code*
    (the property's own predicate computed from results of the implementation);
  * a violation whose structural ``key`` matches an *open* entry of
    known_findings.json is reported as ``KNOWN-FINDING`` (exit 0);
  * every other violation -> ``VIOLATION property=<id> replay=<path>`` (exit 1);
  * ctx.drift(...) records model/implementation disagreement that does not
    falsify the property (exit 0, visible in the evidence);
  * machinery failure -> exit 2.
"""

from __future__ import annotations

import fnmatch
import json
import os
import sys
import time
import traceback
from pathlib import Path

VERIF = Path(__file__).resolve().parent.parent
EVIDENCE_DIR = Path(os.environ.get("VERIF_EVIDENCE_DIR", VERIF / "evidence"))
REPLAY_DIR = Path(os.environ.get("VERIF_REPLAY_DIR", VERIF / "replays"))
FINDINGS_FILE = VERIF / "known_findings.json"


def load_findings() -> list[dict]:
    if not FINDINGS_FILE.exists():
        return []
    return json.loads(FINDINGS_FILE.read_text())["findings"]


class MachineryError(RuntimeError):
    pass


class Ctx:
    def __init__(self, prop: str, tier: str, seed: int, replay: str | None = None) -> None:
        self.prop = prop
        self.tier = tier
        self.seed = seed
        self.replay = replay
        self.t0 = time.time()
        self.states = 0
        self.transitions = 0
        self.tlc_runs: list[dict] = []
        self.traces_validated = 0
        self.evaluations = 0
        self.nontrivial: set = set()
        self.samples: list = []
        self.assumptions: list[str] = []
        self.extra: dict = {}
        self._violations: list[dict] = []
        self._drift: list[dict] = []
        self._expected_cex: list[dict] = []
        self.exhaustive = False
        self.rule = ""

    # ---- bookkeeping -------------------------------------------------
    @property
    def quick(self) -> bool:
        return self.tier == "quick"

    def add_tlc(self, label: str, res, **kw) -> None:
        self.states += res.distinct
        self.transitions += res.generated
        entry = dict(
            label=label,
            distinct=res.distinct,
            generated=res.generated,
            depth=res.depth,
            wall_s=round(res.wall_s, 2),
            result=("ok" if res.ok else f"{res.error_kind}:{res.error_name}"),
        )
        if res.coverage:
            entry["actions"] = {k: v[1] for k, v in res.coverage.items()}
        entry.update(kw)
        self.tlc_runs.append(entry)

    def sample(self, obj, limit: int = 6) -> None:
        if len(self.samples) < limit:
            self.samples.append(obj)

    def evaluated(self, n: int = 1, key=None) -> None:
        self.evaluations += n
        if key is not None:
            self.nontrivial.add(key)

    def validated(self, n: int = 1) -> None:
        self.traces_validated += n

    def assume(self, text: str) -> None:
        if text not in self.assumptions:
            self.assumptions.append(text)

    # ---- verdicts ----------------------------------------------------
    def violation(self, key: str, detail: dict) -> None:
        """Real-code evidence that the property is false for case ``detail``."""
        for v in self._violations:
            if v["key"] == key:
                v["count"] += 1
                return
        self._violations.append(dict(key=key, detail=detail, count=1))

    def drift(self, key: str, detail: dict) -> None:
        for v in self._drift:
            if v["key"] == key:
                v["count"] += 1
                return
        self._drift.append(dict(key=key, detail=detail, count=1))

    def require(self, cond: bool, what: str) -> None:
        """Vacuity / machinery self-check: failing it is exit 2, not a violation."""
        if not cond:
            raise MachineryError(what)

    # ---- finish ------------------------------------------------------
    def finish(self) -> int:
        findings = [f for f in load_findings() if f["property"] == self.prop]
        open_f = [f for f in findings if f.get("status") == "open"]
        lines = []
        new = []
        known_hit = {}
        for v in self._violations:
            hit = None
            for f in open_f:
                if fnmatch.fnmatchcase(v["key"], f["key"]):
                    hit = f
                    break
            if hit is not None:
                known_hit.setdefault(hit["key"], (hit, []))[1].append(v)
            else:
                new.append(v)
        for key, (f, vs) in known_hit.items():
            lines.append(f"KNOWN-FINDING: property={self.prop} {f['text']} [{key}; {sum(v['count'] for v in vs)} case(s)]")
        rc = 0
        REPLAY_DIR.mkdir(parents=True, exist_ok=True)
        for i, v in enumerate(new):
            d = REPLAY_DIR / self.prop
            d.mkdir(parents=True, exist_ok=True)
            path = d / f"{_slug(v['key'])}.json"
            path.write_text(json.dumps(dict(property=self.prop, key=v["key"], detail=v["detail"], seed=self.seed, tier=self.tier), indent=1, default=str))
            lines.append(f"VIOLATION property={self.prop} replay={path}")
            lines.append(f"  key={v['key']} cases={v['count']}")
            rc = 1
        coverage = dict(
            states=self.states,
            transitions=self.transitions,
            traces_validated_against_impl=self.traces_validated,
            samples=self.samples or ["(no sample recorded)"],
            evaluations=self.evaluations,
            distinct_nontrivial=len(self.nontrivial),
            rule=self.rule,
            exhaustive=self.exhaustive,
            tlc_runs=self.tlc_runs,
            drift=[dict(key=d["key"], count=d["count"], detail=d["detail"]) for d in self._drift],
            known_findings_reobserved=[k for k in known_hit],
            new_violations=[v["key"] for v in new],
        )
        coverage.update(self.extra)
        ev = dict(
            property_id=self.prop,
            tier=self.tier,
            seed=self.seed,
            level="model_checking",
            coverage=coverage,
            assumptions=self.assumptions,
            wall_s=round(time.time() - self.t0, 2),
            violations=len(new),
        )
        EVIDENCE_DIR.mkdir(parents=True, exist_ok=True)
        (EVIDENCE_DIR / f"{self.prop}.json").write_text(json.dumps(ev, indent=1, default=str) + "\n")
        for ln in lines:
            print(ln)
        print(
            f"[{self.prop}] tier={self.tier} seed={self.seed} tlc_states={self.states} "
            f"transitions={self.transitions} impl_traces={self.traces_validated} "
            f"evaluations={self.evaluations} known={len(known_hit)} new={len(new)} "
            f"drift={len(self._drift)} wall={ev['wall_s']}s"
        )
        return rc


def _slug(s: str) -> str:
    return "".join(c if c.isalnum() or c in "-_." else "_" for c in s)[:120]


def main(prop: str, runner, argv: list[str]) -> int:
    import argparse

    ap = argparse.ArgumentParser()
    ap.add_argument("--tier", default=os.environ.get("VERIF_TIER", "quick"), choices=["quick", "thorough"])
    ap.add_argument("--replay", default=None)
    ap.add_argument("--seed", type=int, default=int(os.environ.get("VERIF_SEED", "0")))
    a = ap.parse_args(argv)
    ctx = Ctx(prop, a.tier, a.seed, a.replay)
    try:
        runner(ctx)
        return ctx.finish()
    except Exception as exc:  # machinery failure
        traceback.print_exc()
        print(f"MACHINERY-ERROR property={prop}: {type(exc).__name__}: {exc}", file=sys.stderr)
        if ctx._violations:
            # violations of the property observed on the real code before the machinery gave up are
            # evidence in their own right (a self-check typically fails BECAUSE the code misbehaves)
            ctx.extra["machinery_error_after_violations"] = f"{type(exc).__name__}: {exc}"
            try:
                if ctx.finish() == 1:
                    return 1
            except Exception:  # noqa: BLE001
                traceback.print_exc()
        return 2
