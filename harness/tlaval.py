"""Parser for TLA+ values as printed by TLC (states in -simulate files, dot
labels, error traces, PrintT output).

Mapping to Python:
  integers            -> int
  "strings"           -> str
  TRUE / FALSE        -> bool
  {a, b}              -> frozenset
  <<a, b>>            -> tuple
  [k |-> v, ...]      -> dict (str keys)
  (k :> v @@ k2 :> v) -> dict (arbitrary hashable keys)
  a..b                -> frozenset(range)
  identifiers         -> ModelValue(str)
"""

from __future__ import annotations


class ModelValue(str):
    def __repr__(self) -> str:  # pragma: no cover
        return f"MV({str(self)})"


class TlaParseError(ValueError):
    pass


class _P:
    def __init__(self, text: str) -> None:
        self.t = text
        self.i = 0
        self.n = len(text)

    def ws(self) -> None:
        while self.i < self.n and self.t[self.i] in " \t\r\n":
            self.i += 1

    def peek(self, k: int = 1) -> str:
        return self.t[self.i : self.i + k]

    def expect(self, s: str) -> None:
        self.ws()
        if not self.t.startswith(s, self.i):
            raise TlaParseError(
                f"expected {s!r} at {self.i}: {self.t[max(0, self.i - 20):self.i + 20]!r}"
            )
        self.i += len(s)

    def value(self):
        self.ws()
        v = self.atom()
        self.ws()
        # interval a..b
        if self.peek(2) == "..":
            self.i += 2
            hi = self.atom()
            return frozenset(range(v, hi + 1))
        return v

    def atom(self):
        self.ws()
        c = self.peek()
        if c == '"':
            return self.string()
        if c == "{":
            return self.set_()
        if self.peek(2) == "<<":
            return self.seq()
        if c == "[":
            return self.record()
        if c == "(":
            return self.func()
        if c == "-" or c.isdigit():
            return self.integer()
        return self.ident()

    def string(self) -> str:
        assert self.t[self.i] == '"'
        self.i += 1
        out = []
        while True:
            if self.i >= self.n:
                raise TlaParseError("unterminated string")
            c = self.t[self.i]
            if c == "\\":
                nxt = self.t[self.i + 1]
                out.append({"n": "\n", "t": "\t", '"': '"', "\\": "\\"}.get(nxt, nxt))
                self.i += 2
                continue
            if c == '"':
                self.i += 1
                break
            out.append(c)
            self.i += 1
        return "".join(out)

    def integer(self) -> int:
        j = self.i
        if self.t[j] == "-":
            j += 1
        while j < self.n and self.t[j].isdigit():
            j += 1
        v = int(self.t[self.i : j])
        self.i = j
        return v

    def ident(self):
        j = self.i
        while j < self.n and (self.t[j].isalnum() or self.t[j] in "_!"):
            j += 1
        if j == self.i:
            raise TlaParseError(
                f"unexpected char at {self.i}: {self.t[max(0, self.i - 20):self.i + 20]!r}"
            )
        word = self.t[self.i : j]
        self.i = j
        if word == "TRUE":
            return True
        if word == "FALSE":
            return False
        return ModelValue(word)

    def _list(self, close: str) -> list:
        items = []
        self.ws()
        if self.t.startswith(close, self.i):
            self.i += len(close)
            return items
        while True:
            items.append(self.value())
            self.ws()
            if self.t.startswith(close, self.i):
                self.i += len(close)
                return items
            self.expect(",")

    def set_(self):
        self.expect("{")
        return frozenset(_freeze(x) for x in self._list("}"))

    def seq(self):
        self.expect("<<")
        return tuple(self._list(">>"))

    def record(self):
        self.expect("[")
        out = {}
        self.ws()
        if self.peek() == "]":
            self.i += 1
            return out
        while True:
            self.ws()
            key = self.ident()
            self.expect("|->")
            out[str(key)] = self.value()
            self.ws()
            if self.peek() == "]":
                self.i += 1
                return out
            self.expect(",")

    def func(self):
        self.expect("(")
        out = {}
        while True:
            k = self.value()
            self.expect(":>")
            v = self.value()
            out[_freeze(k)] = v
            self.ws()
            if self.peek(2) == "@@":
                self.i += 2
                continue
            self.expect(")")
            return out


def _freeze(v):
    if isinstance(v, dict):
        return tuple(sorted((k, _freeze(x)) for k, x in v.items()))
    if isinstance(v, (list, tuple)):
        return tuple(_freeze(x) for x in v)
    if isinstance(v, (set, frozenset)):
        return frozenset(_freeze(x) for x in v)
    return v


def parse_value(text: str):
    p = _P(text)
    v = p.value()
    p.ws()
    if p.i != p.n:
        raise TlaParseError(f"trailing text at {p.i}: {text[p.i:p.i + 40]!r}")
    return v


def parse_state(text: str) -> dict:
    """Parse a conjunction ``/\\ var = value`` (one TLC state) into a dict."""
    p = _P(text)
    out = {}
    while True:
        p.ws()
        if p.i >= p.n:
            return out
        p.expect("/\\")
        p.ws()
        name = p.ident()
        p.expect("=")
        out[str(name)] = p.value()


def to_py(v):
    """Convert parsed values into plain JSON-able python (sets -> sorted lists,
    tuple -> list, function dict with int keys 1..n -> list)."""
    if isinstance(v, bool) or isinstance(v, int):
        return v
    if isinstance(v, str):
        return str(v)
    if isinstance(v, (frozenset, set)):
        items = [to_py(x) for x in v]
        try:
            return sorted(items)
        except TypeError:
            return sorted(items, key=repr)
    if isinstance(v, (tuple, list)):
        return [to_py(x) for x in v]
    if isinstance(v, dict):
        keys = list(v.keys())
        if keys and all(isinstance(k, int) and not isinstance(k, bool) for k in keys):
            if sorted(keys) == list(range(1, len(keys) + 1)):
                return [to_py(v[k]) for k in sorted(keys)]
        return {(k if isinstance(k, str) else repr(to_py(k))): to_py(x) for k, x in v.items()}
    return v


def to_tla(v) -> str:
    """Render a python value as a TLA+ expression (inverse of to_py for the
    subset we use: int, bool, str, list -> sequence, set -> set, dict -> record)."""
    if isinstance(v, bool):
        return "TRUE" if v else "FALSE"
    if isinstance(v, int):
        return str(v)
    if isinstance(v, str):
        return '"' + v.replace("\\", "\\\\").replace('"', '\\"') + '"'
    if isinstance(v, (list, tuple)):
        return "<<" + ", ".join(to_tla(x) for x in v) + ">>"
    if isinstance(v, (set, frozenset)):
        return "{" + ", ".join(to_tla(x) for x in sorted(v, key=repr)) + "}"
    if isinstance(v, dict):
        if not v:
            return "<<>>"
        if all(isinstance(k, str) for k in v):
            return "[" + ", ".join(f"{k} |-> {to_tla(x)}" for k, x in v.items()) + "]"
        return "(" + " @@ ".join(f"{to_tla(k)} :> {to_tla(x)}" for k, x in v.items()) + ")"
    raise TypeError(f"cannot render {type(v)} as TLA+")
