"""Discrete-sky scenarios (spec/Sky.tla) realised on the real sphere.

A scenario is a set of objects on a ring of M slots (spacing delta = 360/M deg).
``embed`` places the ring on a great circle of the sphere (several rigid
placements); coordinates are produced with an independent atan2 based routine.
"""

from __future__ import annotations

import math
import os
import zlib
from dataclasses import dataclass, field

import numpy as np

from . import data, tlc

# ---------------------------------------------------------------------------
# embeddings: rotation matrices applied to (cos phi, sin phi, 0)
# ---------------------------------------------------------------------------


def _rot(axis, deg):
    a = math.radians(deg)
    c, s = math.cos(a), math.sin(a)
    if axis == "x":
        return np.array([[1, 0, 0], [0, c, -s], [0, s, c]])
    if axis == "y":
        return np.array([[c, 0, s], [0, 1, 0], [-s, 0, c]])
    return np.array([[c, -s, 0], [s, c, 0], [0, 0, 1]])


EMBEDDINGS = {
    "equator": _rot("z", 20.0),                                   # ring = equator, window starts at RA 20
    "ra_wrap": _rot("z", -17.5),                                  # window straddles RA = 0/360
    "meridian_pole": _rot("x", 90.0) @ _rot("z", 72.5),           # great circle through the poles, window across the north pole
    "south_pole": _rot("x", -90.0) @ _rot("z", 67.5),
    "tilted": _rot("z", 33.0) @ _rot("x", 41.0) @ _rot("z", 11.0),
    "tilted2": _rot("y", 63.0) @ _rot("z", -140.0),
}


def embed(slot, M, emb, extra=None):
    """(ra_deg, dec_deg) of a ring slot under embedding ``emb`` (name or 3x3 matrix)."""
    R = EMBEDDINGS[emb] if isinstance(emb, str) else emb
    phi = 2.0 * math.pi * slot / M
    v = R @ np.array([math.cos(phi), math.sin(phi), 0.0])
    if extra is not None:
        v = extra @ v
    ra = math.degrees(math.atan2(v[1], v[0])) % 360.0
    dec = math.degrees(math.atan2(v[2], math.hypot(v[0], v[1])))
    return ra, dec


# ---------------------------------------------------------------------------
# configuration of a family of scenarios
# ---------------------------------------------------------------------------


@dataclass
class SkyConfig:
    M: int = 72
    centres: tuple = (2, 7)
    edges: tuple = (0.2, 0.5, 0.8)
    closed: str = "right"
    unit: str = "deg"
    rmin: tuple = (2.5,)          # in `unit`
    rmax: tuple = (12.5,)
    slots: str = "0..9"
    zcells: str = "{2, 4}"
    weights: str = "{1}"
    nref: int = 2
    nunk: int = 2
    rweight: float | None = None
    resolution: int = 50
    max_d: int = 12
    print_every: int = 1
    cosmology: str | None = None   # None: the library default (Planck15); "closed": a curved LambdaCDM
    lo: list = field(default_factory=list)   # derived: half-steps per scale per bin
    hi: list = field(default_factory=list)
    theta_impl: int = 0

    @property
    def delta(self) -> float:
        return 360.0 / self.M

    @property
    def nb(self) -> int:
        return len(self.edges) - 1

    def yaw_config(self):
        yaw = data.import_yaw()
        kw = {}
        if self.cosmology is not None:
            kw["cosmology"] = self.astropy_cosmology()
        return yaw.Configuration.create(rmin=list(self.rmin), rmax=list(self.rmax), unit=self.unit, edges=list(self.edges),
                                        closed=self.closed, rweight=self.rweight, resolution=self.resolution, **kw)

    def astropy_cosmology(self):
        import astropy.cosmology as ac

        if self.cosmology is None:
            return ac.Planck15
        if self.cosmology == "closed":
            return ac.LambdaCDM(H0=70.0, Om0=0.4, Ode0=1.0)
        raise ValueError(self.cosmology)

    def angle_rad(self, r: float, z: float) -> float:
        """The angle a scale limit r (in `unit`) subtends at redshift z, from astropy directly: r / D(z) with the
        angular diameter distance for kpc / Mpc and the comoving distance for kpc/h / Mpc/h (what the library documents)."""
        u = self.unit
        if u == "rad":
            return float(r)
        if u in ("deg", "arcmin", "arcsec"):
            return math.radians(r / {"deg": 1.0, "arcmin": 60.0, "arcsec": 3600.0}[u])
        cosmo = self.astropy_cosmology()
        mpc = r / 1000.0 if u.startswith("kpc") else float(r)
        dist = cosmo.comoving_distance(z).value if u.endswith("/h") else cosmo.angular_diameter_distance(z).value
        return mpc / float(dist)

    def derive(self):
        """Lo/Hi per scale and bin (odd half-steps) from the REAL scale -> angle
        conversion at the bin centres, and the pruning angle the implementation uses."""
        from yaw.correlation.measurements import get_max_angle

        cfg = self.yaw_config()
        mids = cfg.binning.binning.mids
        half = math.radians(self.delta) / 2.0
        lo = [[0] * self.nb for _ in self.rmin]
        hi = [[0] * self.nb for _ in self.rmin]
        for b, z in enumerate(mids):
            for s in range(len(self.rmin)):
                for arr, val in ((lo, self.angle_rad(self.rmin[s], float(z))), (hi, self.angle_rad(self.rmax[s], float(z)))):
                    h = val / half          # in half-steps; realised distances are even numbers
                    if abs(h - 2 * round(h / 2)) < 1e-6:
                        raise ValueError(f"scale {val} rad coincides with a lattice distance")
                    arr[s][b] = 2 * math.floor(h / 2) + 1     # the odd half-step in the same gap between lattice distances
        self.lo, self.hi = lo, hi
        self.max_d = max(max(r) for r in hi) // 2 + 1      # distances beyond the widest scale are never needed
        th = get_max_angle(cfg).data[0] / half
        self.theta_impl = 2 * math.floor(th / 2) + 1
        return self

    def tla_defs(self, deviations="{}"):
        seq = lambda rows: "<<" + ", ".join("<<" + ", ".join(str(x) for x in r) + ">>" for r in rows) + ">>"
        return dict(M=self.M, Slots=self.slots, Centres="<<" + ", ".join(map(str, self.centres)) + ">>", NB=self.nb,
                    Closed=f'"{self.closed}"', NS=len(self.rmin), Lo=seq(self.lo), Hi=seq(self.hi), ThetaMaxImpl=self.theta_impl,
                    NRef=self.nref, NUnk=self.nunk, ZCells=self.zcells, Weights=self.weights, MaxD=self.max_d, PrintEvery=self.print_every, Deviations=deviations)

    def zvalue(self, cell: int) -> float:
        e = self.edges
        nb = self.nb
        if cell == 0:
            return e[0] - 0.4 * (e[1] - e[0]) if e[0] - 0.4 * (e[1] - e[0]) > 0 else e[0] / 2
        if cell == 2 * nb + 2:
            return e[-1] + 0.05
        if cell % 2 == 1:
            return float(np.asarray(self.yaw_config().binning.edges)[(cell - 1) // 2])
        b = cell // 2
        return (e[b - 1] + e[b]) / 2.0


DESIGN_INVS = ["PruningLosesNothing", "LinkSymmetric", "SelfLinked", "TotalsAgree", "ByDistanceAgrees", "MetaDescribesPatch"]
SYM_INVS = ["RotationInvariant", "ReflectionInvariant", "WeightScaling", "SplitAdditive"]


def model_check_many(ctx, jobs, threads: int = 6):
    """Run several Sky model-checking jobs concurrently (TLC computes and checks the
    initial states - all there is in this spec - on one thread, so the families are
    run side by side).  jobs: [(label, sc, invariants, kwargs)] -> [(res, scenarios)]"""
    from concurrent.futures import ThreadPoolExecutor

    def one(job):
        label, sc, invariants, kw = job
        return _model_check(sc, invariants, workers=2, **kw)

    with ThreadPoolExecutor(max_workers=threads) as ex:
        outs = list(ex.map(one, jobs))
    for (label, sc, invariants, kw), (res, scen) in zip(jobs, outs):
        _record(ctx, label, sc, res, kw.get("deviations", "{}"))
    return outs


def _model_check(sc, invariants, *, deviations="{}", want_print=True, timeout=1500, workers="auto", print_inv="PrintScenario"):
    name, mods, consts = tlc.mc_module("Sky", sc.tla_defs(deviations))
    invs = list(invariants) + ([print_inv] if want_print else [])
    res = tlc.run(name, tlc.make_cfg(constants=consts, invariants=invs, deadlock=False), extra_modules=mods, timeout=timeout, workers=workers)
    return res, (res.printed("scenario") if want_print and res.ok else [])


def _record(ctx, label, sc, res, deviations):
    ctx.add_tlc(label, res, config=dict(nref=sc.nref, nunk=sc.nunk, slots=sc.slots, zcells=sc.zcells, weights=sc.weights, closed=sc.closed,
                                         lo=sc.lo, hi=sc.hi, theta_impl=sc.theta_impl, deviations=deviations))


def model_check(ctx, label, sc: SkyConfig, invariants, *, deviations="{}", want_print=True, timeout=1500, print_inv="PrintScenario"):
    res, scen = _model_check(sc, invariants, deviations=deviations, want_print=want_print, timeout=timeout, print_inv=print_inv)
    _record(ctx, label, sc, res, deviations)
    return res, scen


def _unused_model_check(ctx, label, sc: SkyConfig, invariants, *, deviations="{}", want_print=True, timeout=1500):
    name, mods, consts = tlc.mc_module("Sky", sc.tla_defs(deviations))
    invs = list(invariants) + (["PrintScenario"] if want_print else [])
    res = tlc.run(name, tlc.make_cfg(constants=consts, invariants=invs, deadlock=False), extra_modules=mods, timeout=timeout)
    ctx.add_tlc(label, res, config=dict(nref=sc.nref, nunk=sc.nunk, slots=sc.slots, zcells=sc.zcells, weights=sc.weights, closed=sc.closed,
                                         lo=sc.lo, hi=sc.hi, theta_impl=sc.theta_impl, deviations=deviations))
    return res, (res.printed("scenario") if want_print and res.ok else [])


# ---------------------------------------------------------------------------
# realisation on the real library
# ---------------------------------------------------------------------------


def frames(sc: SkyConfig, exp, emb, extra=None, order=None, wscale=1.0):
    import pandas as pd

    ref = [dict(zip(("ra", "dec"), embed(o["s"], sc.M, emb, extra)), w=float(o["w"]), z=sc.zvalue(o["z"])) for o in exp["ref"]]
    unk = [dict(zip(("ra", "dec"), embed(o["s"], sc.M, emb, extra)), w=float(o["w"]) * wscale) for o in exp["unk"]]
    if order is not None:
        rng = np.random.default_rng(order)
        ref = [ref[i] for i in rng.permutation(len(ref))]
        unk = [unk[i] for i in rng.permutation(len(unk))]
    return pd.DataFrame(ref), pd.DataFrame(unk)


def centre_coords(sc: SkyConfig, emb, extra=None, perm=None):
    yaw = data.import_yaw()
    cs = list(sc.centres)
    if perm is not None:
        cs = [cs[i] for i in perm]
    pts = [embed(c, sc.M, emb, extra) for c in cs]
    return yaw.AngularCoordinates(np.deg2rad(np.array(pts)))


def realise(sc: SkyConfig, exp, workdir, emb="equator", *, extra=None, order=None, wscale=1.0, perm=None, want=("cross", "auto", "meta", "hist", "trees"),
            workers: int = 1, sched_seed: int = 0, derived: bool = False):
    """Run the real pipeline for one scenario.  Returns dict of observations
    (or raises whatever the library raises).  With workers > 1 the measuring stages
    run on the deterministic fake multiprocessing runtime (functions, arguments and
    results cross a pickling boundary, tasks complete in a seeded random order)."""
    if workers > 1:
        from . import detrt

        s, outcome = detrt.run_main(lambda: _realise(sc, exp, workdir, emb, extra, order, wscale, perm, want, workers, derived), seed=sched_seed)
        if outcome[0] == "ok":
            return outcome[1]
        if outcome[0] == "raised":
            raise outcome[1]
        raise RuntimeError(f"deadlock: {outcome[1]}")
    return _realise(sc, exp, workdir, emb, extra, order, wscale, perm, want, 1, derived)


def _angle(p, q):
    """angular distance of two (ra, dec) points in radian (haversine)"""
    h = math.sin((p[1] - q[1]) / 2) ** 2 + math.cos(p[1]) * math.cos(q[1]) * math.sin((p[0] - q[0]) / 2) ** 2
    return 2.0 * math.asin(min(1.0, math.sqrt(h)))


def _realise(sc, exp, workdir, emb, extra, order, wscale, perm, want, W, derived=False):
    yaw = data.import_yaw()
    dref, dunk = frames(sc, exp, emb, extra, order, wscale)
    cen = centre_coords(sc, emb, extra, perm)
    kw = dict(ra_name="ra", dec_name="dec", weight_name="w", patch_centers=cen, overwrite=True, max_workers=1)
    workdir.mkdir(parents=True, exist_ok=True)
    cref = None
    if derived and order is None and perm is None and "assign1" in exp:
        # the usual work flow: the reference catalog is split by a patch-index column (the model's assignment), its centres
        # and radii are DERIVED from its data, every other catalog inherits the centres.  Used only if the derived centres
        # reproduce the model's assignment of every object of both samples with a clear margin (else: given centres)
        dpid = dref.copy()
        dpid["pid"] = [int(a) - 1 for a in exp["assign1"]]
        kwi = {k: v for k, v in kw.items() if k != "patch_centers"}
        try:
            cand = yaw.Catalog.from_dataframe(workdir / "ref", dpid, redshift_name="z", patch_name="pid", **kwi)
            dc = cand.get_centers().data
            good = len(dc) == len(sc.centres)
            for frame_, assign in ((dref, exp["assign1"]), (dunk, exp["assign2"])):
                for pt, a in zip(np.deg2rad(frame_[["ra", "dec"]].to_numpy()), assign):
                    ds = [_angle(pt, c) for c in dc]
                    best = min(range(len(ds)), key=ds.__getitem__)
                    good = good and best == int(a) - 1 and all(ds[j] - ds[best] > 1e-6 for j in range(len(ds)) if j != best)
        except Exception:  # noqa: BLE001 - e.g. a patch index that is not contiguous: not the subject here
            good = False
        if good:
            cref = cand
            cen = yaw.AngularCoordinates(dc.copy())
            kw["patch_centers"] = cref
        else:
            import shutil

            shutil.rmtree(workdir / "ref", ignore_errors=True)
    if cref is None:
        cref = yaw.Catalog.from_dataframe(workdir / "ref", dref, redshift_name="z", **kw)
    # when every unknown object has weight 1 the weight column may as well be absent (a weighted catalog is then
    # counted against an unweighted one); which scenarios do so varies with the scenario
    kwu = dict(kw)
    if wscale == 1.0 and all(float(w) == 1.0 for w in dunk["w"]) and zlib.crc32(repr(exp["unk"]).encode()) % 2 == 0:
        kwu.pop("weight_name")
    cunk = yaw.Catalog.from_dataframe(workdir / "unk", dunk, **kwu)
    crnd = yaw.Catalog.from_dataframe(workdir / "rnd", dunk, **kwu)
    # reference randoms: a second catalog with the records of the reference sample (RD and RR must then equal DD and DR)
    # (only in every other scenario: a copy of the reference among the catalogs would hide a defect in the way the
    # reference's own patch radii are used)
    use_rref = "cross" in want and zlib.crc32(repr(exp["ref"]).encode()) % 4 < 2
    crref = yaw.Catalog.from_dataframe(workdir / "rref", dref, redshift_name="z", **kw) if use_rref else None
    cfg = sc.yaw_config()
    # pre-history of the tree caches: the binned catalog has served the same edges with the OTHER closed side and edges
    # that differ by a relative 2e-6 before; the measurements below must not be influenced by what is cached
    edges0 = np.asarray(cfg.binning.edges, dtype=float)
    other = "left" if str(cfg.binning.closed) == "right" else "right"
    nudged = edges0.copy()
    nudged[1:-1] *= 1.0 - 2e-6
    history = [(edges0, other), (nudged, str(cfg.binning.closed))]
    if zlib.crc32(repr(exp["ref"]).encode()) % 2:          # which of the two is the most recent state of the cache varies with the scenario
        history.reverse()
    for e_, c_ in history:
        cref.build_trees(e_, closed=c_, max_workers=1)
    out = {"derived_centres": kw.get("patch_centers") is cref}
    # every other scenario measures with the progress display on (results then pass through the Indicator wrapper)
    progress = zlib.crc32(repr(exp["unk"]).encode()) % 4 < 2
    from .yawenv import quiet_fds

    with quiet_fds():
        return _measure(yaw, sc, exp, want, W, cfg, cen, cref, cunk, crnd, crref, out, progress)


def _measure(yaw, sc, exp, want, W, cfg, cen, cref, cunk, crnd, crref, out, progress):
    if "meta" in want:
        out["meta1"] = dict(keys=list(cref.keys()), num=list(cref.get_num_records()), sw=list(cref.get_sum_weights()),
                            radii=[float(x) for x in cref.get_radii().data], centers=cref.get_centers().data.tolist())
        out["meta2"] = dict(keys=list(cunk.keys()), num=list(cunk.get_num_records()), sw=list(cunk.get_sum_weights()),
                            radii=[float(x) for x in cunk.get_radii().data], centers=cunk.get_centers().data.tolist())
        out["given_centers"] = cen.data.tolist()
    if "cross" in want:
        cfs = yaw.crosscorrelate(cfg, cref, cunk, ref_rand=crref, unk_rand=crnd, max_workers=W, progress=progress)
        out["cross"] = [cf.dd.counts.get_array().tolist() for cf in cfs]          # [scale][bin][i][j]
        out["cross_dr"] = [cf.dr.counts.get_array().tolist() for cf in cfs]
        if crref is not None:
            out["cross_rd"] = [cf.rd.counts.get_array().tolist() for cf in cfs]
            out["cross_rr"] = [cf.rr.counts.get_array().tolist() for cf in cfs]
            out["sw1_rd"] = cfs[0].rd.sum_weights.sum_weights1.tolist()                # reference randoms, binned like the reference
            out["sw1_rr"] = cfs[0].rr.sum_weights.sum_weights1.tolist()
        out["sw1"] = cfs[0].dd.sum_weights.sum_weights1.tolist()                   # [bin][patch]
        out["sw2"] = cfs[0].dd.sum_weights.sum_weights2.tolist()
        out["cfs"] = cfs
    if "auto" in want:
        afs = yaw.autocorrelate(cfg, cref, cref, count_rr=False, max_workers=W, progress=progress)
        out["auto"] = [cf.dd.counts.get_array().tolist() for cf in afs]
        out["auto_sw1"] = afs[0].dd.sum_weights.sum_weights1.tolist()
        out["afs"] = afs
    if "hist" in want:
        h = yaw.HistData.from_catalog(cref, cfg, max_workers=W, progress=progress)
        out["hist"] = h.data.tolist()
        out["hist_samples"] = h.samples.tolist()
    if "trees" in want:
        from yaw.catalog.trees import BinnedTrees

        cref.build_trees(cfg.binning.edges, closed=cfg.binning.closed, force=True, max_workers=W, progress=progress)
        out["trees"] = {int(pid): [(t.num_records, float(t.sum_weights)) for t in BinnedTrees(p).trees] for pid, p in cref.items()}
    return out


def exp_cross(exp, linked_only=True):
    """expected [scale][bin][i][j] (0-based lists) from the TLC record; pairs in
    unlinked patch pairs are expected too (the property says no pair is lost)."""
    return [[[list(row) for row in b] for b in s] for s in exp["cross"]]


def nested(t):
    if isinstance(t, (tuple, list)):
        return [nested(x) for x in t]
    return t


def separation_weights(sc: SkyConfig, s: int, b: int):
    """Power-law factor per lattice distance d (steps) for scale s at the centre of bin b, following
    the property: the factor of the FINE separation bin (logarithmic bins between the smallest and the
    largest limit of all scales, plus the limits themselves) that contains the pair, evaluated at the
    logarithmic centre of that bin and normalised by the sum over all fine bins.  Independent of the
    library's implementation (plain math)."""
    cfg = sc.yaw_config()
    z = cfg.binning.binning.mids[b]
    amin, amax = cfg.scales.scales.get_angle_radian(z, cosmology=cfg.cosmology)
    lims = sorted(set([math.log10(x) for x in list(amin) + list(amax)]))
    lo, hi = lims[0], lims[-1]
    grid = sorted(set([lo + (hi - lo) * k / sc.resolution for k in range(sc.resolution + 1)] + lims))
    # merge numerically identical edges (np.unique semantics on floats)
    edges = [10.0 ** g for g in grid]
    mids = [10.0 ** ((math.log10(edges[k]) + math.log10(edges[k + 1])) / 2.0) for k in range(len(edges) - 1)]
    wts = [m ** sc.rweight for m in mids]
    norm = sum(wts)
    out = {}
    delta = math.radians(sc.delta)
    for d in range(1, sc.max_d + 1):
        theta = d * delta
        if not (amin[s] < theta <= amax[s]):
            out[d] = 0.0
            continue
        k = max(i for i in range(len(edges) - 1) if edges[i] < theta)      # (edge_k, edge_k+1]
        if min(abs(theta - e) for e in edges) < 1e-9:
            raise ValueError("a lattice distance coincides with a fine bin edge")
        out[d] = wts[k] / norm
    return out
