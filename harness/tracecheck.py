"""Batch trace validation: traces recorded from the implementation are checked
by TLC against a *Trace.tla module (code -> spec direction)."""

from __future__ import annotations

import json
import os
import tempfile
from pathlib import Path

from . import tlc

FIELDS = dict(ev="", src=-1, dst=-1, tag=-1, cls="", arg=-1, mode="", wild=False, kind="", wr=-1, rank=-1, root=-1,
              k=-1, comm="", n=-1, q="", code=-1, proc="", start=-1, stop=-1, patch=-1)


def normalise(ev: dict, extra: dict | None = None) -> dict:
    out = dict(FIELDS)
    if extra:
        out.update(extra)
    for k, v in ev.items():
        if k in ("p", "seq"):
            continue
        if v is None:
            v = -1
        if isinstance(v, (list, tuple)):
            v = list(v)
        out[k] = v
    return out


def validate(trace_module: str, constants: dict, traces: list[list[dict]], *, invariants=(), extra_fields=None,
             timeout: float = 900, metas=None):
    """Returns (TLCResult, [(matched_prefix_len, accepted)])."""
    fd, name = tempfile.mkstemp(prefix="traces_", suffix=".ndjson", dir=os.environ.get("VERIF_TMP"))
    os.close(fd)
    path = Path(name)
    try:
        with path.open("w") as f:
            for i, tr in enumerate(traces):
                line = dict(events=[normalise(e, extra_fields) for e in tr])
                if metas is not None:
                    line.update(metas[i])
                f.write(json.dumps(line) + "\n")
        cfg = tlc.make_cfg(spec="TSpec", constants=constants, invariants=["Progress", *invariants],
                           postcondition="Post", deadlock=False)
        try:
            res = tlc.run(trace_module, cfg, workers=1, env={"TRACE_FILE": str(path)}, timeout=timeout)
        except tlc.TLCMachineryError as exc:
            if "TLCGet" in str(exc) and "undefined" in str(exc):
                # no trace has an initial state in the trace spec (e.g. recorded roles impossible in the model): nothing accepted
                res = tlc.TLCResult(0, str(exc), 0.0)
                return res, [(0, False)] * len(traces)
            raise
        verdicts = res.printed("verdict")
        if not verdicts:
            raise tlc.TLCMachineryError(f"no verdict printed by {trace_module}:\n{res.out[-1500:]}")
        v = verdicts[-1]
        out = []
        if isinstance(v, dict):
            seq = [v[k] for k in sorted(v)]
        else:
            seq = list(v)
        for item in seq:
            out.append((int(item[0]), item[1] is True))
        return res, out
    finally:
        path.unlink(missing_ok=True)
