"""Thin, deterministic wrapper around TLC (tla2tools 1.8).

* run()        model-check a module with a cfg (text or file), parse statistics,
               coverage per action, error kind and the JSON counterexample;
* simulate()   -simulate file=... behaviours parsed into [(action, state)];
* graph()      -dump dot,actionlabels parsed into nodes/edges;
* printed()    values printed with PrintT(<<"tag", value>>) parsed back.

All scratch output goes into a private temporary directory that is removed again.
"""

from __future__ import annotations

import json
import os
import re
import shutil
import subprocess
import tempfile
import time
from dataclasses import dataclass, field
from pathlib import Path

from . import tlaval

VERIF = Path(__file__).resolve().parent.parent
SPEC_DIR = VERIF / "spec"
JAR = "/opt/veriftools/tla/tla2tools.jar"
DEPS = "/opt/veriftools/tla/CommunityModules-deps.jar"


class TLCMachineryError(RuntimeError):
    """TLC could not be run / parse error in the spec: exit 2 material."""


@dataclass
class TLCResult:
    rc: int
    out: str
    wall_s: float
    generated: int = 0
    distinct: int = 0
    depth: int = 0
    error_kind: str | None = None  # invariant | deadlock | property | assumption | None
    error_name: str | None = None
    trace: list = field(default_factory=list)  # [{"action", "context", "state"}]
    coverage: dict = field(default_factory=dict)  # action -> (distinct, total)
    workdir: Path | None = None

    @property
    def ok(self) -> bool:
        return self.error_kind is None

    def printed(self, tag: str) -> list:
        return parse_printed(self.out, tag)


def _java_cmd(heap: str = "6g", tmpdir=None) -> list[str]:
    return [
        "java",
        *([f"-Djava.io.tmpdir={tmpdir}"] if tmpdir else []),      # TLC's own tlc-<n> scratch directory goes where we clean up
        f"-Xmx{heap}",
        "-XX:+UseParallelGC",
        f"-DTLA-Library={SPEC_DIR}",
        "-cp",
        f"{JAR}:{DEPS}",
        "tlc2.TLC",
    ]


def make_cfg(
    *,
    spec: str | None = "Spec",
    init: str | None = None,
    next_: str | None = None,
    constants: dict | None = None,
    invariants: list[str] = (),
    properties: list[str] = (),
    constraints: list[str] = (),
    action_constraints: list[str] = (),
    view: str | None = None,
    symmetry: str | None = None,
    postcondition: str | None = None,
    deadlock: bool = True,
) -> str:
    lines = []
    if init:
        lines += [f"INIT {init}", f"NEXT {next_}"]
    elif spec:
        lines.append(f"SPECIFICATION {spec}")
    for k, v in (constants or {}).items():
        if isinstance(v, str) and v.startswith("<-"):
            lines.append(f"CONSTANT {k} {v}")
        else:
            lines.append(f"CONSTANT {k} = {v}")
    for i in invariants:
        lines.append(f"INVARIANT {i}")
    for p in properties:
        lines.append(f"PROPERTY {p}")
    for c in constraints:
        lines.append(f"CONSTRAINT {c}")
    for c in action_constraints:
        lines.append(f"ACTION_CONSTRAINT {c}")
    if view:
        lines.append(f"VIEW {view}")
    if symmetry:
        lines.append(f"SYMMETRY {symmetry}")
    if postcondition:
        lines.append(f"POSTCONDITION {postcondition}")
    lines.append(f"CHECK_DEADLOCK {'TRUE' if deadlock else 'FALSE'}")
    return "\n".join(lines) + "\n"


_RE_STATS = re.compile(r"(\d+) states generated, (\d+) distinct states found")
_RE_DEPTH = re.compile(r"depth of the complete state graph search is (\d+)")
_RE_SIMSTATES = re.compile(r"The number of states generated: (\d+)")
_RE_COV = re.compile(r"^<(\w+) line \d+, col \d+ to line \d+, col \d+ of module (\w+)(?: \([\d ]+\))?>: (\d+):(\d+)", re.M)


def _parse_out(res: TLCResult) -> None:
    out = res.out
    m = None
    for m in _RE_STATS.finditer(out):
        pass
    if m:
        res.generated, res.distinct = int(m.group(1)), int(m.group(2))
    else:
        m = _RE_SIMSTATES.search(out)
        if m:
            res.generated = res.distinct = int(m.group(1))
    m = _RE_DEPTH.search(out)
    if m:
        res.depth = int(m.group(1))
    for m in _RE_COV.finditer(out):
        name = m.group(1)
        d, t = int(m.group(3)), int(m.group(4))
        od, ot = res.coverage.get(name, (0, 0))
        res.coverage[name] = (od + d, ot + t)
    if "Error: Invariant " in out:
        res.error_kind = "invariant"
        res.error_name = re.search(r"Error: Invariant (\S+) is violated", out).group(1)
    elif "Error: Deadlock reached" in out:
        res.error_kind = "deadlock"
    elif "Error: Action property " in out:
        res.error_kind = "property"
        res.error_name = re.search(r"Error: Action property (\S+)", out).group(1)
    elif "Temporal properties were violated" in out:
        res.error_kind = "property"
        res.error_name = "temporal"
    elif "Error: Assumption" in out:
        res.error_kind = "assumption"
    elif "Error: The postcondition" in out or "Error: Evaluating the postcondition" in out or "POSTCONDITION" in out and "is violated" in out:
        res.error_kind = "postcondition"
    elif re.search(r"^Error: ", out, re.M):
        # any other TLC error = machinery (parse error, evaluation error ...)
        first = re.search(r"^Error: .*(?:\n.*){0,6}", out, re.M).group(0)
        if "Parsing or semantic analysis failed" in first:
            detail = [ln for ln in out.splitlines() if not ln.startswith(("Parsing file", "Semantic processing", "Linting"))]
            first += "\n" + "\n".join(detail[-40:])
        raise TLCMachineryError(first)
    elif res.rc not in (0,):
        tail = out[-2000:]
        raise TLCMachineryError(f"TLC exited with rc={res.rc}\n{tail}")


def run(
    module: str,
    cfg: str,
    *,
    workers: int | str = "auto",
    coverage: bool = False,
    extra_modules: dict[str, str] | None = None,
    timeout: float = 1800,
    extra_args: list[str] = (),
    env: dict | None = None,
    keep: bool = False,
    heap: str = "6g",
    dfs_queue: bool = False,
) -> TLCResult:
    """Model-check ``module`` (a module in spec/ or one of ``extra_modules``,
    given as {name: text}) with the cfg text ``cfg``."""
    if workers == "auto" and os.environ.get("VERIF_TLC_WORKERS"):
        workers = os.environ["VERIF_TLC_WORKERS"]
    work = Path(tempfile.mkdtemp(prefix="tlc_", dir=os.environ.get("VERIF_TMP")))
    try:
        for name, text in (extra_modules or {}).items():
            (work / f"{name}.tla").write_text(text)
        root = work / f"{module}.tla"
        if not root.exists():
            src = SPEC_DIR / f"{module}.tla"
            if not src.exists():
                raise TLCMachineryError(f"no such module {module}")
            shutil.copy(src, root)
        (work / "run.cfg").write_text(cfg)
        ce = work / "ce.json"
        cmd = _java_cmd(heap, tmpdir=work)
        if dfs_queue:
            cmd.insert(1, "-Dtlc2.tool.queue.IStateQueue=StateDeque")
        cmd += [
            "-workers", str(workers),
            "-metadir", str(work / "meta"),
            "-noGenerateSpecTE",
            "-config", str(work / "run.cfg"),
            "-dumpTrace", "json", str(ce),
        ]
        if coverage:
            cmd += ["-coverage", "1"]
        cmd += list(extra_args)
        cmd.append(str(root))
        t0 = time.time()
        e = dict(os.environ)
        e.update(env or {})
        try:
            p = subprocess.run(
                cmd, cwd=work, capture_output=True, text=True, timeout=timeout, env=e
            )
        except subprocess.TimeoutExpired as exc:
            raise TLCMachineryError(f"TLC timed out after {timeout}s on {module}") from exc
        res = TLCResult(p.returncode, p.stdout + p.stderr, time.time() - t0)
        _parse_out(res)
        if ce.exists() and res.error_kind:
            try:
                doc = json.loads(ce.read_text())
                res.trace = _trace_from_json(doc)
            except Exception:
                res.trace = []
        if keep:
            res.workdir = work
        return res
    finally:
        if not keep:
            shutil.rmtree(work, ignore_errors=True)


def _trace_from_json(doc: dict) -> list:
    cex = doc.get("counterexample", {})
    states = cex.get("state", [])
    actions = cex.get("action", [])
    out = []
    for idx, (_, st) in enumerate(states):
        if idx == 0:
            out.append({"action": "Init", "context": {}, "state": st})
        else:
            a = actions[idx - 1][1] if idx - 1 < len(actions) else {}
            out.append(
                {"action": a.get("name", "?"), "context": a.get("context", {}), "state": st}
            )
    return out


_RE_SIM_ACTION = re.compile(r"^\\\* <(\w+)(?:\((.*?)\))? line", re.M)


def parse_sim_file(text: str) -> list:
    """[(action, params, state_dict)] from a -simulate behaviour file."""
    out = []
    parts = re.split(r"^\\\* <", text, flags=re.M)[1:]
    for part in parts:
        head, _, rest = part.partition("\n")
        m = re.match(r"(\w+)(?:\((.*)\))? line", head)
        action = m.group(1)
        params = m.group(2)
        body = rest.split("==", 1)[1]
        body = body.split("=====")[0]
        st = tlaval.parse_state(body)
        plist = []
        if params:
            plist = list(tlaval.parse_value("<<" + params + ">>"))
        out.append((action, plist, st))
    return out


def simulate(
    module: str,
    cfg: str,
    *,
    num: int,
    depth: int,
    seed: int = 1,
    extra_modules: dict[str, str] | None = None,
    timeout: float = 600,
) -> tuple[TLCResult, list[list]]:
    work = Path(tempfile.mkdtemp(prefix="tlcsim_", dir=os.environ.get("VERIF_TMP")))
    try:
        for name, text in (extra_modules or {}).items():
            (work / f"{name}.tla").write_text(text)
        root = work / f"{module}.tla"
        if not root.exists():
            shutil.copy(SPEC_DIR / f"{module}.tla", root)
        (work / "run.cfg").write_text(cfg)
        (work / "sim").mkdir()
        cmd = _java_cmd(tmpdir=work) + [
            "-simulate", f"file={work}/sim/tr,num={num}",
            "-depth", str(depth),
            "-workers", "1",
            "-seed", str(seed),
            "-metadir", str(work / "meta"),
            "-noGenerateSpecTE",
            "-config", str(work / "run.cfg"),
            str(root),
        ]
        t0 = time.time()
        p = subprocess.run(cmd, cwd=work, capture_output=True, text=True, timeout=timeout)
        res = TLCResult(p.returncode, p.stdout + p.stderr, time.time() - t0)
        _parse_out(res)
        behaviours = []
        for f in sorted((work / "sim").iterdir(), key=lambda q: int(q.name.rsplit("_", 1)[1])):
            behaviours.append(parse_sim_file(f.read_text()))
        return res, behaviours
    finally:
        shutil.rmtree(work, ignore_errors=True)


_RE_NODE = re.compile(r'^(-?\d+) \[label="((?:[^"\\]|\\.)*)"', re.M)
_RE_EDGE = re.compile(r'^(-?\d+) -> (-?\d+) \[label="((?:[^"\\]|\\.)*)"', re.M)


def _unescape(s: str) -> str:
    return s.replace("\\n", "\n").replace('\\"', '"').replace("\\\\", "\\")


def graph(
    module: str,
    cfg: str,
    *,
    extra_modules: dict[str, str] | None = None,
    workers: int | str = "auto",
    timeout: float = 900,
) -> tuple[TLCResult, dict, list, list]:
    """Returns (result, nodes{id: state}, edges[(src, action, params, dst)], init_ids)."""
    work = Path(tempfile.mkdtemp(prefix="tlcg_", dir=os.environ.get("VERIF_TMP")))
    try:
        res = run(
            module,
            cfg,
            workers=workers,
            extra_modules=extra_modules,
            timeout=timeout,
            extra_args=["-dump", "dot,actionlabels", str(work / "g")],
        )
        text = (work / "g.dot").read_text()
        nodes, inits = {}, []
        for m in _RE_NODE.finditer(text):
            nid = m.group(1)
            nodes[nid] = tlaval.parse_state(_unescape(m.group(2)))
            if "style = filled" in text[m.end() : m.end() + 40]:
                inits.append(nid)
        edges = []
        for m in _RE_EDGE.finditer(text):
            label = _unescape(m.group(3))
            mm = re.match(r"(\w+)(?:\((.*)\))?$", label, re.S)
            params = []
            if mm and mm.group(2):
                params = list(tlaval.parse_value("<<" + mm.group(2) + ">>"))
            edges.append((m.group(1), mm.group(1) if mm else label, params, m.group(2)))
        return res, nodes, edges, inits
    finally:
        shutil.rmtree(work, ignore_errors=True)


def parse_printed(out: str, tag: str) -> list:
    """Values printed by PrintT(<<"tag", v>>): returns [v, ...] (parsed)."""
    vals = []
    needle = re.compile(r'<<\s*"' + re.escape(tag) + r'"\s*,')
    i = 0
    while True:
        mm = needle.search(out, i)
        if mm is None:
            return vals
        j = mm.start()
        # bracket matching from j
        depth = 0
        k = j
        in_str = False
        while k < len(out):
            c = out[k]
            if in_str:
                if c == "\\":
                    k += 2
                    continue
                if c == '"':
                    in_str = False
            else:
                if c == '"':
                    in_str = True
                elif out.startswith("<<", k):
                    depth += 1
                    k += 2
                    continue
                elif out.startswith(">>", k):
                    depth -= 1
                    k += 2
                    if depth == 0:
                        break
                    continue
            k += 1
        v = tlaval.parse_value(out[j:k])
        vals.append(v[1] if len(v) == 2 else v[1:])
        i = k


def sany(module_path: Path) -> None:
    p = subprocess.run(
        ["java", f"-DTLA-Library={SPEC_DIR}", "-cp", f"{JAR}:{DEPS}", "tla2sany.SANY", str(module_path)],
        capture_output=True, text=True, cwd=module_path.parent,
    )
    if p.returncode != 0 or "Fatal errors" in p.stdout or "*** Errors" in p.stdout or "Could not parse" in p.stdout:
        raise TLCMachineryError(f"SANY failed on {module_path}:\n{p.stdout[-3000:]}")


def mc_module(base: str, defs: dict[str, str], name: str | None = None) -> tuple[str, dict, dict]:
    """Wrapper module that EXTENDS ``base`` and defines every constant as an
    operator (cfg files cannot hold sequences, intervals or functions).
    Returns (module name, {name: text} for extra_modules, constants for make_cfg)."""
    name = name or f"{base}_MC"
    lines = [f"---- MODULE {name} ----", f"EXTENDS {base}"]
    consts = {}
    for k, v in defs.items():
        lines.append(f"MC_{k} == {v}")
        consts[k] = f"<- MC_{k}"
    lines.append("====")
    return name, {name: "\n".join(lines) + "\n"}, consts
