"""Cache workloads for C07 / C08: deterministic inputs, binnings, measurements
and the traced workload entry point (``python -m harness.cachework <workload>
<root> <inputs>`` is what runs under strace)."""

from __future__ import annotations

import json
import sys
from pathlib import Path

import numpy as np

from . import data

NPATCH = 2
BINNINGS = {
    "N": None,
    "A": (np.array([0.1, 0.4, 0.7, 1.0]), "right"),
    "A2": (np.array([0.1, 0.4, 0.7, 1.0]), "left"),
    "B": (np.array([0.1, 0.3, 0.8, 1.0]), "right"),
    "C": (np.array([0.1, 0.55, 1.0]), "right"),
    # A with one inner edge moved by a relative 2e-6: the objects sitting exactly on 0.4 change bins
    "A3": (np.array([0.1, 0.4 * (1.0 - 2e-6), 0.7, 1.0]), "right"),
    # the first two bins of A merged: every edge of D is an edge of A
    "D": (np.array([0.1, 0.7, 1.0]), "right"),
    # a low-redshift binning that contains no object of patch 1 (see frames)
    "E": (np.array([0.1, 0.25, 0.45]), "right"),
}


def centers():
    return data.centers_grid(NPATCH, sep_deg=3.0)


def frames():
    """old / new catalog data, a fixed random sample and an unknown sample; some
    redshifts sit exactly on bin edges so that the closed side matters."""
    def edgy(df):
        z = df["z"].to_numpy().copy()
        z[::7] = 0.4
        z[3::11] = 0.7
        z[5::13] = 0.1
        z[6::17] = 1.0
        df["z"] = z
        return df

    def high_z_patch1(df):
        # patch 1 of the catalogs under test holds objects at z > 0.5 only: empty in the low bins of every binning and
        # without any object inside binning E
        sel = (df["pid"] == 1) & (df["z"] < 0.5)
        df.loc[sel, "z"] = 0.55 + 0.9 * df.loc[sel, "z"]
        # ... and none exactly on an INNER edge of any binning, while it keeps those on the outermost edge 1.0: a patch for
        # which only the outer edges tell the closed sides apart (patch 0 keeps objects on every edge)
        inner = (df["pid"] == 1) & df["z"].isin([0.3, 0.4, 0.55, 0.7, 0.8, 0.85])
        df.loc[inner, "z"] = df.loc[inner, "z"] + 0.013
        return df

    new = high_z_patch1(edgy(data.frame(21, 60, NPATCH, sep_deg=3.0, spread_deg=1.6, int_weights=True)))
    old = high_z_patch1(edgy(data.frame(22, 40, NPATCH, sep_deg=3.0, spread_deg=1.6, int_weights=True)))
    rnd = edgy(data.frame(23, 90, NPATCH, sep_deg=3.0, spread_deg=1.6, int_weights=True))
    unk = data.frame(24, 50, NPATCH, sep_deg=3.0, spread_deg=1.6, int_weights=True)
    return dict(new=new, old=old, rnd=rnd, unk=unk)


BIG_N = 200_000


def big_frame():
    import pandas as pd

    idx = np.arange(BIG_N)
    pid = idx % NPATCH
    rng = np.random.default_rng(77)
    c = np.rad2deg(centers().data)
    return pd.DataFrame(dict(ra=c[pid, 0] + rng.uniform(-1.0, 1.0, BIG_N), dec=c[pid, 1] + rng.uniform(-1.0, 1.0, BIG_N),
                             w=1.0 + (idx % 7), z=rng.uniform(0.1, 1.0, BIG_N), pid=pid))


def count_records(cat_dir):
    """(number of records, sum of weights) of the catalog at cat_dir, cheap enough for large catalogs."""
    yaw = data.import_yaw()
    cat = yaw.Catalog(cat_dir, max_workers=1)
    n, sw = 0, 0.0
    for _, p in cat.items():
        d = p.load_data()
        n += len(d)
        sw += float(d["weights"].sum())
    return n, sw


def make(path, which, **kw):
    return data.make_catalog(path, frames()[which], centers(), **kw)


# configuration variants "<binning>@<variant>": same trees as <binning>, other scales / other
# cosmology parameters (two instances of one custom cosmology class compare equal for the
# library, so nothing but the parameters tells their configurations apart)
VARIANTS = {
    "A@s": ("A", dict(rmin=200.0, rmax=2000.0)),
    "A@k1": ("A", dict(toy_h=0.5)),
    "A@k2": ("A", dict(toy_h=0.9)),
    # built with the Configuration constructor from ONE ScalesConfig / BinningConfig object shared by both
    "A@s1": ("A", dict(toy_h=0.5, shared=True)),
    "A@s2": ("A", dict(toy_h=0.9, shared=True)),
}
_TOY = {}
_SHARED = {}


def toy_cosmology(h: float):
    """A custom cosmology (Hubble law D_C = 3000/h * z Mpc) with one parameter."""
    if "cls" not in _TOY:
        from yaw.cosmology import CustomCosmology

        class ToyCosmology(CustomCosmology):
            def __init__(self, h: float) -> None:
                self.h = h

            def comoving_distance(self, z):
                return 3000.0 / self.h * np.asarray(z, dtype=np.float64)

            def angular_diameter_distance(self, z):
                z = np.asarray(z, dtype=np.float64)
                return 3000.0 / self.h * z / (1.0 + z)

        _TOY["cls"] = ToyCosmology
    return _TOY["cls"](h)


def base(b: str) -> str:
    """The binning (= tree cache content) a configuration name stands for."""
    return VARIANTS[b][0] if b in VARIANTS else b


def config_for(b):
    yaw = data.import_yaw()
    edges, closed = BINNINGS[base(b)]
    kw = dict(rmin=500.0, rmax=5000.0)
    if b in VARIANTS:
        extra = dict(VARIANTS[b][1])
        if extra.pop("shared", False):
            if "cfg" not in _SHARED:
                _SHARED["cfg"] = yaw.Configuration.create(edges=edges, closed=closed, **kw)
            donor = _SHARED["cfg"]
            return yaw.Configuration(donor.scales, donor.binning, cosmology=toy_cosmology(extra["toy_h"]))
        if "toy_h" in extra:
            kw["cosmology"] = toy_cosmology(extra.pop("toy_h"))
        kw.update(extra)
    return yaw.Configuration.create(edges=edges, closed=closed, **kw)


def measure_fresh_process(src_cache, names, aux_dir, scratch_dir) -> dict:
    """Reference measurements: each in a NEW interpreter on its own fresh copy of
    the cache, so that nothing a process may keep in memory between calls and
    nothing on disk can influence them.  name -> digest | ("error", text)"""
    import subprocess
    from concurrent.futures import ThreadPoolExecutor

    verif = str(Path(__file__).resolve().parent.parent)

    import shutil

    # private copies of the helper catalogs too (their tree caches are rebuilt by every measurement)
    auxes = {}
    for name in names:
        auxes[name] = Path(scratch_dir) / ("freshaux_" + name.replace("@", "_"))
        if auxes[name].exists():
            shutil.rmtree(auxes[name])
        shutil.copytree(aux_dir, auxes[name])

    def one(name):
        dst = Path(scratch_dir) / ("fresh_" + name.replace("@", "_"))
        aux_dir = auxes[name]
        code = ("import sys, json; sys.path.insert(0, %r); from harness import cachework as cw, data; "
                "from pathlib import Path; d = data.copy_cache(Path(%r), Path(%r)); print('REFJSON' + json.dumps(cw.measure(d, %r, %r)))"
                % (verif, str(src_cache), str(dst), name, str(aux_dir)))
        r = subprocess.run([sys.executable, "-c", code], capture_output=True, text=True, timeout=600)
        for line in r.stdout.splitlines():
            if line.startswith("REFJSON"):
                return name, json.loads(line[7:])
        return name, ("error", (r.stderr or r.stdout)[-400:])

    with ThreadPoolExecutor(max_workers=8) as ex:
        out = dict(ex.map(one, names))
    for d in auxes.values():
        shutil.rmtree(d, ignore_errors=True)
    return out


def build(cat, b, force=False):
    if BINNINGS[b] is None:
        cat.build_trees(None, force=force, max_workers=1)
    else:
        edges, closed = BINNINGS[b]
        cat.build_trees(edges, closed=closed, force=force, max_workers=1)


def measure(cat_dir, b, aux_dir, handle=None):
    """A measurement that uses the catalog at ``cat_dir`` with binning b: as the
    binned reference sample of an autocorrelation (b != N) or as the unbinned
    unknown sample of a cross-correlation (b = N).  Returns a bit-exact digest.
    handle: an already open Catalog object of that directory to measure through."""
    yaw = data.import_yaw()
    cat = handle if handle is not None else yaw.Catalog(cat_dir, max_workers=1)
    rnd = yaw.Catalog(Path(aux_dir) / "rnd", max_workers=1)
    if b == "N":
        ref = yaw.Catalog(Path(aux_dir) / "refaux", max_workers=1)
        (cf,) = yaw.crosscorrelate(config_for("A"), ref, cat, ref_rand=rnd, max_workers=1)
    else:
        (cf,) = yaw.autocorrelate(config_for(b), cat, rnd, count_rr=False, max_workers=1)
    return _jsonable(data.corrfunc_fingerprint(cf))


def _jsonable(x):
    """Digest in a form that survives a JSON round trip unchanged (tuples -> lists)."""
    return json.loads(json.dumps(x))


def records(cat_dir):
    yaw = data.import_yaw()
    cat = yaw.Catalog(cat_dir, max_workers=1)
    out = {}
    for pid, p in cat.items():
        d = p.load_data()
        out[int(pid)] = sorted(zip(d["ra"].tolist(), d["dec"].tolist(), d["weights"].tolist(), d["redshifts"].tolist()))
    if len(cat) == 0:
        return dict(records=out, meta=None)   # opened without error, but holds nothing
    meta = dict(num=list(cat.get_num_records()), sw=list(cat.get_sum_weights()),
                centers=cat.get_centers().data.tolist(), radii=cat.get_radii().data.tolist())
    return dict(records=out, meta=meta)


def prepare_aux(aux_dir):
    """Intact helper catalogs used by measurements."""
    aux = Path(aux_dir)
    aux.mkdir(parents=True, exist_ok=True)
    make(aux / "rnd", "rnd")
    make(aux / "rnd2", "rnd")
    make(aux / "refaux", "old")
    make(aux / "unkaux", "unk", redshifts=False)


# ---------------------------------------------------------------------------
# traced workloads
# ---------------------------------------------------------------------------


def run_workload(name: str, root: Path, inputs: Path) -> None:
    yaw = data.import_yaw()
    root = Path(root)
    if name == "create":
        make(root / "cat", "new", overwrite=False, chunksize=25)   # several appends per patch
    elif name == "overwrite":
        make(root / "cat", "new", overwrite=True, chunksize=25)
    elif name == "create_big":
        # more records per patch than any write buffer the library may use (100000 per patch, chunks of 40000: 20000 records of each patch arrive after the 80000th)
        data.make_catalog(root / "cat", big_frame(), centers(), overwrite=False, chunksize=40000)
    elif name == "meta":
        yaw.Catalog(root / "cat", max_workers=1)
    elif name.startswith("build:"):
        _, b, force = name.split(":")
        build(yaw.Catalog(root / "cat", max_workers=1), b, force == "force")
    elif name == "cf_tofile":
        cf = yaw.CorrFunc.from_file(Path(inputs) / "cf_new.hdf")
        cf.to_file(root / "cf.hdf")
    elif name == "cd_tofiles":
        cd = yaw.CorrData.from_files(Path(inputs) / "cd_new")
        cd.to_files(root / "res")
    else:
        raise ValueError(name)


if __name__ == "__main__":
    run_workload(sys.argv[1], Path(sys.argv[2]), Path(sys.argv[3]))


# ---------------------------------------------------------------------------
# a strip of many small patches: which patch pairs are linked depends on the
# largest angle of the configuration (physical scales: on the lowest redshift)
# ---------------------------------------------------------------------------
STRIP_NPATCH = 6
STRIP_CONFIGS = {
    "hi": dict(edges=[0.7, 0.85, 1.0]),     # 2 Mpc ~ 0.07 deg: only neighbouring patches are linked
    "lo": dict(edges=[0.1, 0.2, 0.3]),      # 2 Mpc ~ 0.2-0.3 deg: patches two and three apart are linked, too
}


def strip_frames():
    import pandas as pd

    out = {}
    for which, seed, n in (("data", 31, 14), ("rnd", 32, 20)):
        rng = np.random.default_rng(seed)
        pid = np.repeat(np.arange(STRIP_NPATCH), n)
        out[which] = pd.DataFrame(dict(ra=20.0 + 0.1 * pid + rng.uniform(-0.03, 0.03, len(pid)), dec=rng.uniform(-0.03, 0.03, len(pid)),
                                       w=rng.integers(1, 4, len(pid)).astype(float), z=rng.uniform(0.1, 1.0, len(pid)), pid=pid))
    return out


def strip_make(root):
    root = Path(root)
    centers = data.import_yaw().AngularCoordinates(np.deg2rad([[20.0 + 0.1 * k, 0.0] for k in range(STRIP_NPATCH)]))
    fr = strip_frames()
    for which in ("data", "rnd"):
        data.make_catalog(root / which, fr[which], centers)
    return root


def strip_measure(root, name):
    yaw = data.import_yaw()
    root = Path(root)
    cfg = yaw.Configuration.create(rmin=100.0, rmax=2000.0, unit="kpc", **STRIP_CONFIGS[name])
    cat = yaw.Catalog(root / "data", max_workers=1)
    rnd = yaw.Catalog(root / "rnd", max_workers=1)
    (cf,) = yaw.autocorrelate(cfg, cat, rnd, count_rr=True, max_workers=1)
    return _jsonable(data.corrfunc_fingerprint(cf))


def strip_fresh_process(src_root, names, scratch_dir) -> dict:
    """strip_measure(name) in a NEW interpreter on a fresh copy of the strip world, per name."""
    import shutil
    import subprocess
    from concurrent.futures import ThreadPoolExecutor

    verif = str(Path(__file__).resolve().parent.parent)

    def one(name):
        dst = Path(scratch_dir) / f"stripfresh_{name}"
        if dst.exists():
            shutil.rmtree(dst)
        for which in ("data", "rnd"):
            data.copy_cache(Path(src_root) / which, dst / which)
        code = ("import sys, json; sys.path.insert(0, %r); from harness import cachework as cw; "
                "print('REFJSON' + json.dumps(cw.strip_measure(%r, %r)))" % (verif, str(dst), name))
        r = subprocess.run([sys.executable, "-c", code], capture_output=True, text=True, timeout=600)
        for line in r.stdout.splitlines():
            if line.startswith("REFJSON"):
                return name, json.loads(line[7:])
        return name, ("error", (r.stderr or r.stdout)[-400:])

    with ThreadPoolExecutor(max_workers=4) as ex:
        return dict(ex.map(one, names))
