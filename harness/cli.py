from __future__ import annotations

import importlib
import sys

from . import core


def main() -> int:
    import warnings

    warnings.filterwarnings("ignore", category=RuntimeWarning)  # numpy 0/0 in estimators of tiny samples
    warnings.filterwarnings("ignore", category=UserWarning)
    if len(sys.argv) < 2:
        print("usage: ./check <property-id> [--tier quick|thorough] [--replay path]", file=sys.stderr)
        return 2
    prop = sys.argv[1]
    try:
        mod = importlib.import_module(f"checks.{prop.lower()}")
    except ModuleNotFoundError as exc:
        print(f"no check for {prop}: {exc}", file=sys.stderr)
        return 2
    return core.main(prop, mod.run, sys.argv[2:])


if __name__ == "__main__":
    sys.exit(main())
