"""A fake ``mpi4py`` on the deterministic runtime (one cooperative thread per
rank).  Semantics = spec/MPISem.tla:

* point-to-point: one FIFO per (communicator, source, destination); a receive
  (source, tag) matches the *first* message of that FIFO with a matching tag
  (non-overtaking per sender); ``ANY_SOURCE`` may match any sender that has a
  matching message - the scheduler chooses (wildcard nondeterminism);
* a standard-mode send completes either eagerly (buffered) or only when it has
  been matched (rendezvous) - the scheduler chooses per message when
  ``send_modes`` contains both;
* collectives are matched by a per-communicator call counter; a kind/root
  mismatch between ranks is an erroneous program and is reported; ``Barrier``,
  ``Split``, ``allgather`` synchronise; ``bcast``/``Bcast`` only order the root
  before the leaves, ``gather`` only the leaves before the root;
* deadlock is exact (scheduler has no enabled option).

Install with ``install()`` *before* ``import yaw`` so that the library selects
its MPI branch at import time.
"""

from __future__ import annotations

import pickle
import sys
import types

import numpy as np

from .detrt import Deadlock, Sched, _Abort

ANY_SOURCE = -1
ANY_TAG = -1
UNDEFINED = -32766


class CollectiveMismatch(Exception):
    pass


class Message:
    __slots__ = ("tag", "payload", "mode", "matched", "cls", "mid", "arg")

    def __init__(self, tag, payload, mode, cls, mid) -> None:
        self.tag = tag
        self.payload = payload
        self.mode = mode
        self.matched = False
        self.cls = cls
        self.mid = mid


def classify(obj) -> str:
    """Message class used in traces (binds message *kinds*, not just counts)."""
    if isinstance(obj, type):
        return obj.__name__  # EndOfQueue
    if isinstance(obj, tuple) and len(obj) == 2 and isinstance(obj[0], (int, np.integer)):
        return "Result"
    if isinstance(obj, dict):
        return "Patches"
    if isinstance(obj, np.ndarray):
        return "Split"
    return "Task"


class World:
    def __init__(self, size: int, sched: Sched, *, nodes=None, send_modes=("eager",)) -> None:
        self.size = size
        self.s = sched
        self.nodes = nodes or ["node0"] * size
        self.send_modes = tuple(send_modes)
        self.comms: dict = {}
        self.chan: dict = {}  # (cid, src, dst) -> [Message]
        self.coll: dict = {}  # (cid, k) -> slot
        self.ncoll: dict = {}  # (cid, world_rank) -> k
        self.world_comm = FakeComm(self, ("W",), list(range(size)))
        self.mid = 0
        self.errors: list = []
        self.argfn = None  # optional payload -> small int, logged as "arg"

    def arg(self, obj):
        if self.argfn is None:
            return 0
        try:
            return self.argfn(obj)
        except Exception:
            return -1

    def rank(self) -> int:
        return self.s.current().rank


class FakeComm:
    def __init__(self, world: World, cid: tuple, members: list[int]) -> None:
        self.w = world
        self.cid = cid
        self.members = members
        world.comms[cid] = self

    def __reduce__(self):
        # mpi4py (>= 4) pickles communicator handles; the library relies on it
        # when it broadcasts the bound method ``comm.bcast``
        return (_lookup_comm, (self.cid,))

    # -- info ---------------------------------------------------------------
    def Get_size(self) -> int:
        return len(self.members)

    def Get_rank(self) -> int:
        return self.members.index(self.w.rank())

    # -- point to point -------------------------------------------------------
    def send(self, obj, dest: int, tag: int = 0) -> None:
        w = self.w
        me = self.Get_rank()
        if not 0 <= dest < len(self.members):
            raise ValueError(f"invalid destination rank {dest}")
        mode = w.s.point(("send", self.cid, me, dest, tag), lambda: list(w.send_modes))
        w.mid += 1
        msg = Message(tag, pickle.dumps(obj), mode, classify(obj), w.mid)
        w.chan.setdefault((self.cid, me, dest), []).append(msg)
        msg.arg = w.arg(obj)
        w.s.emit(ev="send", comm=_cidstr(self.cid), src=me, dst=dest, tag=tag, cls=msg.cls, arg=msg.arg, mode=mode, wr=w.rank())
        if mode == "sync":
            w.s.point(("sendwait", self.cid, me, dest, tag), lambda: [None] if msg.matched else [])
            w.s.emit(ev="sendwait_done", wr=w.rank())

    def _matching_sources(self, me: int, source: int, tag: int) -> list[int]:
        out = []
        srcs = range(len(self.members)) if source == ANY_SOURCE else [source]
        for s in srcs:
            for m in self.w.chan.get((self.cid, s, me), []):
                if tag == ANY_TAG or m.tag == tag:
                    out.append(s)
                    break
        return out

    def recv(self, buf=None, source: int = ANY_SOURCE, tag: int = ANY_TAG, status=None):
        w = self.w
        me = self.Get_rank()
        src = w.s.point(("recv", self.cid, me, source, tag), lambda: self._matching_sources(me, source, tag))
        q = w.chan[(self.cid, src, me)]
        for i, m in enumerate(q):
            if tag == ANY_TAG or m.tag == tag:
                q.pop(i)
                m.matched = True
                w.s.emit(ev="recv", comm=_cidstr(self.cid), src=src, dst=me, tag=m.tag, cls=m.cls, arg=m.arg,
                         wild=(source == ANY_SOURCE), wr=w.rank())
                return pickle.loads(m.payload)
        raise AssertionError("scheduler chose a source without a matching message")

    # -- collectives ----------------------------------------------------------
    def _slot(self, kind: str, root):
        w = self.w
        key = (self.cid, w.rank())
        k = w.ncoll.get(key, 0)
        w.ncoll[key] = k + 1
        slot = w.coll.setdefault((self.cid, k), dict(kind=kind, root=root, arrived={}, data=None, k=k))
        if slot["kind"] != kind or slot["root"] != root:
            err = f"collective mismatch on comm {self.cid} call #{k}: {slot['kind']}(root={slot['root']}) vs {kind}(root={root}) on rank {w.rank()}"
            w.errors.append(err)
            raise CollectiveMismatch(err)
        return slot

    def _enter(self, kind, root, value=None):
        w = self.w
        me = self.Get_rank()
        w.s.point(("coll", kind, self.cid, me))
        slot = self._slot(kind, root)
        slot["arrived"][me] = value
        w.s.emit(ev="coll_enter", kind=kind, comm=_cidstr(self.cid), rank=me, root=root, k=slot["k"], wr=w.rank())
        return slot, me

    def _exit(self, slot, kind, me):
        self.w.s.emit(ev="coll_exit", kind=kind, comm=_cidstr(self.cid), rank=me, k=slot["k"], wr=self.w.rank())

    def _all_arrived(self, slot) -> bool:
        return len(slot["arrived"]) == len(self.members)

    def Barrier(self) -> None:
        slot, me = self._enter("Barrier", None)
        self.w.s.point(("collwait", "Barrier", self.cid, me), lambda: [None] if self._all_arrived(slot) else [])
        self._exit(slot, "Barrier", me)

    barrier = Barrier

    def bcast(self, obj=None, root: int = 0):
        slot, me = self._enter("bcast", root, pickle.dumps(obj) if self.Get_rank() == root else None)
        if me != root:
            self.w.s.point(("collwait", "bcast", self.cid, me), lambda: [None] if root in slot["arrived"] else [])
            obj = pickle.loads(slot["arrived"][root])
        self._exit(slot, "bcast", me)
        return obj

    def Bcast(self, buf, root: int = 0) -> None:
        if isinstance(buf, np.ndarray) and not (buf.flags.c_contiguous or buf.flags.f_contiguous):
            # same refusal as mpi4py's buffer protocol
            raise ValueError("ndarray is not contiguous")
        me0 = self.Get_rank()
        slot, me = self._enter("Bcast", root, np.array(buf, copy=True) if me0 == root else None)
        if me != root:
            self.w.s.point(("collwait", "Bcast", self.cid, me), lambda: [None] if root in slot["arrived"] else [])
            src = slot["arrived"][root]
            if src.shape != np.shape(buf) or src.dtype != buf.dtype:
                err = f"Bcast buffer mismatch: root {src.shape}/{src.dtype} vs {np.shape(buf)}/{buf.dtype}"
                self.w.errors.append(err)
                raise CollectiveMismatch(err)
            buf[...] = src
        self._exit(slot, "Bcast", me)

    def gather(self, obj, root: int = 0):
        slot, me = self._enter("gather", root, pickle.dumps(obj))
        out = None
        if me == root:
            self.w.s.point(("collwait", "gather", self.cid, me), lambda: [None] if self._all_arrived(slot) else [])
            out = [pickle.loads(slot["arrived"][r]) for r in range(len(self.members))]
        self._exit(slot, "gather", me)
        return out

    def allgather(self, obj):
        slot, me = self._enter("allgather", None, pickle.dumps(obj))
        self.w.s.point(("collwait", "allgather", self.cid, me), lambda: [None] if self._all_arrived(slot) else [])
        self._exit(slot, "allgather", me)
        return [pickle.loads(slot["arrived"][r]) for r in range(len(self.members))]

    def Split(self, color: int = 0, key: int = 0):
        slot, me = self._enter("Split", None, (color, key))
        self.w.s.point(("collwait", "Split", self.cid, me), lambda: [None] if self._all_arrived(slot) else [])
        self._exit(slot, "Split", me)
        if color == UNDEFINED:
            return COMM_NULL
        group = sorted(
            (r for r in range(len(self.members)) if slot["arrived"][r][0] == color),
            key=lambda r: (slot["arrived"][r][1], r),
        )
        return FakeComm(self.w, self.cid + (slot["k"], color), [self.members[r] for r in group])

    def Free(self) -> None:
        self.w.s.emit(ev="free", comm=_cidstr(self.cid), wr=self.w.rank())


class _CommNull:
    def Free(self):
        raise RuntimeError("MPI_ERR_COMM: Free on COMM_NULL")

    def __bool__(self):
        return False

    def __getattr__(self, name):
        raise RuntimeError(f"MPI_ERR_COMM: {name} on COMM_NULL")


COMM_NULL = _CommNull()


def _cidstr(cid) -> str:
    return "W" if cid == ("W",) else "S" + "_".join(str(c) for c in cid[1:])


# ---------------------------------------------------------------------------
# the module object the library imports
# ---------------------------------------------------------------------------

_current: dict = {"world": None}


def _lookup_comm(cid):
    w = _current["world"]
    if w is None:
        return COMM_WORLD
    return w.comms[cid]


def _world_proxy():
    return COMM_WORLD


class _WorldProxy:
    """MPI.COMM_WORLD: a stable object that delegates to the world that is
    currently being simulated (the library binds it at import time)."""

    def __reduce__(self):
        return (_world_proxy, ())

    def __getattr__(self, name):
        w = _current["world"]
        if w is None:
            if name == "Get_size":
                return lambda: 2  # makes `use_mpi()` true while the library is imported
            if name == "Get_rank":
                return lambda: 0
            if name in ("Barrier", "barrier"):
                return lambda: None
            if name == "bcast":
                return lambda obj=None, root=0: obj
            if name == "Bcast":
                return lambda buf, root=0: None
            raise RuntimeError(f"MPI call {name} outside a simulated world")
        return getattr(w.world_comm, name)


COMM_WORLD = _WorldProxy()


def Get_processor_name() -> str:
    w = _current["world"]
    if w is None:
        return "node0"
    return w.nodes[w.rank()]


def install() -> None:
    """Put the fake into sys.modules (idempotent)."""
    if "mpi4py" in sys.modules and getattr(sys.modules["mpi4py"], "__fake__", False):
        return
    pkg = types.ModuleType("mpi4py")
    pkg.__fake__ = True
    mpi = types.ModuleType("mpi4py.MPI")
    mpi.COMM_WORLD = COMM_WORLD
    mpi.COMM_NULL = COMM_NULL
    mpi.ANY_SOURCE = ANY_SOURCE
    mpi.ANY_TAG = ANY_TAG
    mpi.UNDEFINED = UNDEFINED
    mpi.Get_processor_name = Get_processor_name
    mpi.Comm = FakeComm
    pkg.MPI = mpi
    sys.modules["mpi4py"] = pkg
    sys.modules["mpi4py.MPI"] = mpi


def run_world(size: int, program, *, chooser=None, seed: int = 0, nodes=None, send_modes=("eager",), max_steps: int = 400000, argfn=None):
    """Run ``program(rank)`` on ``size`` ranks.  Returns a dict:
    outcome: 'ok' | 'deadlock' | 'error'; results[rank]; errors[rank];
    waiting (on deadlock); log; sched."""
    s = Sched(chooser=chooser, seed=seed, max_steps=max_steps)
    w = World(size, s, nodes=nodes, send_modes=send_modes)
    w.argfn = argfn
    prev = _current["world"]
    _current["world"] = w
    tasks = []
    try:
        for r in range(size):
            t = s.spawn(f"rank{r}", (lambda r=r: program(r)), kind="rank")
            t.rank = r
            tasks.append(t)
        out = dict(outcome="ok", waiting=None)
        try:
            s.run()
        except Deadlock as d:
            out["outcome"] = "deadlock"
            out["waiting"] = {k: list(v) if isinstance(v, tuple) else v for k, v in d.waiting.items()}
    finally:
        _current["world"] = prev
    out["results"] = [t.result for t in tasks]
    out["errors"] = [t.exc for t in tasks]
    if out["outcome"] == "ok" and any(e is not None for e in out["errors"]):
        out["outcome"] = "error"
    out["mpi_errors"] = list(w.errors)
    out["log"] = s.log
    out["sched"] = s
    out["leftover"] = {str(k): [m.cls for m in v] for k, v in w.chan.items() if v}
    return out
