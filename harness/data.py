"""Small deterministic catalogs for the drivers."""

from __future__ import annotations

import shutil
from pathlib import Path

import numpy as np


def import_yaw():
    from . import yawenv

    yawenv.setup_path()
    import logging

    import yaw  # noqa: F401

    logging.getLogger("yaw").setLevel(logging.CRITICAL)
    return yaw


def centers_grid(npatch: int, sep_deg: float = 4.0, ra0: float = 20.0, dec0: float = 10.0):
    """npatch centres on a line of constant dec, ``sep_deg`` apart."""
    yaw = import_yaw()
    ra = ra0 + sep_deg * np.arange(npatch)
    dec = np.full(npatch, dec0)
    return yaw.AngularCoordinates(np.deg2rad(np.column_stack([ra, dec])))


def frame(seed: int, n: int, npatch: int, *, sep_deg: float = 4.0, spread_deg: float = 1.5,
          zmin: float = 0.1, zmax: float = 1.0, weights: bool = True, redshifts: bool = True,
          ra0: float = 20.0, dec0: float = 10.0, int_weights: bool = False):
    """Points scattered around the centres of ``centers_grid``; every patch gets
    at least one point."""
    import pandas as pd

    rng = np.random.default_rng(seed)
    pid = np.concatenate([np.arange(npatch), rng.integers(0, npatch, size=max(0, n - npatch))])
    ra = ra0 + sep_deg * pid + rng.uniform(-spread_deg, spread_deg, size=len(pid))
    dec = dec0 + rng.uniform(-spread_deg, spread_deg, size=len(pid))
    cols = dict(ra=ra, dec=dec)
    if weights:
        cols["w"] = rng.integers(1, 4, size=len(pid)).astype(float) if int_weights else rng.uniform(0.5, 2.0, size=len(pid))
    if redshifts:
        cols["z"] = rng.uniform(zmin, zmax, size=len(pid))
    cols["pid"] = pid
    df = pd.DataFrame(cols)
    return df.sample(frac=1.0, random_state=seed).reset_index(drop=True)


def make_catalog(path, df, centers=None, *, patch_name=None, weights=True, redshifts=True, **kw):
    yaw = import_yaw()
    kwargs = dict(ra_name="ra", dec_name="dec", overwrite=True, max_workers=1)
    if weights and "w" in df:
        kwargs["weight_name"] = "w"
    if redshifts and "z" in df:
        kwargs["redshift_name"] = "z"
    if centers is not None:
        kwargs["patch_centers"] = centers
    if patch_name is not None:
        kwargs["patch_name"] = patch_name
    kwargs.update(kw)
    Path(path).parent.mkdir(parents=True, exist_ok=True)
    return yaw.Catalog.from_dataframe(path, df, **kwargs)


def copy_cache(src: Path, dst: Path, *, strip=("meta.yml", "binning", "trees.pkl")) -> Path:
    """Copy a catalog cache, dropping derived files (so that they are rebuilt)."""
    if dst.exists():
        shutil.rmtree(dst)
    shutil.copytree(src, dst)
    for name in strip:
        for f in dst.glob(f"patch_*/{name}"):
            f.unlink()
    return dst


def corrfunc_fingerprint(cf) -> dict:
    """Bit-exact, order-sensitive digest of a CorrFunc."""
    out = {}
    for kind in ("dd", "dr", "rd", "rr"):
        c = getattr(cf, kind)
        if c is None:
            out[kind] = None
            continue
        out[kind] = dict(
            counts=c.counts.counts.tobytes().hex(),
            sw1=c.sum_weights.sum_weights1.tobytes().hex(),
            sw2=c.sum_weights.sum_weights2.tobytes().hex(),
            auto=bool(c.auto),
        )
    return out
