"""Import the library under test from the current working tree of the repo.

``YAW_REPO`` (default /repo) selects the tree; its ``src`` directory is put in
front of sys.path so that scratch copies can be checked without reinstalling.
"""
from __future__ import annotations

import os
import shutil
import sys
import tempfile
from contextlib import contextmanager
from pathlib import Path

REPO = Path(os.environ.get("YAW_REPO", "/repo"))


def setup_path() -> None:
    src = str(REPO / "src")
    if src not in sys.path:
        sys.path.insert(0, src)
    ver = REPO / "src" / "yaw" / "_version.py"
    if not ver.exists():  # generated file, not tracked by git
        ver.write_text('__version__ = version = "0.0.verif"\n__version_tuple__ = version_tuple = (0, 0, "verif")\n')


@contextmanager
def scratch(prefix: str = "yawv_"):
    d = Path(tempfile.mkdtemp(prefix=prefix, dir=os.environ.get("VERIF_TMP")))
    try:
        yield d
    finally:
        shutil.rmtree(d, ignore_errors=True)
