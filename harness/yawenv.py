"""Import the library under test from the current working tree of the repo.

``YAW_REPO`` (default /repo) selects the tree; its ``src`` directory is put in
front of sys.path so that scratch copies can be checked without reinstalling.
"""
from __future__ import annotations

import os
import shutil
import sys
import tempfile
from contextlib import contextmanager
from pathlib import Path

REPO = Path(os.environ.get("YAW_REPO", "/repo"))


def setup_path() -> None:
    src = str(REPO / "src")
    if src not in sys.path:
        sys.path.insert(0, src)
    ver = REPO / "src" / "yaw" / "_version.py"
    if not ver.exists():  # generated file, not tracked by git
        ver.write_text('__version__ = version = "0.0.verif"\n__version_tuple__ = version_tuple = (0, 0, "verif")\n')


@contextmanager
def scratch(prefix: str = "yawv_"):
    d = Path(tempfile.mkdtemp(prefix=prefix, dir=os.environ.get("VERIF_TMP")))
    try:
        yield d
    finally:
        shutil.rmtree(d, ignore_errors=True)


class quiet_fds:
    """Silence file descriptors 1 and 2 for the duration (the library's progress display writes
    to the sys.stderr object it saw at import time, which redirect_stderr cannot reach)."""

    def __enter__(self):
        import os
        import sys

        sys.stdout.flush()
        sys.stderr.flush()
        self._saved = (os.dup(1), os.dup(2))
        self._null = os.open(os.devnull, os.O_WRONLY)
        os.dup2(self._null, 1)
        os.dup2(self._null, 2)
        return self

    def __exit__(self, *a):
        import os
        import sys

        sys.stdout.flush()
        sys.stderr.flush()
        os.dup2(self._saved[0], 1)
        os.dup2(self._saved[1], 2)
        for fd in (*self._saved, self._null):
            os.close(fd)
        return None
