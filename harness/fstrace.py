"""File-system tracing with strace: record every syscall a workload performs on
a directory tree, replay any prefix of them on a model of the tree (= the state a
process death at that point leaves behind; user-space buffers are lost, which is
exactly what the trace does not contain), and materialise it on disk.
"""

from __future__ import annotations

import json
import os
import re
import shutil
import subprocess
import sys
from pathlib import Path

TRACE = ("openat,open,creat,close,write,pwrite64,writev,lseek,ftruncate,truncate,dup,dup2,dup3,fcntl,"
         "mkdir,mkdirat,unlink,unlinkat,rmdir,rename,renameat,renameat2")


class TraceError(RuntimeError):
    pass


def _unhex(s: str) -> bytes:
    """strace -xx string body (between the quotes) -> bytes."""
    return bytes(int(h, 16) for h in re.findall(r"\\x([0-9a-f]{2})", s))


EXT = "@ext"      # namespace of files outside the traced root
_LINE = re.compile(r"^(\d+)\s+(.*)$")
_CALL = re.compile(r"^(\w+)\((.*)\)\s+=\s+(-?\d+|\?)(.*)$", re.S)
_STR = re.compile(r'"((?:\\x[0-9a-f]{2})*)"(\.\.\.)?')


def run_traced(cmd: list[str], logfile: Path, env=None, timeout=600) -> int:
    full = ["strace", "-f", "-o", str(logfile), "-xx", "-s", "50000000", "-e", f"trace={TRACE}"] + cmd
    p = subprocess.run(full, capture_output=True, text=True, env=env, timeout=timeout)
    if p.returncode not in (0, 1) and not logfile.exists():
        raise TraceError(f"strace failed: {p.stderr[-500:]}")
    return p.returncode, p.stdout, p.stderr


def parse(logfile: Path, root: Path) -> list[dict]:
    """Abstract, replayable operations on paths below ``root`` (relative paths)."""
    root = str(root)
    pending: dict[str, str] = {}
    fds: dict[int, dict] = {}
    ops: list[dict] = []
    nfd = 0

    allfds: dict[int, str] = {}  # every open fd -> absolute path (directory fds of rmtree etc.)
    cwd = os.getcwd()

    def resolve(args: str, path: bytes) -> bytes:
        """Absolute path for the *at() family: first argument is a dir fd."""
        ps = path.decode("utf-8", "surrogateescape")
        if ps.startswith("/"):
            return path
        first = args.split(",")[0].strip()
        if first.startswith("AT_FDCWD") or not first.lstrip("-").isdigit():
            basep = cwd
        else:
            basep = allfds.get(int(first), cwd)
        return os.path.join(basep, ps).encode("utf-8", "surrogateescape")

    def rel(path: bytes):
        p = os.path.normpath(path.decode("utf-8", "surrogateescape"))
        if p == root:
            return "."
        if p.startswith(root + "/"):
            return p[len(root) + 1 :]
        return None

    def ext(path: bytes):
        """Name of a file OUTSIDE the traced root that the workload writes (a temporary file that may be
        moved into the tree later): kept in the namespace '@ext', which is not part of the tree's snapshot."""
        return EXT + os.path.normpath(path.decode("utf-8", "surrogateescape"))

    for raw in open(logfile, errors="surrogateescape"):
        m = _LINE.match(raw.rstrip("\n"))
        if not m:
            continue
        pid, rest = m.group(1), m.group(2)
        if rest.endswith("<unfinished ...>"):
            pending[pid] = rest[: -len("<unfinished ...>")].rstrip()
            continue
        mm = re.match(r"^<\.\.\. (\w+) resumed>(.*)$", rest, re.S)
        if mm:
            rest = pending.pop(pid, "") + mm.group(2)
        if rest.startswith(("+++", "---")):
            continue
        c = _CALL.match(rest)
        if not c:
            continue
        name, args, ret = c.group(1), c.group(2), c.group(3)
        if ret == "?":
            continue
        ret = int(ret)
        strs = [_unhex(s.group(1)) for s in _STR.finditer(args)]
        if any(s.group(2) for s in _STR.finditer(args)):
            raise TraceError("strace truncated a string: raise -s")
        if name in ("openat", "open", "creat"):
            if ret < 0 or not strs:
                continue
            full = resolve(args, strs[0]) if name == "openat" else strs[0]
            allfds[ret] = os.path.normpath(full.decode("utf-8", "surrogateescape"))
            r = rel(full)
            fds.pop(ret, None)
            flags = args
            wr = "O_WRONLY" in flags or "O_RDWR" in flags or name == "creat"
            if r is None:
                sp = os.path.normpath(full.decode("utf-8", "surrogateescape"))
                if not (wr and ("O_CREAT" in flags or name == "creat") and sp.startswith(("/tmp/", "/var/tmp/", "/dev/shm/"))):
                    continue
                r = ext(full)
            if not wr:
                continue
            nfd += 1
            info = dict(id=nfd, path=r, append="O_APPEND" in flags, pos=0)
            fds[ret] = info
            ops.append(dict(op="open", path=r, fd=nfd, creat=("O_CREAT" in flags or name == "creat"),
                            trunc=("O_TRUNC" in flags or name == "creat"), append=info["append"], excl="O_EXCL" in flags))
        elif name == "close":
            fd = int(args.split(",")[0])
            allfds.pop(fd, None)
            info = fds.pop(fd, None)
            if info is not None and not any(v is info for v in fds.values()):
                ops.append(dict(op="close", fd=info["id"], path=info["path"]))
        elif name in ("dup", "dup2", "dup3", "fcntl"):
            parts = [a.strip() for a in args.split(",")]
            old = int(parts[0])
            if name == "fcntl" and not (len(parts) > 1 and parts[1].startswith("F_DUPFD")):
                continue
            if ret >= 0 and old in allfds:
                allfds[ret] = allfds[old]
            if ret >= 0 and old in fds:
                fds[ret] = fds[old]  # shared open file description (offset shared)
            elif ret >= 0:
                fds.pop(ret, None)
        elif name in ("write", "pwrite64", "writev"):
            fd = int(args.split(",")[0])
            info = fds.get(fd)
            if info is None or ret <= 0:
                continue
            if name == "writev":
                payload = b"".join(strs)[:ret]
            else:
                payload = strs[0][:ret] if strs else b""
            if len(payload) != ret:
                raise TraceError(f"payload length {len(payload)} != written {ret} for {info['path']}")
            if name == "pwrite64":
                off = int(args.rsplit(",", 1)[1])
                ops.append(dict(op="write", fd=info["id"], path=info["path"], off=off, data=payload.hex()))
            else:
                ops.append(dict(op="write", fd=info["id"], path=info["path"], off=(None if info["append"] else info["pos"]), data=payload.hex()))
                info["pos"] += ret
        elif name == "lseek":
            fd = int(args.split(",")[0])
            info = fds.get(fd)
            if info is not None and ret >= 0:
                info["pos"] = ret
        elif name == "ftruncate":
            fd = int(args.split(",")[0])
            info = fds.get(fd)
            if info is not None and ret == 0:
                ops.append(dict(op="truncate", fd=info["id"], path=info["path"], length=int(args.split(",")[1])))
        elif name in ("mkdir", "mkdirat"):
            if ret == 0 and strs and (r := rel(resolve(args, strs[0]) if name == "mkdirat" else strs[0])) is not None:
                ops.append(dict(op="mkdir", path=r))
        elif name == "rmdir":
            if ret == 0 and strs and (r := rel(strs[0])) is not None:
                ops.append(dict(op="rmdir", path=r))
        elif name in ("unlink", "unlinkat"):
            if ret == 0 and strs and (r := rel(resolve(args, strs[0]) if name == "unlinkat" else strs[0])) is not None:
                ops.append(dict(op="rmdir" if "AT_REMOVEDIR" in args else "unlink", path=r))
        elif name in ("rename", "renameat", "renameat2"):
            if ret == 0 and len(strs) >= 2:
                if name == "rename":
                    a, b = rel(strs[0]), rel(strs[1])
                else:
                    # renameat(olddirfd, old, newdirfd, new[, flags])
                    m2 = re.match(r'\s*([^,]+),\s*"[^"]*",\s*([^,]+),', args)
                    a = rel(resolve(m2.group(1) + ",", strs[0]))
                    b = rel(resolve(m2.group(2) + ",", strs[1]))
                if a is not None and b is not None:
                    ops.append(dict(op="rename", path=a, to=b))
                elif b is not None:
                    # a file written outside the root is moved into the tree (same file system: atomic)
                    src = strs[0] if name == "rename" else resolve(m2.group(1) + ",", strs[0])
                    ops.append(dict(op="rename", path=ext(src), to=b))
                elif a is not None:
                    raise TraceError("rename out of the traced root")
    return ops


# ---------------------------------------------------------------------------
# model of the tree
# ---------------------------------------------------------------------------


class Tree:
    """Directory tree with inode semantics (open files survive unlink/rename)."""

    def __init__(self) -> None:
        self.entries: dict[str, object] = {".": "dir"}  # path -> "dir" | inode id
        self.inodes: dict[int, bytearray] = {}
        self.open: dict[int, int] = {}  # fd id -> inode
        self.n = 0

    @classmethod
    def from_disk(cls, root: Path) -> "Tree":
        t = cls()
        root = Path(root)
        if not root.exists():
            t.entries = {}
            return t
        for f in sorted(root.rglob("*")):
            r = str(f.relative_to(root))
            if f.is_dir():
                t.entries[r] = "dir"
            else:
                t.n += 1
                t.inodes[t.n] = bytearray(f.read_bytes())
                t.entries[r] = t.n
        return t

    def apply(self, op: dict) -> None:
        k = op["op"]
        p = op.get("path")
        if k == "mkdir":
            self.entries[p] = "dir"
        elif k == "rmdir":
            self.entries.pop(p, None)
        elif k == "unlink":
            self.entries.pop(p, None)
        elif k == "rename":
            ent = self.entries.pop(p)
            if ent == "dir":
                for q in [q for q in self.entries if q.startswith(p + "/")]:
                    self.entries[op["to"] + q[len(p):]] = self.entries.pop(q)
            self.entries[op["to"]] = ent
        elif k == "open":
            ino = self.entries.get(p)
            if ino is None or ino == "dir":
                if not op["creat"]:
                    raise TraceError(f"open of missing file {p}")
                self.n += 1
                ino = self.n
                self.inodes[ino] = bytearray()
                self.entries[p] = ino
            elif op["trunc"]:
                self.inodes[ino] = bytearray()
            self.open[op["fd"]] = ino
        elif k == "write":
            ino = self.open[op["fd"]]
            buf = self.inodes[ino]
            data = bytes.fromhex(op["data"])
            off = len(buf) if op["off"] is None else op["off"]
            if off > len(buf):
                buf.extend(b"\x00" * (off - len(buf)))
            buf[off : off + len(data)] = data
        elif k == "truncate":
            ino = self.open[op["fd"]]
            buf = self.inodes[ino]
            n = op["length"]
            if n <= len(buf):
                del buf[n:]
            else:
                buf.extend(b"\x00" * (n - len(buf)))
        elif k == "close":
            self.open.pop(op["fd"], None)
        else:
            raise TraceError(f"unknown op {k}")

    def snapshot(self) -> dict:
        return {p: ("dir" if e == "dir" else bytes(self.inodes[e])) for p, e in self.entries.items() if p != "." and not p.startswith(EXT)}

    def materialise(self, dest: Path) -> None:
        dest = Path(dest)
        if dest.exists():
            shutil.rmtree(dest)
        if "." not in self.entries:
            return
        dest.mkdir(parents=True)
        for p in sorted(self.entries):
            if p == "." or p.startswith(EXT):
                continue
            e = self.entries[p]
            if e == "dir":
                (dest / p).mkdir(parents=True, exist_ok=True)
        for p, e in self.entries.items():
            if e != "dir" and p != "." and not p.startswith(EXT):
                (dest / p).parent.mkdir(parents=True, exist_ok=True)
                (dest / p).write_bytes(bytes(self.inodes[e]))


def disk_snapshot(root: Path) -> dict:
    root = Path(root)
    out = {}
    if not root.exists():
        return out
    for f in sorted(root.rglob("*")):
        out[str(f.relative_to(root))] = "dir" if f.is_dir() else f.read_bytes()
    return out


def prefix_tree(initial: Tree, ops: list[dict], k: int) -> Tree:
    import copy

    t = copy.deepcopy(initial)
    for op in ops[:k]:
        t.apply(op)
    return t


# ---------------------------------------------------------------------------
# abstract events for trace validation
# ---------------------------------------------------------------------------

_PATCH = re.compile(r"^(?:.*/)?patch_(\d+)(?:/(.*))?$")


def classify_path(p: str):
    """(class, patch) of a path relative to a catalog cache root."""
    if p == ".":
        return "root", -1
    base = p.split("/")[-1]
    m = _PATCH.match(p)
    if m:
        pid = int(m.group(1))
        sub = m.group(2)
        if sub is None:
            return "patchdir", pid
        return {"data.bin": "data", "meta.yml": "meta", "binning": "marker", "trees.pkl": "trees"}.get(sub, "other"), pid
    if base == "patch_ids.bin":
        return "ids", -1
    return "other", -1


def abstract_events(ops: list[dict]) -> list[dict]:
    out = []
    for op in ops:
        cls, pid = classify_path(op["path"])
        ev = dict(ev=op["op"], cls=cls, patch=pid)
        if op["op"] == "write":
            ev["n"] = len(op["data"]) // 2
        if op["op"] == "open":
            ev["trunc"] = bool(op["trunc"])
            ev["append"] = bool(op["append"])
        out.append(ev)
    return out
