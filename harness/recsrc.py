"""Recording data sources: observe which rows the library requests from a source
while a catalog is created (harness-side wrappers, no source hooks).

Every request is logged as (pass-independent) tuple:
    ("rows", start, stop)       consecutive row range (slice / row group / batch / generator call)
    ("whole", what)             something that touches the entire input at once
"""

from __future__ import annotations

from contextlib import contextmanager

import numpy as np


class Log:
    def __init__(self) -> None:
        self.events: list = []

    def rows(self, a, b, src="") -> None:
        self.events.append(("rows", int(a), int(b), src))

    def whole(self, what) -> None:
        self.events.append(("whole", str(what)))

    def mark(self, what) -> None:
        self.events.append(("mark", what))


# ---- data frame ------------------------------------------------------------


class RecFrame:
    """Data-frame-like object (len, slicing, column access) around a pandas
    DataFrame."""

    def __init__(self, df, log: Log) -> None:
        self._df = df
        self._log = log

    def __len__(self) -> int:
        return len(self._df)

    @property
    def columns(self):
        return self._df.columns

    def __getitem__(self, item):
        n = len(self._df)
        if isinstance(item, slice):
            start, stop, step = item.start, item.stop, item.step
            if step not in (None, 1) or start is None or stop is None:
                self._log.whole(f"frame[{item}]")
            else:
                self._log.rows(start, stop, "frame")
            return self._df[item]
        self._log.whole(f"frame[{item!r}]")
        return self._df[item]

    def __getattr__(self, name):
        # any other access (iloc, to_numpy, values ...) is an un-sliced access
        self._log.whole(f"frame.{name}")
        return getattr(self._df, name)


# ---- HDF5 --------------------------------------------------------------------


@contextmanager
def record_hdf(log: Log, path):
    import h5py

    orig = h5py.Dataset.__getitem__
    spath = str(path)

    def getitem(self, item):
        try:
            mine = self.file.filename == spath
        except Exception:
            mine = False
        if mine:
            if isinstance(item, slice) and item.step in (None, 1) and item.start is not None and item.stop is not None:
                log.rows(item.start, item.stop, self.name)
            else:
                log.whole(f"hdf{self.name}[{item}]")
        return orig(self, item)

    # whole-dataset conversions (np.asarray(ds), np.atleast_1d(ds), ds.read_direct(...)) bypass __getitem__
    orig_array = h5py.Dataset.__array__
    orig_direct = h5py.Dataset.read_direct

    def mine_(self):
        try:
            return self.file.filename == spath
        except Exception:
            return False

    def as_array(self, *a, **k):
        if mine_(self):
            log.whole(f"hdf{self.name}.__array__")
        return orig_array(self, *a, **k)

    def read_direct(self, dest, source_sel=None, dest_sel=None):
        if mine_(self) and not getattr(self, "_verif_inside_array", False):
            log.whole(f"hdf{self.name}.read_direct")
        return orig_direct(self, dest, source_sel, dest_sel)

    h5py.Dataset.__getitem__ = getitem
    h5py.Dataset.__array__ = as_array
    h5py.Dataset.read_direct = read_direct
    try:
        yield
    finally:
        h5py.Dataset.__getitem__ = orig
        h5py.Dataset.__array__ = orig_array
        h5py.Dataset.read_direct = orig_direct


# ---- FITS ----------------------------------------------------------------------


class _RecColumn:
    def __init__(self, arr, name, log):
        self._arr, self._name, self._log = arr, name, log

    def __len__(self):
        return len(self._arr)

    def __getitem__(self, item):
        if isinstance(item, slice) and item.step in (None, 1) and item.start is not None and item.stop is not None:
            self._log.rows(item.start, item.stop, self._name)
        else:
            self._log.whole(f"fits.{self._name}[{item}]")
        return self._arr[item]

    def __getattr__(self, name):
        self._log.whole(f"fits.{self._name}.{name}")
        return getattr(self._arr, name)

    def __array__(self, *a, **k):
        self._log.whole(f"fits.{self._name}.__array__")
        return np.asarray(self._arr)


class _RecTable:
    def __init__(self, data, log):
        self._data, self._log = data, log

    def __len__(self):
        return len(self._data)

    def __getitem__(self, item):
        if isinstance(item, str):
            return _RecColumn(self._data[item], item, self._log)
        if isinstance(item, slice) and item.step in (None, 1) and item.start is not None and item.stop is not None:
            self._log.rows(item.start, item.stop, "table")
            return self._data[item]
        self._log.whole(f"fits.table[{item}]")
        return self._data[item]

    def __getattr__(self, name):
        self._log.whole(f"fits.table.{name}")
        return getattr(self._data, name)


class _RecHDU:
    def __init__(self, hdu, log):
        self._hdu, self._log = hdu, log

    @property
    def data(self):
        return _RecTable(self._hdu.data, self._log)

    def __getattr__(self, name):
        return getattr(self._hdu, name)


class _RecHDUList:
    def __init__(self, hdul, log):
        self._hdul, self._log = hdul, log

    def __getitem__(self, i):
        return _RecHDU(self._hdul[i], self._log)

    def close(self):
        return self._hdul.close()

    def __getattr__(self, name):
        return getattr(self._hdul, name)


@contextmanager
def record_fits(log: Log):
    import yaw.catalog.readers as readers

    real = readers.fits

    class FitsModule:
        def __getattr__(self, name):
            return getattr(real, name)

        @staticmethod
        def open(*a, **k):
            return _RecHDUList(real.open(*a, **k), log)

    readers.fits = FitsModule()
    try:
        yield
    finally:
        readers.fits = real


# ---- Parquet -------------------------------------------------------------------


@contextmanager
def record_parquet(log: Log):
    import yaw.catalog.readers as readers

    real = readers.parquet

    class RecParquetFile:
        def __init__(self, *a, **k):
            self._f = real.ParquetFile(*a, **k)
            md = self._f.metadata
            self._starts = [0]
            for i in range(md.num_row_groups):
                self._starts.append(self._starts[-1] + md.row_group(i).num_rows)
            self._batch_pos = 0

        @property
        def metadata(self):
            return self._f.metadata

        @property
        def num_row_groups(self):
            return self._f.num_row_groups

        @property
        def schema(self):
            return self._f.schema

        @property
        def schema_arrow(self):
            return self._f.schema_arrow

        def read_row_group(self, i, columns=None, **k):
            tab = self._f.read_row_group(i, columns, **k)
            log.rows(self._starts[i], self._starts[i + 1], f"group{i}")
            return tab

        def read_row_groups(self, groups, columns=None, **k):
            for i in groups:
                log.rows(self._starts[i], self._starts[i + 1], f"group{i}")
            return self._f.read_row_groups(groups, columns, **k)

        def iter_batches(self, batch_size=65536, row_groups=None, columns=None, **k):
            pos = 0 if row_groups is None else self._starts[min(row_groups)]
            for b in self._f.iter_batches(batch_size=batch_size, row_groups=row_groups, columns=columns, **k):
                log.rows(pos, pos + len(b), "batch")
                pos += len(b)
                yield b

        def read(self, *a, **k):
            log.whole("parquet.read()")
            return self._f.read(*a, **k)

        def close(self, *a, **k):
            return self._f.close(*a, **k)

        def __getattr__(self, name):
            return getattr(self._f, name)

    class ParquetModule:
        ParquetFile = RecParquetFile

        def __getattr__(self, name):
            if name in ("read_table", "read_pandas"):
                def whole(*a, **k):
                    log.whole(f"parquet.{name}")
                    return getattr(real, name)(*a, **k)
                return whole
            return getattr(real, name)

    readers.parquet = ParquetModule()
    try:
        yield
    finally:
        readers.parquet = real


# ---- random generator -----------------------------------------------------------


class RecGenerator:
    """Proxy around a RandomsBase instance recording reseed() and __call__(n)."""

    def __init__(self, gen, log: Log) -> None:
        self._gen = gen
        self._log = log
        self._pos = 0

    def __call__(self, n):
        self._log.rows(self._pos, self._pos + int(n), "generator")
        self._pos += int(n)
        return self._gen(n)

    def reseed(self, *a, **k):
        self._log.mark("reseed")
        self._pos = 0
        return self._gen.reseed(*a, **k)

    def __getattr__(self, name):
        return getattr(self._gen, name)
