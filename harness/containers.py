"""Binding of spec/Containers.tla to the real container classes (C17, C04).

spec -> code: TLC enumerates histories of public operations together with the
exact abstract result of every step (``PrintStep``).  ``Replayer`` executes each
history on real objects (built once, through the public constructors, from the
integer arrays of the scenario; everything else is produced by the real
operations), and after every step compares

  * the outcome class (value / rejected / bool / list / open / alternatives),
  * the result projected back to the abstract form (type, auto flag, bin edges,
    closedness, members, count arrays, sums of weights, sampled values),
  * every OLDER object of the workspace (operations must not mutate operands; the
    one mutator, set_patch_pair, is executed on a deep copy of its operand - hidden
    state included - which replaces the operand below that step):
    the raw pair counts and sums of weights of every level - for a CorrFunc of
    every member - are compared with the integers of the model after EVERY step,
    also after the read accessor ``get_array()`` (GetArray), whose returned
    arrays are only read by the driver.

Verdicts follow DESIGN 2.3: only a disagreement of the *real* result with what
the property prescribes is a violation; exception types and unprescribed
behaviour are drift.
"""

from __future__ import annotations

import copy
import json
import math
import re
from fractions import Fraction

import numpy as np

from . import tlc
from .tlaval import to_tla

Z0, ZU = 0.5, 1.0  # integer edge e  ->  redshift Z0 + ZU * e (exact in binary: dz = integer edge difference)
NONE = 99

ALL_OPS = ["Add", "Sub", "AddVar", "SubVar", "IAdd", "IAddVar", "Accumulate", "SetPatchPair", "RAdd", "Mul", "Eq", "EqVar", "IsCompat", "IsCompatVar", "Bins", "Patches",
           "IterBins", "IterPatches", "PatchSum", "GetArray", "Sample", "RedshiftCF", "RedshiftCD", "RedshiftCDVar", "Normalise",
           "Construct"]
ACTION_OF_OP = {"RAdd": "SomeRAdd"}
LAWS_C17 = ["TypeOK", "EqReflexive", "EqSymmetric", "EqDetectsDifference", "AddAddsCounts", "MulScales",
            "MulRejectsNonScalars", "BinsCommuteWithSampling", "PatchSumIsSubArraySum", "SelectionCommutesWithAdd",
            "IterationIsIndexing", "DataAlgebra", "JackknifeShortcut", "GetArrayLaw", "AcceptIffValid"]
LAWS_C04 = ["TypeOK", "NormaliserLaw", "JackknifeShortcut", "EstimatorLaw", "IntegralIsOne", "RedshiftLaw",
            "AcceptIffValid", "MulScales", "BinsCommuteWithSampling", "GetArrayLaw"]
DEVIATIONS = ["MulCountAttr", "FancyPatchIndex", "AddPassesClosed", "AddDropsMembers", "SwNdimChain", "NumpyIndexOnCounts"]

CLASSNAME = dict(PC="PatchedCounts", SW="PatchedSumWeights", NC="NormalisedCounts", CF="CorrFunc", SD="SampledData",
                 CD="CorrData")
OPNAME = dict(Add="add", Sub="sub", AddVar="add", SubVar="sub", RAdd="radd", Mul="mul", Eq="eq", EqVar="eq",
              IsCompat="is_compatible", IsCompatVar="is_compatible", Bins="bins", Patches="patches",
              IterBins="iter_bins", IterPatches="iter_patches", PatchSum="sample_patch_sum", Sample="sample",
              RedshiftCF="from_corrfuncs", RedshiftCD="from_corrdata", RedshiftCDVar="from_corrdata",
              Normalise="normalised", Construct="init", GetArray="get_array", IAdd="iadd", IAddVar="iadd",
              Accumulate="accumulate", SetPatchPair="set_patch_pair")
LEVEL_ATTR = dict(PC="counts", SW="sum_weights")


def ga_path(var: str, k: str) -> tuple[str, str, str]:
    """History entry of GetArray: var = "<member>.<level>" -> (member, level, class of the route):
    self | counts | sum_weights | member | member.counts | member.sum_weights."""
    m, lv = var.split(".")
    holder = "NC" if k == "CF" else k      # level of the object the member name leads to
    route = [] if m == "x" else ["member"]
    if lv != holder:
        route.append(LEVEL_ATTR[lv])
    return m, lv, ".".join(route) or "self"


def scenario(level, nb, np_, *, auto=False, mem=(), seed=1, closed="right", zero=0) -> dict:
    """zero = b > 0: redshift bin b is empty (no pairs / weights; NaN value and samples for data levels)."""
    return dict(level=level, nb=nb, np=np_, auto=bool(auto), mem=frozenset(mem), seed=seed, closed=closed, zero=zero)


def scen_key(s: dict) -> tuple:
    return (s["level"], s["nb"], s["np"], bool(s["auto"]), tuple(sorted(s["mem"])), s["seed"], s["closed"], s.get("zero", 0))


# ---------------------------------------------------------------------------
# TLC
# ---------------------------------------------------------------------------


def mc_module(scens, ops, dev, stages=None) -> str:
    def rec(s):
        d = dict(s)
        d["mem"] = set(d["mem"])
        return to_tla(d)

    return ("---- MODULE Containers_MC ----\nEXTENDS Containers\n"
            "ScenDef == {" + ", ".join(rec(s) for s in scens) + "}\n"
            "OpsDef == " + to_tla(set(ops)) + "\nDevDef == " + to_tla(set(dev)) + "\n"
            "StagesDef == " + ("<<>>" if not stages else "<<" + ", ".join(to_tla(set(st)) for st in stages) + ">>") + "\n====\n")


def run_model(scens, ops, depth, *, invariants, focus=True, selset="full", dev=(), emit=False, coverage=False,
              workers="auto", timeout=3000, stages=None):
    """stages: optional sequence of operation sets, step n of every history is taken from stages[n-1]."""
    invs = list(invariants) + (["PrintStep"] if emit else [])
    cfg = tlc.make_cfg(
        constants=dict(Scenarios="<- ScenDef", Ops="<- OpsDef", MaxDepth=depth, Focus="TRUE" if focus else "FALSE",
                       SelSet=f'"{selset}"', Stages="<- StagesDef", Deviations="<- DevDef", Emit="TRUE" if emit else "FALSE"),
        invariants=invs, deadlock=True)
    return tlc.run("Containers_MC", cfg, extra_modules={"Containers_MC": mc_module(scens, ops, dev, stages)}, coverage=coverage,
                   workers=workers, timeout=timeout)


_SETFIELDS = ("mem", "rmem", "umem", "exc")


def parse_emitted(out: str):
    """Fast parser for the values printed by PrintStep: the TLC text format is
    rewritten into JSON (records -> objects, tuples and sets -> arrays).
    Returns (inits {scenkey: (scen, value)}, steps [(scenkey, hist, res)])."""
    start = re.search(r'^<<\s*"(?:init|step)",', out, re.M)
    if start is None:
        return {}, []
    t = out[start.start():]
    t = t.replace("{", "\x01").replace("}", "\x02")
    t = t.replace("[", "{").replace("]", "}")
    t = t.replace("<<", "[").replace(">>", "]")
    t = t.replace("\x01", "[").replace("\x02", "]")
    t = re.sub(r"(\w+) \|->", r'"\1":', t)
    t = t.replace("TRUE", "true").replace("FALSE", "false")
    dec = json.JSONDecoder()
    inits, steps = {}, []
    for m in re.finditer(r'^\[\s*"(init|step)",', t, re.M):
        val, _ = dec.raw_decode(t, m.start())
        if val[0] == "init":
            s = _scen_from(val[1])
            inits[scen_key(s)] = (s, val[2])
        else:
            s = _scen_from(val[1])
            steps.append((scen_key(s), val[2], val[3]))
    return inits, steps


def _scen_from(d: dict) -> dict:
    d = dict(d)
    d["mem"] = frozenset(d["mem"])
    d.setdefault("zero", 0)
    return d


# ---------------------------------------------------------------------------
# abstract value -> real object
# ---------------------------------------------------------------------------


def rat(r) -> float:
    n, d = r
    if d == 0:
        return math.nan
    return n / d


def frac(r):
    n, d = r
    return None if d == 0 else Fraction(n, d)


def zedges(edges):
    return [Z0 + ZU * e for e in edges]


class World:
    """The library under test plus builders from abstract values."""

    def __init__(self):
        from .data import import_yaw

        self.yaw = import_yaw()
        from yaw.binning import Binning
        from yaw.correlation.corrdata import CorrData, SampledData
        from yaw.correlation.corrfunc import CorrFunc
        from yaw.correlation.paircounts import NormalisedCounts, PatchedCounts, PatchedSumWeights
        from yaw.redshifts import HistData, RedshiftData

        self.Binning, self.CorrData, self.SampledData, self.CorrFunc = Binning, CorrData, SampledData, CorrFunc
        self.NormalisedCounts, self.PatchedCounts, self.PatchedSumWeights = NormalisedCounts, PatchedCounts, PatchedSumWeights
        self.HistData, self.RedshiftData = HistData, RedshiftData
        self.cls = dict(PC=PatchedCounts, SW=PatchedSumWeights, NC=NormalisedCounts, CF=CorrFunc, SD=SampledData, CD=CorrData)

    # -- builders -------------------------------------------------------
    def binning(self, v):
        return self.Binning(zedges(v["edges"]), closed=v["closed"])

    def _pc(self, v, part):
        nb, np_ = len(v["edges"]) - 1, len(part["cnt"][0]) if part["cnt"] else 0
        arr = np.array(part["cnt"], dtype=np.float64).reshape((nb, np_, np_)) / v["den"]
        return self.PatchedCounts(self.binning(v), arr, auto=v["auto"])

    def _sw(self, v, part):
        nb = len(v["edges"]) - 1
        sw1 = np.array(part["sw1"], dtype=np.float64).reshape((nb, -1))
        sw2 = np.array(part["sw2"], dtype=np.float64).reshape((nb, -1))
        return self.PatchedSumWeights(self.binning(v), sw1, sw2, auto=v["auto"])

    def build(self, v):
        k = v["k"]
        if k == "PC":
            return self._pc(v, v["parts"]["x"])
        if k == "SW":
            return self._sw(v, v["parts"]["x"])
        if k == "NC":
            return self.NormalisedCounts(self._pc(v, v["parts"]["x"]), self._sw(v, v["parts"]["x"]))
        if k == "CF":
            kw = {m: self.NormalisedCounts(self._pc(v, p), self._sw(v, p)) for m, p in v["parts"].items()}
            return self.CorrFunc(**kw)
        if k in ("SD", "CD"):
            nb = len(v["edges"]) - 1
            data = np.array([rat(r) for r in v["data"]], dtype=np.float64)
            samples = np.array([[rat(r) for r in row] for row in v["samples"]], dtype=np.float64).reshape((-1, nb))
            return self.cls[k](self.binning(v), data, samples)
        if k == "othertype":
            raise ValueError("foreign operand needs the partner's level")
        raise ValueError(f"cannot build {k}")

    def foreign(self, tag, partner):
        """A second operand that is not a container of the partner's class."""
        if tag == "int1":
            return 1
        if tag == "pynone":
            return None
        if tag == "othertype":
            b = self.Binning(zedges([0, 1]), closed="right")
            if isinstance(partner, self.PatchedSumWeights):
                return self.PatchedCounts(b, np.ones((1, 1, 1)), auto=False)
            return self.PatchedSumWeights(b, np.ones((1, 1)), np.ones((1, 1)), auto=False)
        raise ValueError(tag)

    def operand(self, v, partner):
        if v["k"] in ("int1", "pynone", "othertype"):
            return self.foreign(v["k"], partner)
        if v["k"] == "none":
            return None
        return self.build(v)

    def scalar(self, sc, a):
        cls, n, d = sc["cls"], sc["num"], sc["den"]
        if cls == "int":
            return int(n)
        if cls == "float":
            return float(n) / float(d)
        if cls == "npfloat":
            return np.float64(n) / np.float64(d)
        if cls == "npint":
            return np.int64(n)
        if cls == "bool":
            return True
        if cls == "none":
            return None
        if cls == "str":
            return "2"
        if cls == "self":
            return a
        raise ValueError(cls)

    # -- projection real -> comparable ---------------------------------
    def mismatches(self, obj, v, *, rtol=1e-9) -> list[str]:
        """Fields of the real object that differ from the abstract value v."""
        k = v["k"]
        cls = self.cls.get(k)
        if cls is None:
            return ["unknown_kind"]
        if type(obj) is not cls:
            # HistData / RedshiftData are CorrData for the model
            if not (k == "CD" and isinstance(obj, self.CorrData)):
                return ["type"]
        out = []
        try:
            b = obj.binning
            if list(np.asarray(b.edges, dtype=float)) != zedges(v["edges"]):
                if not np.allclose(np.asarray(b.edges, dtype=float), zedges(v["edges"]), rtol=0, atol=1e-12) \
                        or len(b.edges) != len(v["edges"]):
                    out.append("edges")
            if str(b.closed) != v["closed"]:
                out.append("closed")
            nb = len(v["edges"]) - 1
            if obj.num_bins != nb:
                out.append("num_bins")
            if k in ("SD", "CD"):
                exp = np.array([rat(r) for r in v["data"]])
                if not _same_values(np.asarray(obj.data), exp, rtol):
                    out.append("data")
                exps = np.array([[rat(r) for r in row] for row in v["samples"]]).reshape((-1, nb))
                if not _same_values(np.asarray(obj.samples), exps, rtol):
                    out.append("samples")
                return out
            if bool(obj.auto) != v["auto"]:
                out.append("auto")
            if k == "CF":
                real_parts = {m: getattr(obj, m) for m in ("dd", "dr", "rd", "rr") if getattr(obj, m) is not None}
                if set(real_parts) != set(v["parts"]):
                    out.append("members")
                    return out
            elif k == "NC":
                real_parts = {"x": obj}
            else:
                real_parts = {"x": obj}
            for m, p in v["parts"].items():
                ro = real_parts[m]
                if k in ("NC", "CF"):
                    if type(ro) is not self.NormalisedCounts:
                        out.append(f"type[{m}]")
                        continue
                    pc, sw = ro.counts, ro.sum_weights
                elif k == "PC":
                    pc, sw = ro, None
                else:
                    pc, sw = None, ro
                if pc is not None:
                    exp = np.array(p["cnt"], dtype=np.float64)
                    np_ = len(p["cnt"][0]) if p["cnt"] else 0
                    exp = exp.reshape((nb, np_, np_)) / v["den"]
                    got = np.asarray(pc.counts)
                    if got.shape != exp.shape or not np.allclose(got, exp, rtol=1e-12, atol=0):
                        out.append("counts" if m == "x" else f"counts[{m}]")
                    if pc.num_patches != np_:
                        out.append("num_patches")
                    if list(np.asarray(pc.binning.edges, dtype=float)) != list(np.asarray(b.edges, dtype=float)):
                        out.append("edges[counts]")
                    if bool(pc.auto) != v["auto"]:
                        out.append("auto[counts]")
                if sw is not None:
                    e1 = np.array(p["sw1"], dtype=np.float64).reshape((nb, -1))
                    e2 = np.array(p["sw2"], dtype=np.float64).reshape((nb, -1))
                    g1, g2 = np.asarray(sw.sum_weights1), np.asarray(sw.sum_weights2)
                    if g1.shape != e1.shape or g2.shape != e2.shape or not (np.array_equal(g1, e1) and np.array_equal(g2, e2)):
                        out.append("sum_weights" if m == "x" else f"sum_weights[{m}]")
                    if sw.num_patches != e1.shape[1]:
                        out.append("num_patches")
                    if list(np.asarray(sw.binning.edges, dtype=float)) != list(np.asarray(b.edges, dtype=float)):
                        out.append("edges[sum_weights]")
            if getattr(obj, "num_patches", None) is not None and v["parts"]:
                first = v["parts"].get("dd") or v["parts"].get("x")
                np_exp = len(first["cnt"][0]) if first["cnt"] else len(first["sw1"][0])
                if obj.num_patches != np_exp and "num_patches" not in out:
                    out.append("num_patches")
        except Exception as exc:  # projection itself failed: the object is not usable
            out.append(f"unusable:{type(exc).__name__}")
        return out


def _same_values(got, exp, rtol) -> bool:
    got = np.asarray(got, dtype=np.float64)
    if got.shape != exp.shape:
        return False
    undef = np.isnan(exp)
    if np.any(np.isfinite(got[undef])):
        return False  # handled as drift by the caller through undefined_finite()
    return bool(np.allclose(got[~undef], exp[~undef], rtol=rtol, atol=1e-12))


def has_undefined(v) -> bool:
    return any(r[1] == 0 for r in v.get("data", ())) or any(r[1] == 0 for row in v.get("samples", ()) for r in row)


# ---------------------------------------------------------------------------
# executing one history entry on the real workspace
# ---------------------------------------------------------------------------


def _iterate(indexer, fresh):
    """Iterate an Indexer completely; iteration carries no state in the model, so a loop over the
    same indexer object that follows an ABANDONED loop must yield the same items again."""
    full = list(indexer)
    ix = fresh()
    it = iter(ix)
    next(it, None)            # a loop that is left after the first item
    again = list(ix)          # a new loop over the same indexer object
    if len(again) != len(full):
        return again           # reported (and judged) as the result of the iteration
    return full


NP_INDEX_FLAVOURS = ("int64", "int32", "intp", "arange_element")


def np_index(lo: int, salt: int = 0):
    """A numpy integer scalar of value lo (sel.t = "npint"); the flavour rotates with the value and the position in
    the history, np.int64 being the most frequent one.  -> (index, flavour)"""
    flavour = ("int64",) + NP_INDEX_FLAVOURS
    name = flavour[(lo + salt) % len(flavour)]
    if name == "arange_element":
        return np.arange(lo, lo + 1)[0], name      # what iterating / indexing an index array hands out
    return getattr(np, name)(lo), name


def pysel(sel, salt: int = 0):
    if sel["t"] == "int":
        return int(sel["lo"])
    if sel["t"] == "npint":
        return np_index(int(sel["lo"]), salt)[0]
    conv = lambda x: None if x == NONE else int(x)  # noqa: E731
    return slice(conv(sel["lo"]), conv(sel["hi"]), conv(sel["st"]))


def sel_class(sel, n=None) -> str:
    if sel["t"] == "int":
        lo = sel["lo"]
        if n is not None and not (-n <= lo < n):
            return "int_out_of_range"
        return "negint" if lo < 0 else "int"
    if sel["t"] == "npint":      # a numpy integer scalar as index
        lo = sel["lo"]
        return "npint_out_of_range" if n is not None and not (-n <= lo < n) else "npint"
    if sel["st"] != NONE:
        return "stepslice"
    return "slice"


def arg_class(h, vws, res_out="") -> str:
    op = h["op"]
    if op in ("AddVar", "SubVar", "IAddVar") and h["var"] in ("copy", "counts", "samples"):
        return "compatible"
    if op == "Accumulate" and h["var"]:
        return "compatible" if h["var"] in ("copy", "counts") else h["var"]
    if op in ("AddVar", "SubVar", "IAddVar", "EqVar", "IsCompatVar", "RedshiftCDVar"):
        return h["var"]
    if op in ("Add", "Sub", "IAdd", "Accumulate"):
        return "compatible" if res_out in ("val", "alts") else "workspace"
    if op == "SetPatchPair":
        k = vws[h["i"] - 1]["k"]
        return dict(PC="direct", NC="counts", CF="member.counts")[k] + ("" if h["sel"]["st"] else ",zeros")
    if op == "Eq":
        return "same_object" if h["i"] == h["j"] else "workspace"
    if op == "IsCompat":
        return "workspace"
    if op == "RAdd":
        if h["var"]:
            return "sum_compatible" if h["var"] in ("copy", "counts") else f"sum_{h['var']}"
        return "sum" if h["j"] else f"left_{h['sel']['lo']}"
    if op == "Mul":
        sc = h["sc"]
        return "scalar" if sc["cls"] in ("int", "float", "npfloat", "npint") else sc["cls"]
    if op in ("Bins", "Patches"):
        v = vws[h["i"] - 1]
        n = (len(v["edges"]) - 1) if op == "Bins" else abstract_np(v)
        return sel_class(h["sel"], n)
    if op == "RedshiftCF":
        return f"ref={'yes' if h['rmem'] else 'no'},unk={'yes' if h['umem'] else 'no'}"
    if op == "RedshiftCD":
        return f"ref={'yes' if h['j'] else 'no'},unk={'yes' if h['sel']['lo'] else 'no'}"
    if op == "Sample":
        v = vws[h["i"] - 1]
        return "+".join(sorted(v["parts"]))
    if op == "PatchSum":
        v = vws[h["i"] - 1]
        return "auto" if v["auto"] else "cross"
    if op == "GetArray":
        return ga_path(h["var"], vws[h["i"] - 1]["k"])[2]
    if op in ("Normalise", "Construct"):
        return h["var"]
    return "all"


def abstract_np(v) -> int:
    if v["k"] in ("SD", "CD"):
        return len(v["samples"])
    p = v["parts"].get("dd") or v["parts"].get("x")
    return len(p["cnt"][0]) if p["cnt"] else len(p["sw1"][0])


def construct(world: World, v, cls_name: str):
    """Call the public constructor of v's class with a shape of class cls_name."""
    k = v["k"]
    nb = len(v["edges"]) - 1
    b = world.binning(v)
    if cls_name == "ok":
        return world.build(v)
    if k == "PC":
        np_ = abstract_np(v)
        arr = dict(ndim2=np.ones((nb, np_)), ndim4=np.ones((nb, np_, np_, 1)), nbins=np.ones((nb + 1, np_, np_)),
                   nonsquare=np.ones((nb, np_, np_ + 1)))[cls_name]
        return world.PatchedCounts(b, arr, auto=v["auto"])
    if k == "SW":
        np_ = abstract_np(v)
        a1, a2 = dict(ndim1=(np.ones(nb), np.ones(nb)), ndim3=(np.ones((nb, np_, 2)), np.ones((nb, np_, 2))),
                      ndimmixed=(np.ones(nb), np.ones((nb, np_))), shapes=(np.ones((nb, np_)), np.ones((nb, np_ + 1))),
                      nbins=(np.ones((nb + 1, np_)), np.ones((nb + 1, np_))))[cls_name]
        return world.PatchedSumWeights(b, a1, a2, auto=v["auto"])
    if k == "NC":
        np_ = abstract_np(v)
        pc = world.PatchedCounts(b, np.ones((nb, np_, np_)), auto=v["auto"])
        if cls_name == "npatch":
            sw = world.PatchedSumWeights(b, np.ones((nb, np_ + 1)), np.ones((nb, np_ + 1)), auto=v["auto"])
        else:
            b2 = world.Binning(zedges(list(v["edges"]) + [v["edges"][-1] + 1]), closed=v["closed"])
            sw = world.PatchedSumWeights(b2, np.ones((nb + 1, np_)), np.ones((nb + 1, np_)), auto=v["auto"])
        return world.NormalisedCounts(pc, sw)
    if k == "CF":
        np_ = abstract_np(v)

        def nc(bb, npp):
            n = len(bb.edges) - 1
            return world.NormalisedCounts(world.PatchedCounts(bb, np.ones((n, npp, npp)), auto=v["auto"]),
                                          world.PatchedSumWeights(bb, np.ones((n, npp)), np.ones((n, npp)), auto=v["auto"]))

        if cls_name == "nooptional":
            return world.CorrFunc(nc(b, np_))
        if cls_name == "npatch":
            return world.CorrFunc(nc(b, np_), dr=nc(b, np_ + 1))
        ed = list(v["edges"])
        ed[-1] += 1
        return world.CorrFunc(nc(b, np_), dr=nc(world.Binning(zedges(ed), closed=v["closed"]), np_))
    if k in ("SD", "CD"):
        ns = abstract_np(v)
        data, samples = dict(datashape=(np.ones(nb + 1), np.ones((ns, nb))), samplesndim=(np.ones(nb), np.ones(nb)),
                             samplesbins=(np.ones(nb), np.ones((ns, nb + 1))))[cls_name]
        return world.cls[k](b, data, samples)
    raise ValueError((k, cls_name))


def _operand(world, h, args, a):
    """The fresh second operand: a structurally equal copy is a deep copy of the
    real object (floats of sampled values cannot be rebuilt bit for bit)."""
    if h["var"] == "copy":
        return copy.deepcopy(a)
    return world.operand(args[0], a)


def get_array_target(world: World, a, var: str):
    """The object whose get_array() the history entry addresses: a itself / a member of a
    CorrFunc, or the counts / sum_weights container inside it."""
    m, lv = var.split(".")
    obj = a if m == "x" else getattr(a, m)
    if isinstance(obj, world.NormalisedCounts) and lv != "NC":
        obj = getattr(obj, LEVEL_ATTR[lv])
    if type(obj) is not world.cls[lv]:
        raise TypeError(f"{var}: reached a {type(obj).__name__}, not a {CLASSNAME[lv]}")
    return obj


def mut_target(world: World, obj, m: str):
    """The PatchedCounts that SetPatchPair edits: obj itself, obj.counts, obj.<member>.counts."""
    target = obj if m == "x" else getattr(obj, m)
    if isinstance(target, world.NormalisedCounts):
        target = target.counts
    return target


def pair_values(sel, nb: int):
    return np.array([0.0 if sel["st"] == 0 else float(sel["st"] + b) for b in range(1, nb + 1)])


def execute(world: World, h, res, rws, salt: int = 0):
    """-> ("val", obj) | ("rej", exc) | ("bool", x) | ("list", [...]) | ("arr", ndarray) | ("asym", (x == y, y == x)) | ("mut", updated copy of the operand) | ("selfmut", (result, changed fields of the object itself)) | ("other", x)."""
    op = h["op"]
    a = rws[h["i"] - 1]
    args = res.get("args", [])
    try:
        if op == "Add":
            r = a + rws[h["j"] - 1]
        elif op == "Sub":
            r = a - rws[h["j"] - 1]
        elif op in ("IAdd", "IAddVar"):
            x = a
            x += rws[h["j"] - 1] if op == "IAdd" else _operand(world, h, args, a)
            r = x
        elif op == "Accumulate":
            other = rws[h["j"] - 1] if h["j"] else _operand(world, h, args, a)
            t = 0
            t += a
            t += other
            r = t
        elif op == "SetPatchPair":
            # the mutator works on a deep copy (hidden state such as caches is copied with it): the
            # siblings of this step in the history tree still need the operand as it was
            # (what the edit does to OTHER workspace objects that may share memory with the operand is probed on the
            # live objects by Replayer._alias_probe before this step)
            obj = copy.deepcopy(a)
            target = mut_target(world, obj, h["var"])
            target.set_patch_pair(int(h["sel"]["lo"]) - 1, int(h["sel"]["hi"]) - 1, pair_values(h["sel"], target.num_bins))
            return ("mut", obj)
        elif op == "AddVar":
            other = _operand(world, h, args, a)
            r = (other + a) if h["req"] else (a + other)
        elif op == "SubVar":
            r = a - _operand(world, h, args, a)
        elif op == "RAdd":
            if h["var"]:
                r = sum([a, _operand(world, h, args, a)])
            else:
                r = sum([a, rws[h["j"] - 1]]) if h["j"] else (int(h["sel"]["lo"]) + a)
        elif op == "Mul":
            r = a * world.scalar(h["sc"], a)
        elif op in ("Eq", "EqVar"):
            other = rws[h["j"] - 1] if op == "Eq" else _operand(world, h, args, a)
            r = a == other
            if other is not a and isinstance(r, (bool, np.bool_)):
                back = other == a     # equality is structural: it cannot depend on the side
                if isinstance(back, (bool, np.bool_)) and bool(back) != bool(r):
                    return ("asym", (bool(r), bool(back)))
        elif op == "IsCompat":
            r = a.is_compatible(rws[h["j"] - 1], require=h["req"])
        elif op == "IsCompatVar":
            r = a.is_compatible(_operand(world, h, args, a), require=h["req"])
        elif op in ("Bins", "Patches"):
            indexer = (lambda: a.bins) if op == "Bins" else (lambda: a.patches)
            r = indexer()[pysel(h["sel"], salt)]
            if h["sel"]["t"] == "npint":
                # the type of an index does not matter: the same selection with the Python int
                try:
                    ref = indexer()[int(h["sel"]["lo"])]
                except Exception:
                    ref = None
                if ref is not None:
                    try:
                        eq = r == ref
                        same = isinstance(eq, (bool, np.bool_)) and bool(eq)
                    except Exception:
                        same = False
                    if not same:
                        return ("intdiff", r)
        elif op == "IterBins":
            r = _iterate(a.bins, lambda: a.bins)
        elif op == "IterPatches":
            r = _iterate(a.patches, lambda: a.patches)
        elif op == "PatchSum":
            r = a.sample_patch_sum()
        elif op == "GetArray":
            r = get_array_target(world, a, h["var"]).get_array()   # the array is only read, never written
            return ("arr", r)
        elif op == "Sample":
            r = a.sample()
        elif op == "RedshiftCF":
            ref = None if args[0]["k"] == "none" else world.build(args[0])
            unk = None if args[1]["k"] == "none" else world.build(args[1])
            r = world.RedshiftData.from_corrfuncs(a, ref, unk)
        elif op == "RedshiftCD":
            ref = rws[h["j"] - 1] if h["j"] else None
            unk = rws[h["sel"]["lo"] - 1] if h["sel"]["lo"] else None
            r = world.RedshiftData.from_corrdata(a, ref, unk)
        elif op == "RedshiftCDVar":
            r = world.RedshiftData.from_corrdata(a, world.build(args[0]), None)
        elif op == "Normalise":
            # HistData / RedshiftData wrap the arrays of the operand (np.asarray in the constructor: no copy), as
            # a user's conversion would: normalised() must return a NEW container and leave its own data alone
            cls = world.RedshiftData if h["var"] == "nz" else world.HistData
            typed = cls(a.binning, a.data, a.samples)
            before = (np.array(typed.data, dtype=float), np.array(typed.samples, dtype=float),
                      np.array(typed.binning.edges, dtype=float), str(typed.binning.closed))
            r = typed.normalised()
            after = (np.asarray(typed.data, dtype=float), np.asarray(typed.samples, dtype=float),
                     np.asarray(typed.binning.edges, dtype=float), str(typed.binning.closed))
            changed = [name for name, x, y in zip(("data", "samples", "edges"), before, after)
                       if x.shape != y.shape or not np.array_equal(x, y, equal_nan=True)] + (["closed"] if before[3] != after[3] else [])
            if changed:
                return ("selfmut", (r, changed))
        elif op == "Construct":
            return ("construct", None)
        else:
            raise tlc.TLCMachineryError(f"unknown op {op}")
    except tlc.TLCMachineryError:
        raise
    except Exception as exc:  # the library rejected the operation
        return ("rej", exc)
    if isinstance(r, (bool, np.bool_)):
        return ("bool", bool(r))
    if isinstance(r, list):
        return ("list", r)
    if r is NotImplemented:
        return ("other", r)
    return ("val", r)


# ---------------------------------------------------------------------------
# the judge
# ---------------------------------------------------------------------------


def nz_expected(items):
    """n(z) from the ingredient triple (cross, ref, unk) of CD values: value and
    samples; NaN where the formula is undefined (absent/zero/negative radicand)."""
    cross, ref, unk = items[:3]
    dz = np.diff(np.array(zedges(cross["edges"])))

    def one(wsp, wss, wpp, b):
        f = [frac(wsp[b]), frac(wss[b]), frac(wpp[b])]
        if any(x is None for x in f):
            return math.nan
        rad = f[1] * f[2]
        if rad <= 0:
            return math.nan
        return float(f[0]) / (dz[b] * math.sqrt(float(rad)))

    nb = len(cross["data"])
    data = np.array([one(cross["data"], ref["data"], unk["data"], b) for b in range(nb)])
    samples = np.array([[one(cross["samples"][k], ref["samples"][k], unk["samples"][k], b) for b in range(nb)]
                        for k in range(len(cross["samples"]))]).reshape((-1, nb))
    return data, samples


def nz_undefined(items):
    """Where n(z) is undefined, and how: -> (strict_data, strict_samples, denom_data, denom_samples) boolean arrays.
    strict: w_sp itself is undefined, or the radicand is <= 0: the real value must be nan or +-inf.
    denom : w_sp is a number and only an autocorrelation is undefined; the model does not tell x/0 (= inf, which
            sends n(z) to exactly 0) from 0/0 (= nan): the real value must be non-finite or exactly 0."""
    cross, ref, unk = items[:3]
    nb = len(cross["data"])

    def kind(wsp, wss, wpp, b):
        f = [frac(wsp[b]), frac(wss[b]), frac(wpp[b])]
        if f[0] is None:
            return 2
        if f[1] is None or f[2] is None:
            return 1
        return 2 if f[1] * f[2] <= 0 else 0

    kd = np.array([kind(cross["data"], ref["data"], unk["data"], b) for b in range(nb)])
    ks = np.array([[kind(cross["samples"][k], ref["samples"][k], unk["samples"][k], b) for b in range(nb)]
                   for k in range(len(cross["samples"]))]).reshape((-1, nb))
    return kd == 2, ks == 2, kd == 1, ks == 1


def nz_finite_where_undefined(val, items) -> bool:
    sd, ss, dd, ds = nz_undefined(items)
    for got, strict, denom in ((val.data, sd, dd), (val.samples, ss, ds)):
        got = np.asarray(got, dtype=np.float64)
        if got.shape != strict.shape:
            return False     # reported as a wrong shape elsewhere
        if np.any(np.isfinite(got[strict])) or np.any(np.isfinite(got[denom]) & (got[denom] != 0.0)):
            return True
    return False


class Judge:
    """Compares real outcomes with the expectations of the model and turns
    disagreements into violations / drift of property ``prop``."""

    def __init__(self, ctx, world: World, prop: str, *, sampling_is_foreign=False, collect=None, own_ops=None):
        self.ctx, self.world, self.prop = ctx, world, prop
        self.own_ops = own_ops  # operations whose failures belong to this property (None: all)
        self.sampling_is_foreign = sampling_is_foreign  # C17: estimator values belong to C04
        self.collect = collect  # list: binding demonstration mode (nothing reported)
        self.steps = 0
        self._exp = ""
        self.by_outcome: dict = {}

    # reporting -------------------------------------------------------
    def _key(self, h, vws, outcome):
        v = vws[h["i"] - 1]
        cls = CLASSNAME.get(v["k"], v["k"])
        if h["op"] in ("RedshiftCF", "RedshiftCD", "RedshiftCDVar"):
            cls = "RedshiftData"
        elif h["op"] == "Normalise":
            cls = "RedshiftData" if h["var"] == "nz" else "HistData"
        elif h["op"] == "GetArray":
            cls = CLASSNAME[ga_path(h["var"], v["k"])[1]]   # the class whose accessor is called
        elif h["op"] == "SetPatchPair":
            cls = "PatchedCounts"
        if outcome.startswith("finite_where"):
            return f"{self.prop}|{cls}.{OPNAME[h['op']]}|undefined_bin|{outcome}"
        arg = "any" if outcome.startswith("mutates") else arg_class(h, vws, self._exp)
        return f"{self.prop}|{cls}.{OPNAME[h['op']]}|{arg}|{outcome}"

    def violation(self, h, vws, outcome, detail):
        if self.own_ops is not None and h["op"] not in self.own_ops:
            # an operation that only generates inputs here; its failures are another property's business
            return self.drift(h, vws, outcome + "(input_generating_operation_see_C17)", detail)
        key = self._key(h, vws, outcome)
        if self.collect is not None:
            self.collect.append(("violation", key))
            return
        self.ctx.violation(key, detail)

    def drift(self, h, vws, outcome, detail):
        key = self._key(h, vws, outcome)
        if self.collect is not None:
            self.collect.append(("drift", key))
            return
        self.ctx.drift(key, detail)

    # -----------------------------------------------------------------
    def detail(self, scen, hist, res, extra):
        d = dict(scenario={k: (sorted(v) if isinstance(v, (set, frozenset)) else v) for k, v in scen.items()},
                 history=[_short_entry(h) for h in hist], expected=_short_res(res), hist_full=hist)
        if hist and hist[-1]["sel"]["t"] == "npint":
            d["numpy_index_type"] = np_index(int(hist[-1]["sel"]["lo"]), len(hist))[1]
        d.update(extra)
        return d

    def judge(self, scen, hist, res, vws, outcome, *, base_sampling_ok=True) -> object | None:
        """Returns the real object to append to the workspace (or None)."""
        h = hist[-1]
        kind, val = outcome
        exp = res["out"]
        self.steps += 1
        self._exp = exp
        self.by_outcome[exp] = self.by_outcome.get(exp, 0) + 1
        w = self.world
        det = lambda **kw: self.detail(scen, hist, res, kw)  # noqa: E731
        sampled = h["op"] in ("PatchSum", "Sample")

        def check_value(obj, v, what="result"):
            mm = w.mismatches(obj, v)
            if not mm:
                return True
            if sampled and self.sampling_is_foreign and not base_sampling_ok and set(mm) <= {"data", "samples"}:
                self.drift(h, vws, "sampled_values_differ_from_model_see_C04", det(fields=mm))
                return True
            if v["k"] in ("SD", "CD") and set(mm) <= {"data", "samples"} and has_undefined(v) and \
                    _only_undefined_differs(obj, v):
                # the formula of the property is 0/0 or x/0 there: nan or +-inf (not told apart), never a number
                self.violation(h, vws, "finite_where_formula_is_undefined",
                               det(fields=mm, real_data=[float(x) for x in np.asarray(obj.data, dtype=float)],
                                   real_samples=np.asarray(obj.samples, dtype=float).tolist()))
                return False
            if h["op"] in ("Bins",) and h["sel"]["t"] == "slice" and h["sel"]["st"] != NONE and mm == ["edges"]:
                self.drift(h, vws, "edges_of_non_contiguous_selection", det(fields=mm))
                return True
            if h["op"] == "Normalise" and set(mm) <= {"data", "samples"}:
                # the property only fixes the integral
                integral = float(np.nansum(np.diff(obj.binning.edges) * obj.data))
                if abs(integral - 1.0) <= 1e-9:
                    self.drift(h, vws, "normalised_values_differ_from_model", det(fields=mm, integral=integral))
                    return True
                self.violation(h, vws, "integral_not_1", det(fields=mm, integral=integral))
                return False
            self.violation(h, vws, "wrong_" + _first(mm), det(fields=mm, what=what))
            return False

        if kind == "construct":
            return self._judge_construct(scen, hist, res, vws, det)
        if kind == "other":
            self.violation(h, vws, "returns_NotImplemented", det(real=repr(val)))
            return None
        if kind == "selfmut":
            # a non-mutating method changed the object it was called on
            self.violation(h, vws, "mutates_operand", det(fields=val[1], real=_describe(val[0])))
            return None
        if kind == "intdiff":
            # x.bins[np.int64(i)] (or .patches) is not equal to x.bins[int(i)]
            mm = w.mismatches(val, res["v"]) if exp == "val" else []
            self.violation(h, vws, "wrong_" + _first(mm) if mm else "differs_from_python_int_index",
                           det(fields=mm, real=_describe(val), index=np_index(int(h["sel"]["lo"]), len(hist))[1]))
            return None
        if kind == "asym":
            if exp == "open":
                self.drift(h, vws, "asymmetric_in_unprescribed_case", det(x_eq_y=val[0], y_eq_x=val[1]))
            else:
                self.violation(h, vws, "asymmetric", det(x_eq_y=val[0], y_eq_x=val[1]))
            return None
        if exp == "mut":
            if kind == "rej":
                self.violation(h, vws, f"raises_{type(val).__name__}", det(error=repr(val)))
                return None
            if kind != "mut":
                self.violation(h, vws, f"returns_{kind}", det(real=_describe(val)))
                return None
            return val if check_value(val, res["v"], what="updated operand") else None
        if exp == "arr":
            if kind == "rej":
                self.violation(h, vws, f"raises_{type(val).__name__}", det(error=repr(val)))
                return None
            if kind != "arr" or not isinstance(val, np.ndarray):
                self.violation(h, vws, "returns_wrong_type", det(real=_describe(val)))
                return None
            expa = np.array([[[rat(r) for r in row] for row in mat] for mat in res["items"]], dtype=np.float64)
            try:
                got = np.asarray(val, dtype=np.float64)
            except Exception as exc:
                self.violation(h, vws, "returns_wrong_type", det(real=_describe(val), error=repr(exc)))
                return None
            if got.shape != expa.shape:
                self.violation(h, vws, "wrong_shape", det(real=list(got.shape), expected_shape=list(expa.shape)))
                return None
            undef = np.isnan(expa)
            if not np.allclose(got[~undef], expa[~undef], rtol=rtol_arr(h), atol=1e-12):
                level = ga_path(h["var"], vws[h["i"] - 1]["k"])[1]
                d = det(real=got.tolist(), model=[[[None if r[1] == 0 else f"{r[0]}/{r[1]}" for r in row] for row in mat]
                                                 for mat in res["items"]])
                if self.sampling_is_foreign and not base_sampling_ok and level in ("NC", "SW"):
                    self.drift(h, vws, "normalised_array_differs_from_model_see_C04", d)
                else:
                    self.violation(h, vws, "wrong_array", d)
            elif np.any(np.isfinite(got[undef])):
                if self.sampling_is_foreign and not base_sampling_ok:
                    self.drift(h, vws, "normalised_array_differs_from_model_see_C04", det(real=got.tolist()))
                else:
                    self.violation(h, vws, "finite_where_formula_is_undefined", det(real=got.tolist()))
            return None

        if exp in ("val", "alts"):
            if kind == "rej":
                self.violation(h, vws, f"raises_{type(val).__name__}", det(error=repr(val)))
                return None
            if kind != "val":
                self.violation(h, vws, f"returns_{kind}", det(real=repr(val)[:200]))
                return None
            if exp == "val":
                ok = check_value(val, res["v"])
                if ok and h["op"] == "Normalise":
                    integral = float(np.nansum(np.diff(val.binning.edges) * val.data))
                    if not abs(integral - 1.0) <= 1e-9:
                        self.violation(h, vws, "integral_not_1", det(integral=integral))
                return val if ok else None
            for alt in res["items"]:
                if not w.mismatches(val, alt):
                    return val if alt is res["items"][0] else None
            check_value(val, res["items"][0])
            return None
        if exp == "rej":
            if kind == "rej":
                if res["exc"] and type(val).__name__ not in res["exc"] and \
                        not any(t.__name__ in res["exc"] for t in type(val).__mro__):
                    self.drift(h, vws, f"rejects_with_{type(val).__name__}", det(error=repr(val), documented=sorted(res["exc"])))
                return None
            self.violation(h, vws, "accepted", det(real=_describe(val)))
            return None
        if exp == "bool":
            if kind == "rej":
                self.violation(h, vws, f"raises_{type(val).__name__}", det(error=repr(val)))
            elif kind != "bool":
                self.violation(h, vws, f"returns_{kind}", det(real=_describe(val)))
            elif val != res["b"]:
                self.violation(h, vws, f"wrong_result_{val}", det(real=val))
            return None
        if exp == "list":
            if kind == "rej":
                self.violation(h, vws, f"raises_{type(val).__name__}", det(error=repr(val)))
                return None
            if kind != "list":
                self.violation(h, vws, f"returns_{kind}", det(real=_describe(val)))
                return None
            if len(val) != len(res["items"]):
                self.violation(h, vws, "wrong_number_of_items", det(real=len(val), expected_len=len(res["items"])))
                return None
            for pos, (obj, v) in enumerate(zip(val, res["items"])):
                if not check_value(obj, v, what=f"item {pos}"):
                    break
            return None
        if exp == "open":
            if kind == "val" and res["v"]["k"] != "none":
                mm = w.mismatches(val, res["v"])
                if mm:
                    self.drift(h, vws, "unprescribed_case_value_differs_from_model", det(fields=mm))
            return None
        if exp == "nz":
            if kind == "rej":
                self.violation(h, vws, f"raises_{type(val).__name__}", det(error=repr(val)))
                return None
            if kind != "val" or not isinstance(val, w.RedshiftData):
                self.violation(h, vws, "returns_wrong_type", det(real=_describe(val)))
                return None
            triples = [res["items"][:3]] + ([[res["items"][3], res["items"][1], res["items"][2]]] if len(res["items"]) > 3 else [])
            first_bad = None
            for triple in triples:
                data, samples = nz_expected(triple)
                bad = []
                if list(np.asarray(val.binning.edges, dtype=float)) != zedges(triple[0]["edges"]):
                    bad.append("edges")
                if not _nz_same(np.asarray(val.data), data):
                    bad.append("data")
                if not _nz_same(np.asarray(val.samples), samples):
                    bad.append("samples")
                if not bad and nz_finite_where_undefined(val, triple):
                    bad.append("finite_where_formula_is_undefined")
                if not bad:
                    break
                first_bad = first_bad or bad
            bad = bad and first_bad
            if bad:
                self.violation(h, vws, bad[0] if bad[0].startswith("finite_where") else "wrong_" + bad[0],
                               det(fields=bad, real_data=[float(x) for x in np.asarray(val.data)], model_data=[float(x) for x in data],
                                   real_samples=np.asarray(val.samples, dtype=float).tolist()))
                return None
            # normalising the estimate: integral over the binning = 1
            tot = float(np.nansum(np.diff(val.binning.edges) * val.data))
            if np.isfinite(tot) and abs(tot) > 1e-9:
                try:
                    n = val.normalised()
                    integral = float(np.nansum(np.diff(n.binning.edges) * n.data))
                    if not abs(integral - 1.0) <= 1e-9:
                        self.violation(h, vws, "normalised_integral_not_1", det(integral=integral))
                except Exception as exc:
                    self.violation(h, vws, f"normalised_raises_{type(exc).__name__}", det(error=repr(exc)))
            return None
        raise tlc.TLCMachineryError(f"unknown expected outcome {exp}")

    def _judge_construct(self, scen, hist, res, vws, det):
        h = hist[-1]
        v = vws[0]
        try:
            obj = construct(self.world, v, h["var"])
            real = ("val", obj)
        except Exception as exc:
            real = ("rej", exc)
        exp = res["out"]
        if exp == "val":
            if real[0] == "rej":
                self.violation(h, vws, f"raises_{type(real[1]).__name__}", det(error=repr(real[1])))
                return None
            mm = self.world.mismatches(real[1], res["v"])
            if mm:
                self.violation(h, vws, "wrong_" + _first(mm), det(fields=mm))
                return None
            return real[1]
        if exp == "rej" and real[0] != "rej":
            self.violation(h, vws, "accepted", det(real=_describe(real[1])))
        elif exp == "rej" and res["exc"] and type(real[1]).__name__ not in res["exc"]:
            self.drift(h, vws, f"rejects_with_{type(real[1]).__name__}", det(error=repr(real[1])))
        return None


def rtol_arr(h) -> float:
    """Pair counts and weight products are handed out as stored (exact); normalised counts are one division."""
    return 1e-12 if h["var"].endswith((".PC", ".SW")) else 1e-9


def _strip(m: str) -> str:
    return m.split("[")[0].split(":")[0]


_FIELD_ORDER = ["type", "unusable", "members", "auto", "closed", "edges", "num_bins", "num_patches", "counts", "sum_weights",
                "data", "samples"]


def _first(mm) -> str:
    """The most significant differing field: one defect -> one outcome class."""
    names = {_strip(m) for m in mm}
    for f in _FIELD_ORDER:
        if f in names:
            return f
    return sorted(names)[0]


def _nz_same(got, exp) -> bool:
    got = np.asarray(got, dtype=np.float64)
    if got.shape != exp.shape:
        return False
    undef = np.isnan(exp)
    return bool(np.allclose(got[~undef], exp[~undef], rtol=1e-9, atol=1e-12))


def _only_undefined_differs(obj, v) -> bool:
    nb = len(v["edges"]) - 1
    exp = np.array([rat(r) for r in v["data"]])
    exps = np.array([[rat(r) for r in row] for row in v["samples"]]).reshape((-1, nb))
    try:
        d, s = np.asarray(obj.data, dtype=float), np.asarray(obj.samples, dtype=float)
        if d.shape != exp.shape or s.shape != exps.shape:
            return False
        return bool(np.allclose(d[~np.isnan(exp)], exp[~np.isnan(exp)], rtol=1e-9, atol=1e-12)
                    and np.allclose(s[~np.isnan(exps)], exps[~np.isnan(exps)], rtol=1e-9, atol=1e-12))
    except Exception:
        return False


def _describe(obj) -> str:
    try:
        return repr(obj)[:200]
    except Exception:
        return f"<{type(obj).__name__}>"


def _short_entry(h) -> dict:
    out = dict(op=h["op"], i=h["i"])
    if h["j"]:
        out["j"] = h["j"]
    if h["var"]:
        out["var"] = h["var"]
    if h["sel"]["t"] == "pair":
        out["patch_pair"] = [h["sel"]["lo"] - 1, h["sel"]["hi"] - 1]
        out["counts_binned"] = "zeros" if h["sel"]["st"] == 0 else f"{h['sel']['st']}+bin"
    elif h["sel"]["t"] == "npint":
        out["sel"] = f"numpy_integer({h['sel']['lo']})"
    elif h["sel"]["t"] != "none":
        out["sel"] = h["sel"]["lo"] if h["sel"]["t"] == "int" else \
            "slice(%s,%s,%s)" % tuple("None" if x == NONE else x for x in (h["sel"]["lo"], h["sel"]["hi"], h["sel"]["st"]))
    if h["sc"]["cls"] != "none" or h["op"] == "Mul":
        out["scalar"] = f"{h['sc']['cls']}:{h['sc']['num']}/{h['sc']['den']}"
    if h["req"]:
        out["flag"] = True
    if h["rmem"] or h["umem"]:
        out["ref"], out["unk"] = sorted(h["rmem"]), sorted(h["umem"])
    return out


def _short_res(res) -> dict:
    out = dict(out=res["out"])
    if res["out"] in ("val", "alts", "mut") or (res["out"] == "open" and res["v"]["k"] != "none"):
        v = res["v"]
        out["value"] = {k: v[k] for k in ("k", "auto", "edges", "closed", "den") if k in v}
        if v.get("data"):
            out["value"]["data"] = v["data"]
        if v.get("parts"):
            out["value"]["parts"] = {m: p.get("cnt") or p.get("sw1") for m, p in v["parts"].items()}
    if res["out"] == "bool":
        out["b"] = res["b"]
    if res["out"] in ("rej", "open"):
        out["documented_errors"] = sorted(res["exc"])
    if res["out"] == "list":
        out["items"] = len(res["items"])
    if res["out"] == "arr":
        out["shape"] = [len(res["items"]), len(res["items"][0]), len(res["items"][0][0])]
        out["first_bin"] = [[f"{r[0]}/{r[1]}" for r in row] for row in res["items"][0]]
    return out


# ---------------------------------------------------------------------------
# replay of the history tree
# ---------------------------------------------------------------------------


class Replayer:
    def __init__(self, ctx, world: World, prop: str, inits, steps, *, sampling_is_foreign=False, max_nodes=None, rng=None,
                 own_ops=None):
        self.ctx, self.world, self.prop = ctx, world, prop
        self.inits = inits
        self.judge = Judge(ctx, world, prop, sampling_is_foreign=sampling_is_foreign, own_ops=own_ops)
        self.tree: dict = {}
        for sk, hist, res in steps:
            self.tree.setdefault(sk, {}).setdefault(len(hist), []).append((hist, res))
        self.max_nodes = max_nodes
        self._cap = max_nodes
        self.rng = rng
        self.replayed = 0
        self.histories = 0
        self.repaired = 0
        self.ops_seen: dict = {}
        self.pairs_seen: dict = {}   # (previous operation, operation) of the replayed histories of length >= 2
        self.eq_on_undefined = 0     # == with a prescribed result, executed on a real container holding NaN
        self.mutations = 0           # steps after which an older object of the workspace had changed
        self.classes_seen: dict = {}  # (class, operation, input class, expected outcome) of the replayed steps
        self.edit_of_selection: dict = {}  # (class, Bins|Patches, index|slice): SetPatchPair on a selection of an older object
        self.around_mutation: dict = {}  # (operation before, "SetPatchPair", operation after) of the replayed histories
        self.sampling_is_foreign = sampling_is_foreign

    @staticmethod
    def hkey(hist) -> str:
        return json.dumps(hist, sort_keys=True)

    def run(self):
        done = 0
        for sk, (scen, v0) in sorted(self.inits.items(), key=lambda kv: repr(kv[0])):
            levels = self.tree.get(sk, {})
            children: dict = {}
            for depth, lst in levels.items():
                for hist, res in lst:
                    children.setdefault(self.hkey(hist[:-1]), []).append((hist, res))
            try:
                root = self.world.build(v0)
            except Exception as exc:
                self.ctx.violation(f"{self.prop}|{CLASSNAME[v0['k']]}.init|valid|raises_{type(exc).__name__}",
                                   dict(scenario=str(scen), error=repr(exc)))
                continue
            mm = self.world.mismatches(root, v0)
            if mm:
                self.ctx.violation(f"{self.prop}|{CLASSNAME[v0['k']]}.init|valid|wrong_" + _first(mm),
                                   dict(scenario=str(scen), fields=mm))
                continue
            # does sampling the base object agree with the model? (C17: estimator values are C04's business)
            base_ok = True
            if self.sampling_is_foreign:
                for hist, res in children.get(self.hkey([]), []):
                    if hist[-1]["op"] in ("PatchSum", "Sample") and res["out"] in ("val", "alts"):
                        out = execute(self.world, hist[-1], res, [root])
                        alts = res["items"] if res["out"] == "alts" else [res["v"]]
                        base_ok = out[0] == "val" and any(not self.world.mismatches(out[1], a) for a in alts)
            if self.max_nodes is not None:   # a capped replay spends an equal share on every scenario
                self._cap = self.replayed + max(1, (self.max_nodes - self.replayed) // max(1, len(self.inits) - done))
            done += 1
            self._descend(scen, [], [v0], [root], children, base_ok)

    def _alias_probe(self, scen, khist, res, vws, rws):
        """set_patch_pair on the LIVE operand (the step itself then works on a copy): containers derived from one
        another (selections are numpy views before the constructors copy them) must not share the edited memory -
        every OTHER object of the workspace still has its model value.  The edit is taken back at once."""
        h = khist[-1]
        pos = h["i"] - 1
        try:
            target = mut_target(self.world, rws[pos], h["var"])
            p, q = int(h["sel"]["lo"]) - 1, int(h["sel"]["hi"]) - 1
            old = np.array(target.counts[:, p, q], dtype=np.float64, copy=True)
            target.set_patch_pair(p, q, pair_values(h["sel"], target.num_bins))
        except Exception:
            return      # reported by the step itself
        try:
            for k, (ro, v) in enumerate(zip(rws, vws)):
                if k == pos:
                    continue
                mm = self.world.mismatches(ro, v)
                if mm:
                    self.judge.violation(h, vws, "mutates_other_object",
                                         self.judge.detail(scen, khist, res, dict(object=k + 1, fields=mm, edited_object=pos + 1)))
                    self.mutations += 1
        finally:
            target.set_patch_pair(p, q, old)
        if len(khist) > 1 and khist[-2]["op"] in ("Bins", "Patches") and khist[-2]["i"] != h["i"]:
            key = (CLASSNAME[vws[pos]["k"]], khist[-2]["op"], "index" if khist[-2]["sel"]["t"] in ("int", "npint") else "slice")
            self.edit_of_selection[key] = self.edit_of_selection.get(key, 0) + 1

    def _descend(self, scen, hist, vws, rws, children, base_ok):
        kids = children.get(self.hkey(hist), [])
        if not kids:
            self.histories += 1
            return
        if self.max_nodes is not None and self.rng is not None:
            kids = list(kids)            # a capped replay is a random sample of the tree, not its first branches
            self.rng.shuffle(kids)
        for khist, res in kids:
            if self.max_nodes is not None and self.replayed >= self._cap:
                return
            h = khist[-1]
            self.replayed += 1
            self.ops_seen[h["op"]] = self.ops_seen.get(h["op"], 0) + 1
            if len(khist) > 1:
                pair = (khist[-2]["op"], h["op"])
                self.pairs_seen[pair] = self.pairs_seen.get(pair, 0) + 1
                if h["sel"]["t"] == "npint":
                    pair = (pair[0], pair[1] + ":npint")
                    self.pairs_seen[pair] = self.pairs_seen.get(pair, 0) + 1
            if len(khist) > 2 and khist[-2]["op"] == "SetPatchPair":
                tr = (khist[-3]["op"], "SetPatchPair", h["op"] + (":fresh" if h["var"] == "fresh" else ""))
                self.around_mutation[tr] = self.around_mutation.get(tr, 0) + 1
            ck = (CLASSNAME.get(vws[h["i"] - 1]["k"], "?"), OPNAME[h["op"]], arg_class(h, vws, res["out"]), res["out"])
            self.classes_seen[ck] = self.classes_seen.get(ck, 0) + 1
            if h["op"] in ("Eq", "EqVar") and res["out"] == "bool" and has_undefined(vws[h["i"] - 1]):
                self.eq_on_undefined += 1
            if h["op"] == "SetPatchPair":
                self._alias_probe(scen, khist, res, vws, rws)
            outcome = execute(self.world, h, res, rws, salt=len(khist))
            obj = self.judge.judge(scen, khist, res, vws, outcome, base_sampling_ok=base_ok)
            # operands must be unchanged (operations are pure)
            for pos, (ro, v) in enumerate(zip(rws, vws)):
                mm = self.world.mismatches(ro, v)
                if mm:
                    self.judge.violation(h, vws, "mutates_operand" if pos in (h["i"] - 1, h["j"] - 1) else "mutates_other_object",
                                         self.judge.detail(scen, khist, res, dict(object=pos + 1, fields=mm)))
                    self.mutations += 1
                    rws = list(rws)
                    rws[pos] = self.world.build(v)
            nontrivial = (scen_key(scen), self.hkey(khist)) if len(khist) > 1 or res["out"] != "val" else None
            self.ctx.evaluated(1, nontrivial)
            before = self.mutations
            if res["out"] == "mut":
                # the operand is replaced (model value and real object) below this step
                if obj is None:
                    try:
                        obj = self.world.build(res["v"])
                        self.repaired += 1
                    except Exception:
                        continue
                pos = h["i"] - 1
                self._descend(scen, khist, vws[:pos] + [res["v"]] + vws[pos + 1:], rws[:pos] + [obj] + rws[pos + 1:],
                              children, base_ok)
            elif res["out"] in ("val", "alts"):
                if obj is None:
                    # continue below the failed step with the object the model prescribes
                    try:
                        obj = self.world.build(res["v"])
                        self.repaired += 1
                    except Exception:
                        continue
                self._descend(scen, khist, vws + [res["v"]], rws + [obj], children, base_ok)
            else:
                self._descend(scen, khist, vws, rws, children, base_ok)
            if self.mutations != before:
                # a step further down changed one of OUR objects (it was reported there and replaced in the deeper
                # workspace only): the next sibling must start from the objects of the model again
                rws = [ro if not self.world.mismatches(ro, v) else self.world.build(v) for ro, v in zip(rws, vws)]


def corrupt(res: dict) -> dict | None:
    """A deliberately wrong expectation derived from a correct one (binding demonstration)."""
    res = json.loads(json.dumps(res))
    if res["out"] in ("val", "mut"):
        v = res["v"]
        if v["k"] in ("SD", "CD"):
            n, d = v["data"][0]
            if d == 0:
                return None
            v["data"][0] = [n + d, d]
        elif v["k"] == "SW":
            v["parts"]["x"]["sw1"][0][0] += 1
        else:
            m = "dd" if "dd" in v["parts"] else "x"
            v["parts"][m]["cnt"][0][0][0] += v["den"]
        return res
    if res["out"] == "bool":
        res["b"] = not res["b"]
        return res
    if res["out"] == "arr":
        for mat in res["items"]:
            for row in mat:
                for pos, (n, d) in enumerate(row):
                    if d != 0:
                        row[pos] = [n + 3 * d, d]
                        return res
        return None
    if res["out"] == "rej":
        return None
    return None


def replay_case(ctx, world: World, path: str, *, own_ops=None, sampling_is_foreign=False) -> None:
    """./check <id> --replay <file>: TLC regenerates the history of the stored
    case (same scenario, same operations); it is executed and judged again."""
    doc = json.loads(open(path).read())
    det = doc["detail"]
    if "hist_full" not in det:
        raise tlc.TLCMachineryError("this replay file does not stem from a model history (end-to-end case): rerun the check")
    scen = dict(det["scenario"])
    scen["mem"] = frozenset(scen["mem"])
    scen.setdefault("zero", 0)
    hist = det["hist_full"]
    ops = sorted({h["op"] for h in hist})
    res = run_model([scen], ops, len(hist), invariants=["TypeOK", "AcceptIffValid"], emit=True, focus=False, workers=2)
    ctx.add_tlc("Containers ideal, history of the replayed case", res)
    inits, steps = parse_emitted(res.out)
    want = {Replayer.hkey(hist[:n]) for n in range(1, len(hist) + 1)}
    chain = [st for st in steps if Replayer.hkey(st[1]) in want]
    ctx.require(len(chain) == len(hist), "the stored history is not a behaviour of the specification any more")
    rp = Replayer(ctx, world, ctx.prop, inits, chain, sampling_is_foreign=sampling_is_foreign, own_ops=own_ops)
    rp.run()
    ctx.validated(1)
    ctx.sample(dict(replayed=path, key=doc["key"], history=det["history"]))
