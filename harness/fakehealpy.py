"""Minimal stand-in for ``healpy`` (not installed here) so that the REAL
``yaw.randoms.HealPixRandoms`` can be executed by the C16 check.

Only the five functions HealPixRandoms uses are provided; they implement the
HEALPix pixelisation (Gorski et al. 2005) with numpy int64 arithmetic:

    npix2nside, nside2order, reorder (RING <-> NESTED), pix2ang(nest, lonlat)
    + ang2pix (nest, lonlat) which the driver needs for its footprint oracle.

``install()`` must run before the first ``import yaw`` of the process
(``yaw.randoms`` decides ``HEALPY_ENABLED`` at import time).  ``selftest()``
validates the stand-in against the defining properties of the scheme
(bijection nest<->ring, ring order = decreasing z / increasing phi, pixel
centres map back to their pixel at every resolution, known centre values).
"""

from __future__ import annotations

import sys
import types

import numpy as np

_JRLL = np.array([2, 2, 2, 2, 3, 3, 3, 3, 4, 4, 4, 4], dtype=np.int64)
_JPLL = np.array([1, 3, 5, 7, 0, 2, 4, 6, 1, 3, 5, 7], dtype=np.int64)


def npix2nside(npix: int) -> int:
    nside = int(round((npix / 12) ** 0.5))
    if 12 * nside * nside != npix:
        raise ValueError("Wrong pixel number (it is not 12*nside**2)")
    return nside


def nside2order(nside: int) -> int:
    order = int(nside).bit_length() - 1
    if nside <= 0 or (1 << order) != nside:
        raise ValueError("nside must be a power of 2")
    return order


def _compress(v):
    """Keep the even bits of v (bit 2k -> bit k)."""
    v = np.asarray(v, dtype=np.int64)
    out = np.zeros_like(v)
    for k in range(31):
        out |= ((v >> (2 * k)) & 1) << k
    return out


def _spread(v):
    v = np.asarray(v, dtype=np.int64)
    out = np.zeros_like(v)
    for k in range(31):
        out |= ((v >> k) & 1) << (2 * k)
    return out


def _nest2xyf(nside, ipix):
    ipix = np.asarray(ipix, dtype=np.int64)
    npface = np.int64(nside) * np.int64(nside)
    face = ipix // npface
    ipf = ipix % npface
    return _compress(ipf), _compress(ipf >> 1), face


def _ring_geometry(nside, ix, iy, face):
    nside = np.int64(nside)
    nl4 = 4 * nside
    jr = _JRLL[face] * nside - ix - iy - 1
    north = jr < nside
    south = jr > 3 * nside
    nr = np.where(north, jr, np.where(south, nl4 - jr, nside))
    kshift = np.where(north | south, 0, (jr - nside) & 1)
    jp = (_JPLL[face] * nr + ix - iy + 1 + kshift) // 2
    jp = np.where(jp > nl4, jp - nl4, jp)
    jp = np.where(jp < 1, jp + nl4, jp)
    return jr, nr, kshift, jp, north, south


def nest2ring(nside, ipix):
    ix, iy, face = _nest2xyf(nside, ipix)
    jr, nr, kshift, jp, north, south = _ring_geometry(nside, ix, iy, face)
    nside = np.int64(nside)
    npix = 12 * nside * nside
    ncap = 2 * nside * (nside - 1)
    n_before = np.where(north, 2 * nr * (nr - 1), np.where(south, npix - 2 * (nr + 1) * nr, ncap + (jr - nside) * 4 * nside))
    return n_before + jp - 1


def reorder(values, inp="RING", out="NESTED"):
    values = np.asarray(values)
    nside = npix2nside(len(values))
    inp, out = inp.upper()[:4], out.upper()[:4]
    if inp == out:
        return values.copy()
    ring_of_nest = nest2ring(nside, np.arange(len(values), dtype=np.int64))
    if inp == "RING" and out == "NEST":
        return values[ring_of_nest]
    res = np.empty_like(values)
    res[ring_of_nest] = values
    return res


def _pix2zphi_nest(nside, ipix):
    ix, iy, face = _nest2xyf(nside, ipix)
    jr, nr, kshift, jp, north, south = _ring_geometry(nside, ix, iy, face)
    ns = float(nside)
    nrf = nr.astype(np.float64)
    z_cap = 1.0 - nrf * nrf / (3.0 * ns * ns)
    z = np.where(north, z_cap, np.where(south, -z_cap, (2.0 * ns - jr) * 2.0 / (3.0 * ns)))
    phi = (jp - (kshift + 1) * 0.5) * (0.5 * np.pi / nrf)
    return z, phi


def pix2ang(nside, ipix, nest=False, lonlat=False):
    if not nest:
        raise NotImplementedError("stand-in supports nest=True only")
    z, phi = _pix2zphi_nest(nside, ipix)
    if lonlat:
        return np.rad2deg(phi), np.rad2deg(np.arcsin(z))
    return np.arccos(z), phi


def ang2pix(nside, lon, lat, nest=True, lonlat=True):
    if not (nest and lonlat):
        raise NotImplementedError("stand-in supports nest=True, lonlat=True only")
    nside = np.int64(nside)
    z = np.sin(np.deg2rad(np.asarray(lat, dtype=np.float64)))
    za = np.abs(z)
    tt = (np.deg2rad(np.asarray(lon, dtype=np.float64)) % (2.0 * np.pi)) / (0.5 * np.pi)
    tt = np.where(tt >= 4.0, 0.0, tt)
    ns = float(nside)
    # equatorial belt
    t1 = ns * (0.5 + tt)
    t2 = ns * z * 0.75
    jp = np.floor(t1 - t2).astype(np.int64)
    jm = np.floor(t1 + t2).astype(np.int64)
    ifp = jp // nside
    ifm = jm // nside
    face_e = np.where(ifp == ifm, ifp | 4, np.where(ifp < ifm, ifp, ifm + 8))
    ix_e = jm & (nside - 1)
    iy_e = nside - (jp & (nside - 1)) - 1
    # polar caps
    ntt = np.minimum(3, np.floor(tt).astype(np.int64))
    tp = tt - ntt
    tmp = ns * np.sqrt(3.0 * (1.0 - za))
    jpp = np.minimum(np.floor(tp * tmp).astype(np.int64), nside - 1)
    jmp = np.minimum(np.floor((1.0 - tp) * tmp).astype(np.int64), nside - 1)
    face_p = np.where(z >= 0, ntt, ntt + 8)
    ix_p = np.where(z >= 0, nside - jmp - 1, jpp)
    iy_p = np.where(z >= 0, nside - jpp - 1, jmp)
    eq = za <= 2.0 / 3.0
    face = np.where(eq, face_e, face_p)
    ix = np.where(eq, ix_e, ix_p)
    iy = np.where(eq, iy_e, iy_p)
    return face * nside * nside + _spread(ix) + (_spread(iy) << 1)


def install() -> None:
    try:
        import healpy  # noqa: F401

        if not getattr(healpy, "_yaw_verif_standin", False):
            return  # a real healpy is available: use it
    except ImportError:
        pass
    if "yaw.randoms" in sys.modules and not sys.modules["yaw.randoms"].HEALPY_ENABLED:
        raise RuntimeError("fakehealpy.install() must run before yaw is imported")
    mod = types.ModuleType("healpy")
    mod._yaw_verif_standin = True
    for name in ("npix2nside", "nside2order", "reorder", "pix2ang", "ang2pix", "nest2ring"):
        setattr(mod, name, globals()[name])
    sys.modules["healpy"] = mod


def selftest() -> list[str]:
    """Returns a list of failed defining properties (empty = fine)."""
    bad = []
    for nside in (1, 2, 4, 8):
        npix = 12 * nside * nside
        nest = np.arange(npix, dtype=np.int64)
        ring = nest2ring(nside, nest)
        if sorted(ring.tolist()) != list(range(npix)):
            bad.append(f"nest2ring not a bijection at nside={nside}")
            continue
        z, phi = _pix2zphi_nest(nside, nest)
        zr = np.empty(npix)
        pr = np.empty(npix)
        zr[ring] = z
        pr[ring] = phi
        if np.any(np.diff(zr) > 1e-15):
            bad.append(f"ring order not by decreasing z at nside={nside}")
        same = np.abs(np.diff(zr)) < 1e-15
        if np.any(np.diff(pr)[same] <= 0):
            bad.append(f"phi not increasing within a ring at nside={nside}")
        if len(np.unique(np.round(zr, 12))) != 4 * nside - 1:
            bad.append(f"number of rings wrong at nside={nside}")
        lon, lat = pix2ang(nside, nest, nest=True, lonlat=True)
        if not np.array_equal(ang2pix(nside, lon, lat), nest):
            bad.append(f"ang2pix(pix2ang(p)) != p at nside={nside}")
        vals = np.arange(npix, dtype=np.float64)
        if not np.array_equal(reorder(reorder(vals, inp="RING", out="NESTED"), inp="NESTED", out="RING"), vals):
            bad.append(f"reorder round trip at nside={nside}")
    lon, lat = pix2ang(1, np.arange(12), nest=True, lonlat=True)
    want_lat = np.rad2deg(np.arcsin(2.0 / 3.0))
    if not (np.allclose(lon[:4], [45, 135, 225, 315]) and np.allclose(lat[:4], want_lat) and np.allclose(lat[4:8], 0.0)
            and np.allclose(lon[4:8], [0, 90, 180, 270]) and np.allclose(lat[8:], -want_lat)):
        bad.append("base pixel centres wrong")
    # sub-pixel centres at the maximum resolution stay inside their parent pixel
    rng = np.random.default_rng(5)
    for nside in (1, 4):
        order = nside2order(nside)
        parent = rng.integers(0, 12 * nside * nside, size=2000)
        sub = parent * 4 ** (29 - order) + rng.integers(0, 4 ** (29 - order), size=2000)
        lon, lat = pix2ang(2**29, sub, nest=True, lonlat=True)
        if not np.array_equal(ang2pix(nside, lon, lat), parent):
            bad.append(f"sub-pixel centre outside its parent at nside={nside}")
    return bad
