"""Deterministic runtime: cooperative scheduler + fakes of the concurrency
primitives the library uses (multiprocessing.Pool / Manager().Queue / Process and
mpi4py.MPI), so that the *real* library functions can be driven along a schedule
chosen by a TLC behaviour, by a seeded RNG, or by depth-first enumeration.

Exactly one task runs at a time.  Every communication call is a scheduling point:
the task publishes the *options* it could take (e.g. which sender a wildcard
receive could match) and suspends; the chooser picks one enabled (task, option)
pair.  No option anywhere while some task is unfinished = deadlock (exact, no
wall clock involved).
"""

from __future__ import annotations

import pickle
import random
import threading
import types
from dataclasses import dataclass, field


class Deadlock(Exception):
    def __init__(self, waiting: dict) -> None:
        super().__init__(f"deadlock: {waiting}")
        self.waiting = waiting


class _Abort(BaseException):
    """Raised inside suspended task threads to unwind them after a deadlock."""


class ScheduleExhausted(Exception):
    pass


class ScheduleMismatch(Exception):
    pass


@dataclass
class Task:
    name: str
    fn: object
    kind: str = "proc"  # main | proc | rank | poolworker
    thread: threading.Thread | None = None
    go: threading.Event = field(default_factory=threading.Event)
    done: bool = False
    started: bool = False
    label: tuple = ()
    options_fn: object = None
    chosen: object = None
    result: object = None
    exc: BaseException | None = None
    seq: int = 0
    killed: bool = False  # terminated from outside (Pool.terminate): never scheduled again


class Sched:
    """Cooperative scheduler.  ``chooser(enabled, sched)`` receives a list of
    (task_name, label, option) triples (deterministically ordered) and returns
    an index into it."""

    def __init__(self, chooser=None, seed: int = 0, max_steps: int = 200000) -> None:
        self.tasks: dict[str, Task] = {}
        self.order: list[str] = []
        self.back = threading.Event()
        self.chooser = chooser or RandomChooser(seed)
        self.log: list[dict] = []
        self.steps = 0
        self.max_steps = max_steps
        self.aborting = False
        self.local = threading.local()
        self.choices: list = []  # record of (n_enabled, picked index, descr)
        self.describe = None     # optional: item -> dict of extra fields logged with queue events
        self.before_step = None  # optional: callback(sched) run by the scheduler before every step (environment actions)

    # -- task side ---------------------------------------------------------
    def current(self) -> Task:
        return self.local.task

    def point(self, label: tuple, options_fn=None):
        """Scheduling point.  ``options_fn()`` -> list of options (empty =
        blocked).  Returns the chosen option."""
        if self.aborting:        # unwinding: clean-up code of the task (context-manager exits) must not block again
            raise _Abort()
        t = self.current()
        t.label = label
        t.options_fn = options_fn or (lambda: [None])
        self.back.set()
        t.go.wait()
        t.go.clear()
        if self.aborting:
            raise _Abort()
        return t.chosen

    def emit(self, **ev) -> None:
        t = getattr(self.local, "task", None)
        if t is not None:
            t.seq += 1
            ev.setdefault("p", t.name)
            ev.setdefault("seq", t.seq)
        self.log.append(ev)

    def spawn(self, name: str, fn, kind: str = "proc") -> Task:
        if name in self.tasks:
            raise ValueError(f"duplicate task {name}")
        t = Task(name, fn, kind)
        self.tasks[name] = t
        self.order.append(name)

        def body():
            self.local.task = t
            t.go.wait()
            t.go.clear()
            try:
                if self.aborting:
                    raise _Abort()
                t.result = fn()
            except _Abort:
                pass
            except BaseException as exc:  # confined to the task, like a process
                t.exc = exc
            finally:
                t.done = True
                self.back.set()

        t.thread = threading.Thread(target=body, name=name, daemon=True)
        t.label = ("start",)
        t.options_fn = lambda: [None]
        t.thread.start()
        return t

    # -- scheduler side ----------------------------------------------------
    def enabled(self) -> list:
        out = []
        for name in self.order:
            t = self.tasks[name]
            if t.done or t.killed:
                continue
            for opt in t.options_fn():
                out.append((name, t.label, opt))
        return out

    def run(self) -> None:
        """Run until all tasks are done.  Raises Deadlock."""
        try:
            while True:
                if self.before_step is not None:
                    self.before_step(self)
                if all(t.done or t.killed for t in self.tasks.values()):
                    return
                en = self.enabled()
                if not en:
                    waiting = {n: t.label for n, t in self.tasks.items() if not (t.done or t.killed)}
                    raise Deadlock(waiting)
                self.steps += 1
                if self.steps > self.max_steps:
                    raise ScheduleExhausted("step bound exceeded")
                idx = self.chooser(en, self)
                name, label, opt = en[idx]
                self.choices.append((len(en), idx, (name, label, opt)))
                t = self.tasks[name]
                t.chosen = opt
                self.back.clear()
                t.go.set()
                self.back.wait()
        finally:
            self._unwind()

    def _unwind(self) -> None:
        self.aborting = True
        for t in self.tasks.values():
            if not t.done:
                self.back.clear()
                t.go.set()
                t.thread.join(timeout=10)


class RandomChooser:
    def __init__(self, seed: int, eager_bias: float = 0.7) -> None:
        self.rng = random.Random(seed)
        self.eager_bias = eager_bias

    def __call__(self, enabled, sched) -> int:
        # prefer non-"sync" send options with some bias to keep runs short
        return self.rng.randrange(len(enabled))


class ListChooser:
    """Replay a fixed list of indices; afterwards fall back to index 0."""

    def __init__(self, indices) -> None:
        self.indices = list(indices)
        self.pos = 0
        self.widths = []

    def __call__(self, enabled, sched) -> int:
        self.widths.append(len(enabled))
        if self.pos < len(self.indices):
            i = self.indices[self.pos]
            self.pos += 1
            return min(i, len(enabled) - 1)
        self.pos += 1
        return 0


class PredicateChooser:
    """Pick the first enabled triple accepted by the current directive of a
    script [(predicate, ...)].  Used to replay TLC behaviours: every TLC action
    is translated into a predicate over (task, label, option)."""

    def __init__(self, script, fallback=None, strict: bool = True) -> None:
        self.script = list(script)
        self.pos = 0
        self.fallback = fallback or (lambda en, s: 0)
        self.strict = strict

    def __call__(self, enabled, sched) -> int:
        if self.pos < len(self.script):
            pred = self.script[self.pos]
            for i, tr in enumerate(enabled):
                if pred(*tr):
                    self.pos += 1
                    return i
            if self.strict:
                raise ScheduleMismatch(f"script step {self.pos} not enabled; enabled={enabled}")
        return self.fallback(enabled, sched)


def dfs_schedules(run_once, max_runs: int = 10000):
    """Enumerate all schedules depth-first: ``run_once(chooser)`` executes the
    system once with the given chooser.  Yields the result of each run."""
    prefix: list[int] = []
    runs = 0
    while True:
        ch = ListChooser(prefix)
        res = run_once(ch)
        runs += 1
        yield res, list(ch.indices[: len(ch.widths)]) + [0] * (len(ch.widths) - len(ch.indices))
        widths = ch.widths
        path = (prefix + [0] * len(widths))[: len(widths)]
        # next path in lexicographic order
        k = len(path) - 1
        while k >= 0 and path[k] + 1 >= widths[k]:
            k -= 1
        if k < 0 or runs >= max_runs:
            return
        prefix = path[:k] + [path[k] + 1]


# ---------------------------------------------------------------------------
# multiprocessing fakes
# ---------------------------------------------------------------------------


def _pickle_roundtrip(obj):
    return pickle.loads(pickle.dumps(obj))


class FakeQueue:
    def __init__(self, sched: Sched, name: str = "q", maxsize: int = 0) -> None:
        self.s = sched
        self.items: list = []
        self.name = name
        self.maxsize = int(maxsize or 0)
        self.nput = 0
        self.nget = 0

    def put(self, item, block=True, timeout=None) -> None:
        # a bounded queue blocks the producer while it is full
        self.s.point(("put", self.name), lambda: [None] if (self.maxsize <= 0 or len(self.items) < self.maxsize) else [])
        self.items.append(_pickle_roundtrip(item))
        self.nput += 1
        self.s.emit(ev="put", q=self.name, n=self.nput, cls=_cls(item), **self._descr(item))

    def qsize(self) -> int:
        return len(self.items)

    def empty(self) -> bool:
        return not self.items

    def get(self, block=True, timeout=None):
        self.s.point(("get", self.name), lambda: [None] if self.items else [])
        item = self.items.pop(0)
        self.nget += 1
        self.s.emit(ev="get", q=self.name, n=self.nget, cls=_cls(item), **self._descr(item))
        return item

    def _descr(self, item) -> dict:
        return self.s.describe(item) if self.s.describe is not None else {}


def _cls(item) -> str:
    if isinstance(item, type):
        return item.__name__
    if isinstance(item, dict):
        return "dict"
    return type(item).__name__


class FakeManager:
    def __init__(self, sched: Sched) -> None:
        self.s = sched
        self.nq = 0

    def __enter__(self):
        return self

    def __exit__(self, *a):
        return None

    def Queue(self, maxsize=0):
        self.nq += 1
        return FakeQueue(self.s, f"q{self.nq}", maxsize)


class FakeProcess:
    _count = 0

    def __init__(self, sched: Sched, target=None, args=(), kwargs=None) -> None:
        self.s = sched
        self.target = target
        self.args = args
        self.kwargs = kwargs or {}
        FakeProcess._count += 1
        self.name = f"proc{FakeProcess._count}"
        self.task: Task | None = None
        self.exitcode = None

    def start(self) -> None:
        # fork semantics: the child works on a copy of the bound object
        target = _fork_copy(self.target)

        def body():
            self.s.emit(ev="start")
            try:
                target(*self.args, **self.kwargs)
                self.exitcode = 0
                self.s.emit(ev="exit", code=0)
            except _Abort:
                raise
            except BaseException as exc:
                self.exitcode = 1
                self.s.emit(ev="exit", code=1, exc=type(exc).__name__)
                raise

        self.task = self.s.spawn(self.name, body, kind="proc")
        self.task.owner = self
        self.s.emit(ev="spawn", proc=self.name)
        self.s.point(("spawned", self.name))

    def join(self, timeout=None) -> None:
        self.s.point(("join", self.name), lambda: [None] if (self.task.done or self.task.killed) else [])
        self.s.emit(ev="join", proc=self.name, code=self.exitcode)

    def terminate(self) -> None:
        """SIGTERM: the child dies wherever it is (user-space buffers are lost)."""
        alive = self.task is not None and not self.task.done
        self.s.emit(ev="terminate", proc=self.name, alive=alive)
        if alive:
            self.task.killed = True
            self.exitcode = -15

    kill = terminate

    def is_alive(self) -> bool:
        return self.task is not None and not (self.task.done or self.task.killed)


def _fork_copy(target):
    """A forked child sees a copy of the parent's memory: copy the bound
    instance (sharing the fake queue objects, which model kernel objects)."""
    self_obj = getattr(target, "__self__", None)
    if self_obj is None:
        return target
    import copy

    clone = copy.copy(self_obj)
    return types.MethodType(target.__func__, clone)


class FakePool:
    """multiprocessing.Pool with W logical workers.  Tasks are handed out in
    order to idle workers (imap_unordered with chunksize > 1: in chunks that are evaluated and
    pickled as a whole, like multiprocessing's mapstar); *completion order* is decided by the
    scheduler (imap_unordered / map).  Functions, arguments and results go
    through pickle like in the real pool."""

    counter = 0

    def __init__(self, sched: Sched, processes: int, order_source=None) -> None:
        self.s = sched
        self.W = int(processes)
        self.order_source = order_source
        FakePool.counter += 1
        self.id = FakePool.counter
        self.calls = 0
        self.children: list[Task] = []

    def __enter__(self):
        return self

    def __exit__(self, *a):
        self.terminate()  # like multiprocessing.Pool.__exit__
        return None

    def close(self):
        pass

    def join(self):
        self.s.point(("pool-join", self.id), lambda: [None] if all(c.done for c in self.children) else [])

    def terminate(self):
        # worker processes are killed: tasks that have not finished never will
        for c in self.children:
            if not c.done:
                c.killed = True
                self.s.emit(ev="killed", task=c.name)

    # completion orders -------------------------------------------------
    def _completion_order(self, ntasks: int) -> list[int]:
        if self.order_source is not None:
            order = self.order_source(self.W, ntasks)
            if order is not None:
                assert sorted(order) == list(range(ntasks)), order
                return list(order)
        # ask the scheduler step by step: which of the running tasks completes
        order = []
        running: list[int] = []
        nxt = 0
        while len(order) < ntasks:
            while len(running) < self.W and nxt < ntasks:
                running.append(nxt)
                nxt += 1
            pick = self.s.point(("complete", self.id), lambda r=tuple(running): list(r))
            running.remove(pick)
            order.append(pick)
        return order

    def imap_unordered(self, func, iterable, chunksize=1):
        tasks = list(iterable)
        func = _pickle_roundtrip(func)
        self.calls += 1
        if chunksize is not None and chunksize > 1:
            # like multiprocessing: the unit of dispatch is a chunk; the worker evaluates the WHOLE chunk and only then
            # pickles the tuple of its results in one go (mapstar) - objects shared between results of a chunk stay shared
            chunks = [tasks[i:i + chunksize] for i in range(0, len(tasks), chunksize)]
            if self.order_source is not None:
                corder = self._completion_order(len(chunks))
            else:
                corder = []
                running, nxt = [], 0
                while len(corder) < len(chunks):
                    while len(running) < self.W and nxt < len(chunks):
                        running.append(nxt)
                        nxt += 1
                    pick = self.s.point(("complete", self.id), lambda r=tuple(running): list(r))
                    running.remove(pick)
                    corder.append(pick)
            self.s.emit(ev="imap", W=self.W, nt=len(chunks), order=[i + 1 for i in corder], chunksize=chunksize)
            for ci in corder:
                args = _pickle_roundtrip(tuple(chunks[ci]))
                yield from _pickle_roundtrip(tuple(func(a) for a in args))
            return
        if self.order_source is not None:
            order = self._completion_order(len(tasks))
            self.s.emit(ev="imap", W=self.W, nt=len(tasks), order=[i + 1 for i in order])
            for i in order:
                yield _pickle_roundtrip(func(_pickle_roundtrip(tasks[i])))
            return
        running: list[int] = []
        nxt = 0
        done = 0
        order = []
        while done < len(tasks):
            while len(running) < self.W and nxt < len(tasks):
                running.append(nxt)
                nxt += 1
            pick = self.s.point(("complete", self.id), lambda r=tuple(running): list(r))
            running.remove(pick)
            order.append(pick + 1)
            done += 1
            yield _pickle_roundtrip(func(_pickle_roundtrip(tasks[pick])))
        self.s.emit(ev="imap", W=self.W, nt=len(tasks), order=order)

    def map(self, func, iterable, chunksize=None):
        """Blocking map: tasks run as separate schedulable tasks (they may
        communicate through queues); results returned in order; the first
        exception is re-raised in the caller after all tasks finished (like
        Pool.map)."""
        tasks = list(iterable)
        self.s.emit(ev="mapcall", nt=len(tasks))
        failed = True
        try:
            out = self.map_async(func, tasks, chunksize).get()
            failed = False
            return out
        finally:
            self.s.emit(ev="mapret", nt=len(tasks), failed=failed)

    def starmap(self, func, iterable, chunksize=None):
        return self.map(_Star(func), iterable, chunksize)

    def imap(self, func, iterable, chunksize=1):
        yield from self.map(func, iterable, chunksize)

    def apply_async(self, func, args=(), kwds=None, callback=None, error_callback=None):
        res = self.map_async(_Apply(func, kwds or {}), [args])
        return _Single(res)

    def apply(self, func, args=(), kwds=None):
        return self.apply_async(func, args, kwds).get()

    def map_async(self, func, iterable, chunksize=None, callback=None, error_callback=None):
        """Tasks become schedulable at once (at most W unfinished tasks of the
        pool are runnable at a time, in submission order); the caller goes on."""
        tasks = list(iterable)
        self.calls += 1
        results: dict[int, object] = {}
        errors: dict[int, BaseException] = {}
        children: list[Task] = []

        def make(i):
            f = _pickle_roundtrip(func) if not _has_fake(func) else _fork_copy_callable(func)
            arg = _pickle_roundtrip(tasks[i])

            def body():
                try:
                    results[i] = f(arg)
                except _Abort:
                    raise
                except BaseException as exc:
                    errors[i] = exc
                    self.s.emit(ev="taskerr", exc=type(exc).__name__)

            return body

        # at most W tasks of this pool in flight: a task may start only when
        # fewer than W earlier-submitted tasks of the pool are unfinished
        for i in range(len(tasks)):
            before = list(self.children)
            t = self.s.spawn(f"pool{self.id}.{self.calls}.{i}", make(i), kind="poolworker")
            t.options_fn = (lambda before=before: [None] if sum(not c.done for c in before) < self.W else [])
            children.append(t)
            self.children.append(t)
        return _AsyncResult(self, children, results, errors, len(tasks))


class _Star:
    def __init__(self, func):
        self.func = func

    def __call__(self, args):
        return self.func(*args)


class _Apply:
    def __init__(self, func, kwds):
        self.func, self.kwds = func, kwds

    def __call__(self, args):
        return self.func(*args, **self.kwds)


class _AsyncResult:
    def __init__(self, pool, children, results, errors, n) -> None:
        self.pool, self.children, self.results, self.errors, self.n = pool, children, results, errors, n

    def ready(self) -> bool:
        return all(c.done for c in self.children)

    def wait(self, timeout=None) -> None:
        self.pool.s.point(("map-wait", self.pool.id), lambda: [None] if self.ready() else [])

    def get(self, timeout=None):
        self.wait()
        if self.errors:
            raise self.errors[min(self.errors)]
        return [_pickle_roundtrip(self.results[i]) for i in range(self.n)]

    def successful(self) -> bool:
        return self.ready() and not self.errors


class _Single:
    def __init__(self, res):
        self.res = res

    def get(self, timeout=None):
        return self.res.get()[0]

    def wait(self, timeout=None):
        self.res.wait()

    def ready(self):
        return self.res.ready()


def _has_fake(func) -> bool:
    d = getattr(func, "__dict__", {})
    return any(isinstance(v, FakeQueue) for v in d.values())


def _fork_copy_callable(func):
    """Pickle-like copy of a callable object that holds a FakeQueue (a proxy in
    the real library, which is picklable by reference)."""
    import copy

    clone = copy.copy(func)
    for k, v in list(getattr(func, "__dict__", {}).items()):
        if not isinstance(v, FakeQueue):
            setattr(clone, k, _pickle_roundtrip(v))
    return clone


class MultiprocessingPatch:
    """Context manager that installs the fakes on the ``multiprocessing`` module
    object (the library resolves Pool/Manager/Process through the module
    attribute at call time)."""

    def __init__(self, sched: Sched, order_source=None) -> None:
        self.s = sched
        self.order_source = order_source
        self.saved = {}
        self.pools: list[FakePool] = []

    def __enter__(self):
        import multiprocessing as mp

        self.saved = dict(Pool=mp.Pool, Manager=mp.Manager, Process=mp.Process)

        def pool(processes=None, *a, **k):
            p = FakePool(self.s, processes or 1, self.order_source)
            self.pools.append(p)
            return p

        mp.Pool = pool
        mp.Manager = lambda: FakeManager(self.s)
        mp.Process = lambda target=None, args=(), kwargs=None, **kw: FakeProcess(self.s, target, args, kwargs)
        return self

    def __exit__(self, *a):
        import multiprocessing as mp

        for k, v in self.saved.items():
            setattr(mp, k, v)
        return None


def kill_process_when(pred):
    """Environment action for ``Sched.before_step``: SIGKILL (exit code -9, e.g. the
    OOM killer) hits the first helper process for which ``pred(task)`` holds, once.
    The process stops wherever it is: at the scheduling point it is waiting at."""
    state = {"done": False}

    def cb(sched):
        if state["done"]:
            return
        for t in sched.tasks.values():
            owner = getattr(t, "owner", None)
            if owner is None or t.done or t.killed:
                continue
            if pred(t):
                t.killed = True
                owner.exitcode = -9
                state["done"] = True
                sched.emit(ev="oomkill", proc=t.name, p="env")
                return

    cb.state = state
    return cb


def run_main(fn, *, chooser=None, seed: int = 0, order_source=None, max_steps: int = 200000, describe=None, before_step=None):
    """Run ``fn`` as the main task under the fake multiprocessing runtime.
    Returns (sched, outcome) with outcome = ("ok", result) | ("raised", exc) |
    ("deadlock", waiting)."""
    s = Sched(chooser=chooser, seed=seed, max_steps=max_steps)
    s.describe = describe
    s.before_step = before_step
    with MultiprocessingPatch(s, order_source):
        main = s.spawn("main", fn, kind="main")
        try:
            s.run()
        except Deadlock as d:
            return s, ("deadlock", d.waiting)
    if main.exc is not None:
        return s, ("raised", main.exc)
    return s, ("ok", main.result)


class ReplayChooser:
    """Drive the runtime along a TLC behaviour.  ``script`` is a list of
    predicates over (task, label, option), one per TLC action that corresponds
    to a scheduling point; ``auto`` marks transitions without a counterpart in
    the specification (taken eagerly, first come first served).  A script step
    that is not enabled is a *divergence*: recorded, then skipped."""

    def __init__(self, script, auto, after=None) -> None:
        self.script = list(script)
        self.auto = auto
        self.pos = 0
        self.divergences: list = []
        self.after = after or (lambda en, s: 0)
        self.guard = 0

    def __call__(self, enabled, sched) -> int:
        for i, tr in enumerate(enabled):
            if self.auto(*tr):
                return i
        while self.pos < len(self.script):
            pred, descr = self.script[self.pos]
            for i, tr in enumerate(enabled):
                if pred(*tr):
                    self.pos += 1
                    return i
            self.divergences.append(dict(step=self.pos, action=descr, enabled=[(t, l) for t, l, _ in enabled][:8]))
            self.pos += 1
        return self.after(enabled, sched)
