----------------------- MODULE IterUnorderedMPITrace -----------------------
(***************************************************************************)
(* Trace validation for IterUnorderedMPI: every event recorded by the      *)
(* deterministic MPI runtime while the REAL _mpi_root_task /               *)
(* _mpi_worker_task run must be explained by the corresponding action of   *)
(* the specification, with the logged message class, argument, peer and    *)
(* send mode bound to the action's effect.  A batch of traces (same        *)
(* constants) is checked per TLC run; verdict per trace = (longest matched *)
(* prefix, accepted).                                                      *)
(***************************************************************************)
EXTENDS IterUnorderedMPI, Json, IOUtils, TLCExt

Traces == ndJsonDeserialize(IOEnv.TRACE_FILE)

VARIABLES tid, l
tvars == <<vars, tid, l>>

T == Traces[tid].events
Ev == T[l + 1]

TInit == /\ Init
         /\ tid \in 1..Len(Traces) /\ l = 0
         /\ TLCSet(tid, 0) /\ TLCSet(1000 + tid, FALSE)

Consume == l < Len(T) /\ l' = l + 1 /\ UNCHANGED tid
Silent == UNCHANGED <<tid, l>>

LastOf(q) == q[Len(q)]
Sent(s, d) == LastOf(chan'[<<s, d>>])
SendMatches(s, d) ==
    /\ Ev.ev = "send" /\ Ev.src = s /\ Ev.dst = d
    /\ Sent(s, d).tag = Ev.tag /\ Sent(s, d).cls = Ev.cls /\ Sent(s, d).arg = Ev.arg
    /\ Sent(s, d).sync = (Ev.mode = "sync")

TRootFirst == Consume /\ pc[0] = "first" /\ kfirst <= Size - 1 /\ RootFirst /\ SendMatches(0, kfirst)
TRootReply == Consume /\ pc[0] = "reply" /\ RootReply /\ SendMatches(0, cur[0])
TRootRecv == /\ Consume /\ Ev.ev = "recv" /\ Ev.dst = 0 /\ Ev.tag = 2 /\ Ev.wild
             /\ RootRecv(Ev.src) /\ LastOf(collected') = Ev.arg
TWRecv == /\ Consume /\ Ev.ev = "recv" /\ Ev.src = 0 /\ Ev.tag = 1 /\ Ev.dst # 0
          /\ Ev.dst \in Ranks /\ HasMatch(chan, 0, Ev.dst, 1)
          /\ Matched(chan, 0, Ev.dst, 1).cls = Ev.cls /\ Matched(chan, 0, Ev.dst, 1).arg = Ev.arg
          /\ WRecv(Ev.dst)
TWSend == Consume /\ Ev.ev = "send" /\ Ev.src \in Ranks /\ Ev.src # 0 /\ WSend(Ev.src) /\ SendMatches(Ev.src, 0)
TSync == Consume /\ Ev.ev = "sendwait_done" /\ Ev.wr \in Ranks /\ SyncDone(Ev.wr)
TBarrierArrive == Consume /\ Ev.ev = "coll_enter" /\ Ev.kind = "Barrier" /\ Ev.wr \in Ranks /\ BarrierArrive(Ev.wr)
TBarrierPass == Consume /\ Ev.ev = "coll_exit" /\ Ev.kind = "Barrier" /\ Ev.wr \in Ranks /\ BarrierPass(Ev.wr)
(* control-flow steps of the root that perform no MPI call *)
TSilent == Silent /\ (RootFirstEnd \/ RootLoopExit)

TNext == \/ TRootFirst \/ TRootReply \/ TRootRecv \/ TWRecv \/ TWSend \/ TSync
         \/ TBarrierArrive \/ TBarrierPass \/ TSilent

TSpec == TInit /\ [][TNext]_tvars

Progress == /\ TLCSet(tid, IF l > TLCGet(tid) THEN l ELSE TLCGet(tid))
            /\ ((l = Len(T) /\ Done) => TLCSet(1000 + tid, TRUE))

Post == PrintT(<<"verdict", [i \in 1..Len(Traces) |-> <<TLCGet(i), TLCGet(1000 + i)>>]>>)
=============================================================================
