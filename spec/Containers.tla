------------------------------ MODULE Containers ------------------------------
(***************************************************************************)
(* Pair-count and data containers of yet_another_wizz: algebra, indexing,  *)
(* estimators, n(z) formula, normalisation (properties C17 and C04).       *)
(*                                                                         *)
(* A behaviour is a HISTORY of public operations applied to a workspace    *)
(* `ws` of containers.  The first element of `ws` is built by the public   *)
(* constructors from the integer arrays chosen in Init (one per            *)
(* scenario); every action is ONE public operation of the library, it    *)
(* computes the abstract result exactly (integers / rationals) and         *)
(*   - appends it to `ws` when it is a container,                          *)
(*   - or records `rej` (the operation must be rejected with an error),    *)
(*     `bool`, `list` (iteration), `arr` (get_array: rationals per bin x   *)
(*     patch x patch), `open` (property prescribes nothing:                *)
(*     rejection or the given value), `alts` (several admissible values),  *)
(*     `nz` (ingredients of the n(z) formula).                             *)
(* With Focus = TRUE an operation must use the newest container and a      *)
(* history is only extended below a step that produced a container (or an  *)
(* array read from it: GetArray), i.e. the explored histories are the      *)
(* genuine compositions op_n(...op_1(x)).                                  *)
(* The driver (harness/containers.py, checks/c17.py, checks/c04.py)        *)
(* executes the same history on the real objects and compares, after each  *)
(* step, the result AND every older object of the workspace (operations    *)
(* are pure) with the TLC state.                                           *)
(*                                                                         *)
(* level  real class                         module                        *)
(*  PC    PatchedCounts                      correlation/paircounts.py     *)
(*  SW    PatchedSumWeights                  correlation/paircounts.py     *)
(*  NC    NormalisedCounts                   correlation/paircounts.py     *)
(*  CF    CorrFunc                           correlation/corrfunc.py       *)
(*  SD    SampledData                        correlation/corrdata.py       *)
(*  CD    CorrData (HistData, RedshiftData)  corrdata.py / redshifts.py    *)
(*                                                                         *)
(* action          code                                                    *)
(*  Add, AddVar    __add__ (PatchedCounts, NormalisedCounts, CorrFunc,     *)
(*                 SampledData) -> is_compatible(require=True)             *)
(*  IAdd, IAddVar  x = ws[i]; x += y  (no __iadd__ exists: Python falls    *)
(*                 back to __add__, x is rebound to a NEW container and    *)
(*                 both operands keep their value)                         *)
(*  Accumulate     t = 0; t += x; t += y  (the accumulation idiom; 0 + x   *)
(*                 is x itself, then as IAdd) - the result is the sum and  *)
(*                 x, y are unchanged                                      *)
(*  Sub, SubVar    SampledData.__sub__                                     *)
(*  LeftAdd (RAdd) __radd__ (0 + x, 1 + x, sum([x, y]))                    *)
(*  Mul            __mul__ (scalar classes incl. bool/None/str/container)  *)
(*  Eq, EqVar      __eq__                                                  *)
(*  IsCompat       is_compatible(other, require=...)                       *)
(*                 (utils/abc.py BinwiseData / PatchwiseData,              *)
(*                 BinwisePatchwiseArray, NormalisedCounts, CorrFunc,      *)
(*                 SampledData)                                            *)
(*  Bins           .bins[item]   -> _make_bin_slice, Binning.__getitem__   *)
(*  Patches        .patches[item]-> _make_patch_slice                      *)
(*                 item: a Python int (sel.t = "int"), a numpy integer     *)
(*                 scalar (sel.t = "npint": np.int64 / int32 / intp / an   *)
(*                 element of np.arange, e.g. the result of np.argmax) or  *)
(*                 a slice.  The TYPE of an index never matters: "npint"   *)
(*                 selects what "int" selects and is rejected when "int"   *)
(*                 is rejected.                                            *)
(*  IterBins/IterPatches  iteration over the Indexer (utils/abc.py)        *)
(*  PatchSum       sample_patch_sum (BinwisePatchwiseArray,                *)
(*                 PatchedSumWeights.get_array, NormalisedCounts)          *)
(*  GetArray       get_array() of PatchedCounts / PatchedSumWeights /      *)
(*                 NormalisedCounts, also reached through the members of   *)
(*                 a container: x.get_array(), x.counts.get_array(),       *)
(*                 x.sum_weights.get_array(), cf.dd.get_array(),           *)
(*                 cf.dd.counts.get_array(), ... (entry.var = "m.LV": the  *)
(*                 member m ("x" = the container itself) and the level LV  *)
(*                 whose accessor is called).  A pure read accessor: the   *)
(*                 result is an array (bin x patch x patch), the workspace *)
(*                 is unchanged and the history goes on with the SAME      *)
(*                 newest container (GetArray, then Sample ...).           *)
(*  SetPatchPair   PatchedCounts.set_patch_pair(p, q, counts_binned), on a *)
(*                 PatchedCounts, on x.counts of a NormalisedCounts, on    *)
(*                 cf.<member>.counts of a CorrFunc (entry.var = member,   *)
(*                 entry.sel = <<p, q, v>>: the new counts are v + bin     *)
(*                 number, v = 0: all zero).  The ONE operation that may   *)
(*                 change its operand: result kind `mut`, ws[i] is         *)
(*                 REPLACED by the updated value and every later           *)
(*                 observation (sums, samples, arrays, ==, selections) is  *)
(*                 the one of the updated value.  With Focus it applies to *)
(*                 the newest count container, also directly after that    *)
(*                 container was summed / sampled (PatchSum, Sample), and  *)
(*                 the history goes on with the updated container.         *)
(*  Sample         CorrFunc.sample: landy_szalay / davis_peebles           *)
(*  Redshift       RedshiftData.from_corrfuncs / from_corrdata             *)
(*  Normalise      HistData.normalised / RedshiftData.normalised           *)
(*  Construct      the constructors' shape validation                      *)
(*                                                                         *)
(* Numbers: counts are integers over a per-container denominator `den`     *)
(* (scalar multiplication by p/q), sums of weights are integers, sampled   *)
(* values are reduced rationals <<num, den>>; <<0, 0>> = undefined (0/0,   *)
(* x/0: the property prescribes nothing).  Bin edges are integers (the     *)
(* driver maps edge e to 0.5 + e).                                        *)
(* A scenario with zero = b > 0 has an EMPTY redshift bin b: no pairs and  *)
(* no weights there (count levels), an undefined value and undefined       *)
(* samples there (data levels): the real containers hold NaN in that bin.  *)
(*                                                                         *)
(* Deviations (the code as found; the ideal design is Deviations = {}):    *)
(*  "MulCountAttr"     NormalisedCounts.__mul__ reads self.count           *)
(*  "FancyPatchIndex"  PatchedCounts._make_patch_slice: counts[:,[i],[i]]  *)
(*  "AddPassesClosed"  SampledData.__add__/__sub__ pass closed=self.closed *)
(*  "AddDropsMembers"  CorrFunc.__add__ iterates over self's members only  *)
(*  "SwNdimChain"      PatchedSumWeights.__init__: a != b != 2             *)
(*  "NumpyIndexOnCounts" _make_bin_slice / _make_patch_slice of            *)
(*                     PatchedCounts and PatchedSumWeights (hence of       *)
(*                     NormalisedCounts, CorrFunc) restore the selected    *)
(*                     axis only for isinstance(item, int): a numpy        *)
(*                     integer index is rejected (ValueError / IndexError) *)
(* Hypothetical deviations (not in the code; they show that the C04 laws   *)
(* are not vacuous and are replayed like the others):                      *)
(*  "LsMixedTwice"        Landy-Szalay with RD counted twice, DR ignored   *)
(*  "HistNormBeforeWidth" histogram norm taken before the width correction *)
(*  "AddIgnoresWeights"   NormalisedCounts.__add__ checks binning and patch *)
(*                        number only: counts normalised by different sums *)
(*                        of weights are added (left normalisation kept)   *)
(*  "NcArrayPairwiseNorm" NormalisedCounts.get_array divides by the        *)
(*                        patch-pair weight products instead of the total  *)
(***************************************************************************)
EXTENDS Integers, Sequences, FiniteSets, TLC

CONSTANTS Scenarios,   \* set of [level, nb, np, auto, mem, seed, closed, zero]
          Ops,         \* enabled operations (names of the actions)
          MaxDepth,    \* length of the histories
          Focus,       \* TRUE: an operation uses the newest container
          SelSet,      \* "full" | "small": index/slice selections explored
          Stages,      \* <<>> or a sequence of sets of operations: step n of a history is taken from Stages[n]
          Deviations,
          Emit         \* TRUE: print every step for the replay driver

VARIABLES scen, ws, hist, res
vars == <<scen, ws, hist, res>>

NONE == 99     \* Python's None inside a slice

---------------------------------------------------------------------------
(* rationals *)
Abs(x) == IF x < 0 THEN -x ELSE x
Max(a, b) == IF a > b THEN a ELSE b
Min(a, b) == IF a < b THEN a ELSE b

RECURSIVE Gcd(_, _)
Gcd(a, b) == IF b = 0 THEN a ELSE Gcd(b, a % b)

Undef == <<0, 0>>
IsDef(r) == r[2] # 0
Norm(r) == IF r[2] = 0 THEN Undef
           ELSE LET g == Gcd(Abs(r[1]), Abs(r[2]))
                    s == IF r[2] < 0 THEN -1 ELSE 1
                IN  <<s * (r[1] \div g), s * (r[2] \div g)>>
RInt(n) == <<n, 1>>
RAdd(a, b) == IF ~IsDef(a) \/ ~IsDef(b) THEN Undef
              ELSE Norm(<<a[1] * b[2] + b[1] * a[2], a[2] * b[2]>>)
RNeg(a) == <<-a[1], a[2]>>
RSub(a, b) == RAdd(a, RNeg(b))
RMul(a, b) == IF ~IsDef(a) \/ ~IsDef(b) THEN Undef
              ELSE Norm(<<a[1] * b[1], a[2] * b[2]>>)
RDiv(a, b) == IF ~IsDef(a) \/ ~IsDef(b) \/ b[1] = 0 THEN Undef
              ELSE Norm(<<a[1] * b[2], a[2] * b[1]>>)
REq(a, b) == /\ IsDef(a) = IsDef(b)
             /\ a[1] * b[2] = b[1] * a[2]

RECURSIVE SumF(_, _)      \* f[1] + ... + f[n] (integers)
SumF(f, n) == IF n = 0 THEN 0 ELSE f[n] + SumF(f, n - 1)
RECURSIVE RSumF(_, _)     \* the same for rationals
RSumF(f, n) == IF n = 0 THEN RInt(0) ELSE RAdd(f[n], RSumF(f, n - 1))

---------------------------------------------------------------------------
(* values *)
Null == [k |-> "none", auto |-> FALSE, edges |-> <<>>, closed |-> "right",
         den |-> 1, parts |-> <<>>, data |-> <<>>, samples |-> <<>>]
Foreign(tag) == [Null EXCEPT !.k = tag]

CountLevels == {"PC", "NC", "CF"}         \* hold pair counts
PatchLevels == {"PC", "SW", "NC", "CF"}   \* PatchwiseData
DataLevels  == {"SD", "CD"}

NB(a) == Len(a.edges) - 1
FirstM(a) == IF "dd" \in DOMAIN a.parts THEN "dd" ELSE "x"
NP(a) == IF a.k \in DataLevels THEN Len(a.samples)
         ELSE IF a.k = "SW" THEN Len(a.parts[FirstM(a)].sw1[1])
         ELSE Len(a.parts[FirstM(a)].cnt[1])

MI(m) == CASE m = "x" -> 0 [] m = "dd" -> 0 [] m = "dr" -> 1
           [] m = "rd" -> 2 [] m = "rr" -> 3

(* deterministic, irregular small contents; seed 0 = all-zero counts *)
Mix(x) == ((x * x * 7 + x * 13 + 5) \div 11) % 97
CntVal(seed, mi, b, i, j, auto) ==
    IF seed = 0 \/ (auto /\ j < i) THEN 0
    ELSE Mix(seed * 131 + mi * 37 + b * 17 + i * 7 + j * 3) % 3
SwVal(seed, mi, side, b, i, auto) ==     \* an autocorrelation has one catalog only
    1 + (Mix(seed * 71 + mi * 29 + (IF auto THEN 1 ELSE side) * 11 + b * 5 + i * 3) % 2)
DVal(seed, k, b) == (Mix(seed * 53 + k * 19 + b * 7) % 7) - 2

BaseEdges(nb) == [k \in 1..(nb + 1) |-> ((k - 1) * k) \div 2]  \* 0 1 3 6 10

(* zero = b > 0: bin b is empty (no pairs, no weights; undefined sampled values) *)
MakePart(lv, nb, np, auto, seed, m, zero) ==
    [cnt |-> IF lv = "SW" THEN <<>>
             ELSE [b \in 1..nb |-> [i \in 1..np |-> [j \in 1..np |->
                      IF b = zero THEN 0 ELSE CntVal(seed, MI(m), b, i, j, auto)]]],
     sw1 |-> IF lv = "PC" THEN <<>>
             ELSE [b \in 1..nb |-> [i \in 1..np |->
                      IF b = zero THEN 0 ELSE SwVal(seed, MI(m), 1, b, i, auto)]],
     sw2 |-> IF lv = "PC" THEN <<>>
             ELSE [b \in 1..nb |-> [i \in 1..np |->
                      IF b = zero THEN 0 ELSE SwVal(seed, MI(m), 2, b, i, auto)]]]

MakeValue(lv, nb, np, auto, mem, seed, closed, zero) ==
    IF lv \in DataLevels
    THEN [k |-> lv, auto |-> FALSE, edges |-> BaseEdges(nb), closed |-> closed,
          den |-> 1, parts |-> <<>>,
          data |-> [b \in 1..nb |-> IF b = zero THEN Undef ELSE RInt(DVal(seed, 0, b))],
          samples |-> [s \in 1..np |-> [b \in 1..nb |->
                          IF b = zero THEN Undef ELSE RInt(DVal(seed, s, b))]]]
    ELSE [k |-> lv, auto |-> auto, edges |-> BaseEdges(nb), closed |-> closed,
          den |-> 1,
          parts |-> [m \in (IF lv = "CF" THEN {"dd"} \cup mem ELSE {"x"}) |->
                        MakePart(lv, nb, np, auto, seed, m, zero)],
          data |-> <<>>, samples |-> <<>>]

Base(s) == MakeValue(s.level, s.nb, s.np, s.auto, s.mem, s.seed, s.closed, s.zero)

---------------------------------------------------------------------------
(* results of an operation *)
RBase == [out |-> "init", v |-> Null, exc |-> {}, b |-> FALSE, items |-> <<>>, args |-> <<>>]
RVal(v)      == [RBase EXCEPT !.out = "val",  !.v = v]
RRej(E)      == [RBase EXCEPT !.out = "rej",  !.exc = E]
RBool(b)     == [RBase EXCEPT !.out = "bool", !.b = b]
RList(l)     == [RBase EXCEPT !.out = "list", !.items = l]
ROpen(v, E)  == [RBase EXCEPT !.out = "open", !.v = v, !.exc = E]
RAlts(l)     == [RBase EXCEPT !.out = "alts", !.v = l[1], !.items = l]
RNz(l)       == [RBase EXCEPT !.out = "nz",   !.items = l]
RArr(arr)    == [RBase EXCEPT !.out = "arr",  !.items = arr]   \* items[b][i][j]: rational
RMut(v)      == [RBase EXCEPT !.out = "mut",  !.v = v]         \* the operand itself now has value v
RInit        == RBase
(* the fresh operands an action creates are handed to the driver with the result *)
WithArgs(r, args) == [r EXCEPT !.args = args]

---------------------------------------------------------------------------
(* index / slice selections: Python semantics of x[i] and slice.indices    *)
NoSel == [t |-> "none", lo |-> 0, hi |-> 0, st |-> 0]
IntSel(i) == [t |-> "int", lo |-> i, hi |-> 0, st |-> 0]
NpSel(i) == [t |-> "npint", lo |-> i, hi |-> 0, st |-> 0]     \* numpy integer scalar
IsIdx(sel) == sel.t \in {"int", "npint"}
Slice(lo, hi, st) == [t |-> "slice", lo |-> lo, hi |-> hi, st |-> st]

Sels(n) ==
    IF SelSet = "small"
    THEN {IntSel(0), IntSel(-1), IntSel(n), Slice(NONE, NONE, NONE), Slice(1, NONE, NONE),
          Slice(NONE, -1, NONE), NpSel(0), NpSel(-1), NpSel(n)}
    ELSE {IntSel(i) : i \in (-n - 1)..n} \cup {NpSel(i) : i \in (-n - 1)..n}
         \cup {Slice(NONE, NONE, NONE), Slice(0, 1, NONE), Slice(1, NONE, NONE),
               Slice(NONE, -1, NONE), Slice(-1, NONE, NONE), Slice(NONE, NONE, 2),
               Slice(1, n + 2, NONE), Slice(1, 1, NONE), Slice(0, n, NONE),
               Slice(-2, NONE, NONE), Slice(1, NONE, 2)}

IntInRange(sel, n) == -n <= sel.lo /\ sel.lo < n

(* selected positions, 1-based *)
SelIdx(sel, n) ==
    IF IsIdx(sel)
    THEN <<(IF sel.lo < 0 THEN sel.lo + n ELSE sel.lo) + 1>>
    ELSE LET start == IF sel.lo = NONE THEN 0
                      ELSE IF sel.lo < 0 THEN Max(sel.lo + n, 0) ELSE Min(sel.lo, n)
             stop  == IF sel.hi = NONE THEN n
                      ELSE IF sel.hi < 0 THEN Max(sel.hi + n, 0) ELSE Min(sel.hi, n)
             step  == IF sel.st = NONE THEN 1 ELSE sel.st
             cnt   == IF stop <= start THEN 0 ELSE ((stop - start - 1) \div step) + 1
         IN  [k \in 1..cnt |-> start + (k - 1) * step + 1]

(* the sub-arrays "corresponding" to a selection *)
SelectBins(a, idx) ==
    LET n == Len(idx) IN
    [a EXCEPT
       !.edges = [k \in 1..(n + 1) |-> IF k <= n THEN a.edges[idx[k]]
                                       ELSE a.edges[idx[n] + 1]],
       !.parts = [m \in DOMAIN a.parts |->
                    [cnt |-> IF a.parts[m].cnt = <<>> THEN <<>>
                             ELSE [k \in 1..n |-> a.parts[m].cnt[idx[k]]],
                     sw1 |-> IF a.parts[m].sw1 = <<>> THEN <<>>
                             ELSE [k \in 1..n |-> a.parts[m].sw1[idx[k]]],
                     sw2 |-> IF a.parts[m].sw2 = <<>> THEN <<>>
                             ELSE [k \in 1..n |-> a.parts[m].sw2[idx[k]]]]],
       !.data = IF a.k \in DataLevels THEN [k \in 1..n |-> a.data[idx[k]]] ELSE <<>>,
       !.samples = IF a.k \in DataLevels
                   THEN [s \in 1..Len(a.samples) |-> [k \in 1..n |-> a.samples[s][idx[k]]]]
                   ELSE <<>>]

SelectPatches(a, idx) ==
    LET n == Len(idx) IN
    [a EXCEPT
       !.parts = [m \in DOMAIN a.parts |->
                    [cnt |-> IF a.parts[m].cnt = <<>> THEN <<>>
                             ELSE [b \in 1..NB(a) |-> [i \in 1..n |-> [j \in 1..n |->
                                      a.parts[m].cnt[b][idx[i]][idx[j]]]]],
                     sw1 |-> IF a.parts[m].sw1 = <<>> THEN <<>>
                             ELSE [b \in 1..NB(a) |-> [i \in 1..n |-> a.parts[m].sw1[b][idx[i]]]],
                     sw2 |-> IF a.parts[m].sw2 = <<>> THEN <<>>
                             ELSE [b \in 1..NB(a) |-> [i \in 1..n |-> a.parts[m].sw2[b][idx[i]]]]]]]

(* .bins[item] *)
BinsOf(a, sel) ==
    IF IsIdx(sel) /\ ~IntInRange(sel, NB(a)) THEN RRej({"IndexError"})
    ELSE IF sel.t = "npint" /\ a.k \in PatchLevels /\ "NumpyIndexOnCounts" \in Deviations
         THEN RRej({"ValueError", "IndexError"})
    ELSE LET idx == SelIdx(sel, NB(a)) IN
         IF Len(idx) = 0 THEN ROpen(Null, {"IndexError", "ValueError"})  \* no empty Binning exists
         ELSE RVal(SelectBins(a, idx))

(* .patches[item] *)
PatchesOf(a, sel) ==
    IF IsIdx(sel) /\ ~IntInRange(sel, NP(a)) THEN RRej({"IndexError"})
    ELSE IF sel.t = "npint" /\ "NumpyIndexOnCounts" \in Deviations
         THEN RRej({"ValueError", "IndexError"})
    ELSE IF IsIdx(sel) /\ a.k \in CountLevels /\ "FancyPatchIndex" \in Deviations
         THEN RRej({"ValueError"})
    ELSE LET idx == SelIdx(sel, NP(a)) IN
         IF Len(idx) = 0 THEN ROpen(SelectPatches(a, idx), {"IndexError", "ValueError"})
         ELSE RVal(SelectPatches(a, idx))

IterBinsOf(a) == RList([k \in 1..NB(a) |-> SelectBins(a, <<k>>)])
IterPatchesOf(a) ==
    IF a.k \in CountLevels /\ "FancyPatchIndex" \in Deviations THEN RRej({"ValueError"})
    ELSE RList([k \in 1..NP(a) |-> SelectPatches(a, <<k>>)])

---------------------------------------------------------------------------
(* structural equality, compatibility, addition, scalar multiplication *)

SameBinning(a, b) == a.edges = b.edges /\ a.closed = b.closed

PartEq(p, q, da, db) ==
    /\ p.sw1 = q.sw1 /\ p.sw2 = q.sw2
    /\ Len(p.cnt) = Len(q.cnt)
    /\ \A b \in 1..Len(p.cnt) :
         /\ Len(p.cnt[b]) = Len(q.cnt[b])
         /\ \A i \in 1..Len(p.cnt[b]) : \A j \in 1..Len(p.cnt[b]) :
               p.cnt[b][i][j] * db = q.cnt[b][i][j] * da

SeqREq(x, y) == Len(x) = Len(y) /\ \A k \in 1..Len(x) : REq(x[k], y[k])

StructEq(a, b) ==
    /\ a.k = b.k /\ a.auto = b.auto /\ SameBinning(a, b)
    /\ DOMAIN a.parts = DOMAIN b.parts
    /\ \A m \in DOMAIN a.parts : PartEq(a.parts[m], b.parts[m], a.den, b.den)
    /\ SeqREq(a.data, b.data)
    /\ Len(a.samples) = Len(b.samples)
    /\ \A s \in 1..Len(a.samples) : SeqREq(a.samples[s], b.samples[s])

IsContainer(a) == a.k \in {"PC", "SW", "NC", "CF", "SD", "CD"}

(* undefined sampled values (0/0 = nan, x/0 = inf) are not told apart by the
   model: equality is then only determined for one and the same object *)
AllDefined(a) == /\ \A k \in 1..Len(a.data) : IsDef(a.data[k])
                 /\ \A s \in 1..Len(a.samples) : \A k \in 1..Len(a.samples[s]) : IsDef(a.samples[s][k])

(* sampled values are floats in the code: two equal rationals computed along
   different routes need not be the same float unless they are integers *)
ExactData(a) == /\ \A k \in 1..Len(a.data) : a.data[k][2] = 1
                /\ \A s \in 1..Len(a.samples) : \A k \in 1..Len(a.samples[s]) : a.samples[s][k][2] = 1

(* x == y : never raises; foreign operands compare unequal; same: x is y *)
EqOfS(a, b, same) ==
    IF same THEN RBool(TRUE)
    ELSE IF IsContainer(b) /\ a.k = b.k /\ StructEq(a, b)
            /\ (~AllDefined(a) \/ ~AllDefined(b) \/ ~ExactData(a) \/ ~ExactData(b))
         THEN ROpen(Null, {})
    ELSE RBool(IsContainer(b) /\ StructEq(a, b))
EqOf(a, b) == EqOfS(a, b, FALSE)

SameType(a, b) == a.k = b.k
MixedData(a, b) == a.k # b.k /\ {a.k, b.k} = {"SD", "CD"}   \* CorrData is a SampledData

(* x.is_compatible(y, require=req): equal binning and patches (samples) *)
IsCompatOf(a, b, req) ==
    IF MixedData(a, b) THEN ROpen(Null, {"TypeError", "ValueError"})
    ELSE IF ~SameType(a, b) THEN (IF req THEN RRej({"TypeError"}) ELSE RBool(FALSE))
    ELSE IF ~SameBinning(a, b) \/ NP(a) # NP(b)
         THEN (IF req THEN RRej({"ValueError"}) ELSE RBool(FALSE))
    ELSE RBool(TRUE)

SameWeights(a, b) ==
    \A m \in (DOMAIN a.parts) \cap (DOMAIN b.parts) :
        a.parts[m].sw1 = b.parts[m].sw1 /\ a.parts[m].sw2 = b.parts[m].sw2

(* sign = 1: a + b, sign = -1: a - b (data levels only) *)
Combine(a, b, sign, mems) ==
    [a EXCEPT
       !.den = a.den * b.den,
       !.parts = [m \in mems |->
                    [a.parts[m] EXCEPT
                        !.cnt = IF a.parts[m].cnt = <<>> THEN <<>>
                                ELSE [bb \in 1..NB(a) |-> [i \in 1..NP(a) |-> [j \in 1..NP(a) |->
                                        a.parts[m].cnt[bb][i][j] * b.den
                                        + sign * b.parts[m].cnt[bb][i][j] * a.den]]]]],
       !.data = [k \in 1..Len(a.data) |->
                    IF sign = 1 THEN RAdd(a.data[k], b.data[k]) ELSE RSub(a.data[k], b.data[k])],
       !.samples = [s \in 1..Len(a.samples) |-> [k \in 1..Len(a.data) |->
                    IF sign = 1 THEN RAdd(a.samples[s][k], b.samples[s][k])
                    ELSE RSub(a.samples[s][k], b.samples[s][k])]]]

AddOf(a, b, sign) ==
    IF MixedData(a, b) THEN ROpen(Null, {"TypeError", "ValueError"})
    ELSE IF ~SameType(a, b) THEN RRej({"TypeError"})
    ELSE IF a.k = "SW" THEN RRej({"TypeError"})            \* no __add__
    ELSE IF ~SameBinning(a, b) \/ NP(a) # NP(b) THEN RRej({"ValueError"})
    ELSE IF a.k \in DataLevels
         THEN (IF "AddPassesClosed" \in Deviations THEN RRej({"AttributeError"})
               ELSE RVal(Combine(a, b, sign, {})))
    ELSE IF DOMAIN a.parts # DOMAIN b.parts
         THEN (IF "AddDropsMembers" \in Deviations /\ (DOMAIN a.parts) \subseteq (DOMAIN b.parts)
                   /\ SameWeights(a, b)
               THEN RVal(Combine(a, b, 1, DOMAIN a.parts))
               ELSE RRej({"TypeError", "ValueError"}))
    ELSE IF ~SameWeights(a, b)   \* "'sum_weights' must be identical for operation": pair counts that are
         THEN (IF "AddIgnoresWeights" \in Deviations                \* normalised differently cannot be added
               THEN RVal(Combine(a, b, 1, DOMAIN a.parts)) ELSE RRej({"ValueError"}))
    ELSE RVal(Combine(a, b, 1, DOMAIN a.parts))

(* scalars: cls = Python class of the operand, value num/den *)
Scalar(cls, n, d) == [cls |-> cls, num |-> n, den |-> d]
NoScalar == Scalar("none", 0, 1)
ValidScalarClasses == {"int", "float", "npfloat", "npint"}
Scalars == {Scalar("int", 0, 1), Scalar("int", 2, 1), Scalar("int", 3, 1), Scalar("int", -1, 1),
            Scalar("float", 1, 2), Scalar("float", 2, 1), Scalar("npfloat", 3, 2),
            Scalar("npint", 2, 1), Scalar("int", 1, 1),
            Scalar("bool", 1, 1), Scalar("none", 0, 1), Scalar("str", 0, 1), Scalar("self", 0, 1)}

Scale(a, sc) ==
    [a EXCEPT
       !.den = a.den * sc.den,
       !.parts = [m \in DOMAIN a.parts |->
                    [a.parts[m] EXCEPT
                        !.cnt = [bb \in 1..NB(a) |-> [i \in 1..NP(a) |-> [j \in 1..NP(a) |->
                                    a.parts[m].cnt[bb][i][j] * sc.num]]]]]]

MulOf(a, sc) ==
    IF a.k \in {"NC", "CF"} /\ "MulCountAttr" \in Deviations THEN RRej({"AttributeError"})
    ELSE IF sc.cls \notin ValidScalarClasses THEN RRej({"TypeError"})
    ELSE RVal(Scale(a, sc))

(* other + x for a non-container left operand: 0 + x = x, anything else is rejected *)
RAddOf(a, left) ==
    IF left = 0 THEN RVal(a) ELSE RRej({"TypeError"})

---------------------------------------------------------------------------
(* summation over patches and leave-one-patch-out samples *)

Tot(arr, P) == SumF([i \in 1..P |-> SumF(arr[i], P)], P)                 \* sum_ij arr[i][j]
TotWithout(arr, P, k) ==                                                  \* i # k, j # k
    SumF([i \in 1..P |-> IF i = k THEN 0
                         ELSE SumF([j \in 1..P |-> IF j = k THEN 0 ELSE arr[i][j]], P)], P)
(* the code's shortcut: total - row k - column k + diagonal element *)
TotTrick(arr, P, k) ==
    Tot(arr, P) - SumF(arr[k], P) - SumF([i \in 1..P |-> arr[i][k]], P) + arr[k][k]

(* PatchedSumWeights.get_array, times 2 for an autocorrelation (integers) *)
SwArray(p, auto, b, P) ==
    [i \in 1..P |-> [j \in 1..P |->
        IF auto THEN (IF j < i THEN 0 ELSE IF i = j THEN p.sw1[b][i] * p.sw2[b][j]
                      ELSE 2 * p.sw1[b][i] * p.sw2[b][j])
        ELSE p.sw1[b][i] * p.sw2[b][j]]]
SwDen(auto) == IF auto THEN 2 ELSE 1

(* the property's normaliser: product of the total weights, half the squared
   total for an autocorrelation (k = 0: all patches, else patch k left out) *)
WTot(w, P, k) == SumF([i \in 1..P |-> IF i = k THEN 0 ELSE w[i]], P)
NormaliserLawValue(p, auto, b, P, k) ==
    IF auto THEN <<WTot(p.sw1[b], P, k) * WTot(p.sw1[b], P, k), 2>>
    ELSE <<WTot(p.sw1[b], P, k) * WTot(p.sw2[b], P, k), 1>>

(* sample_patch_sum of one part: <<data, samples>> of rationals *)
CountSum(a, m, b, k) ==
    IF k = 0 THEN Tot(a.parts[m].cnt[b], NP(a)) ELSE TotWithout(a.parts[m].cnt[b], NP(a), k)
WeightSum(a, m, b, k) ==
    IF k = 0 THEN Tot(SwArray(a.parts[m], a.auto, b, NP(a)), NP(a))
    ELSE TotWithout(SwArray(a.parts[m], a.auto, b, NP(a)), NP(a), k)

PartValue(a, m, b, k) ==       \* k = 0: all patches; k > 0: without patch k
    CASE a.k = "PC" -> Norm(<<CountSum(a, m, b, k), a.den>>)
      [] a.k = "SW" -> Norm(<<WeightSum(a, m, b, k), SwDen(a.auto)>>)
      [] OTHER      -> Norm(<<CountSum(a, m, b, k) * SwDen(a.auto),
                               a.den * WeightSum(a, m, b, k)>>)

Sampled(a, kind, f(_, _)) ==   \* f(b, k)
    [Null EXCEPT !.k = kind, !.edges = a.edges, !.closed = a.closed,
                 !.data = [b \in 1..NB(a) |-> f(b, 0)],
                 !.samples = [k \in 1..NP(a) |-> [b \in 1..NB(a) |-> f(b, k)]]]

PatchSumOf(a) == RVal(Sampled(a, "SD", LAMBDA b, k : PartValue(a, FirstM(a), b, k)))

(* get_array() of the level lv of member m (bin x patch x patch, rationals):
     PC  the pair counts;
     SW  "the product of the sum from patch i from catalog 1 and patch j from
         catalog 2" (autocorrelation: upper triangle, diagonal halved);
     NC  the pair counts divided by the normalisation of the bin, which "is
         computed from all patches and not per patch" (docstring of
         NormalisedCounts.get_array), i.e. by the total of the SW array;
         undefined where that total is 0 (an empty bin)                        *)
ArrOf(a, m, lv) ==
    LET p == a.parts[m]  P == NP(a) IN
    [b \in 1..NB(a) |-> [i \in 1..P |-> [j \in 1..P |->
        CASE lv = "PC" -> Norm(<<p.cnt[b][i][j], a.den>>)
          [] lv = "SW" -> Norm(<<SwArray(p, a.auto, b, P)[i][j], SwDen(a.auto)>>)
          [] OTHER ->
               IF "NcArrayPairwiseNorm" \in Deviations     \* hypothetical, see below
               THEN Norm(<<p.cnt[b][i][j] * SwDen(a.auto), a.den * SwArray(p, a.auto, b, P)[i][j]>>)
               ELSE Norm(<<p.cnt[b][i][j] * SwDen(a.auto), a.den * WeightSum(a, m, b, 0)>>)]]]
GetArrayOf(a, m, lv) == RArr(ArrOf(a, m, lv))

(* the accessors that exist on a container: <<member, level>> *)
GaTargets(a) ==
    CASE a.k = "CF" -> {<<m, lv>> : m \in DOMAIN a.parts, lv \in {"NC", "PC", "SW"}}
      [] a.k = "NC" -> {<<"x", lv>> : lv \in {"NC", "PC", "SW"}}
      [] a.k \in {"PC", "SW"} -> {<<"x", a.k>>}
      [] OTHER -> {}
(* sum_ij arr[i][j] without row/column k (k = 0: everything), rationals *)
RTot(arr, P, k) ==
    RSumF([i \in 1..P |-> IF i = k THEN RInt(0)
                          ELSE RSumF([j \in 1..P |-> IF j = k THEN RInt(0) ELSE arr[i][j]], P)], P)

(* estimators on the normalised totals *)
LS(dd, dr, rd, rr) == RDiv(RAdd(RSub(RSub(dd, dr), rd), rr), rr)
DP(dd, mixed) == RSub(RDiv(dd, mixed), RInt(1))

SampleWith(a, est(_, _)) == Sampled(a, "CD", est)

SampleOf(a) ==
    LET M == DOMAIN a.parts
        V(m, b, k) == PartValue([a EXCEPT !.k = "NC"], m, b, k)
    IN
    IF "rr" \in M
    THEN IF "dr" \in M
         THEN RVal(SampleWith(a, LAMBDA b, k :
                    LS(V("dd", b, k),
                       V(IF "rd" \in M /\ "LsMixedTwice" \in Deviations THEN "rd" ELSE "dr", b, k),
                       V(IF "rd" \in M THEN "rd" ELSE "dr", b, k), V("rr", b, k))))
         ELSE IF "rd" \in M  \* no formula prescribed: rejection or the symmetric substitution
         THEN ROpen(SampleWith(a, LAMBDA b, k :
                    LS(V("dd", b, k), V("rd", b, k), V("rd", b, k), V("rr", b, k))),
                    {"TypeError", "EstimatorError"})
         ELSE ROpen(Null, {"TypeError", "EstimatorError"})
    ELSE IF "dr" \in M /\ "rd" \in M   \* DD/DR-1 or DD/RD-1: both admissible
         THEN RAlts(<<SampleWith(a, LAMBDA b, k : DP(V("dd", b, k), V("rd", b, k))),
                      SampleWith(a, LAMBDA b, k : DP(V("dd", b, k), V("dr", b, k)))>>)
    ELSE IF "dr" \in M THEN RVal(SampleWith(a, LAMBDA b, k : DP(V("dd", b, k), V("dr", b, k))))
    ELSE RVal(SampleWith(a, LAMBDA b, k : DP(V("dd", b, k), V("rd", b, k))))

(* n(z) = w_sp / sqrt(dz^2 w_ss w_pp): the spec fixes WHICH numbers enter
   for the value and for every jackknife sample (the same bin width, the
   same sample index, an absent autocorrelation = 1); the irrational value
   is evaluated by the driver from these exact rationals *)
Ones(a) == [Null EXCEPT !.k = "CD", !.edges = a.edges, !.closed = a.closed,
               !.data = [b \in 1..NB(a) |-> RInt(1)],
               !.samples = [k \in 1..NP(a) |-> [b \in 1..NB(a) |-> RInt(1)]]]

RedshiftCDOf(cross, ref, unk) ==     \* ref/unk: CD values or Null (absent)
    IF (ref.k # "none" /\ (~SameBinning(ref, cross) \/ NP(ref) # NP(cross)))
       \/ (unk.k # "none" /\ (~SameBinning(unk, cross) \/ NP(unk) # NP(cross)))
    THEN RRej({"ValueError"})
    ELSE RNz(<<cross, IF ref.k = "none" THEN Ones(cross) ELSE ref,
               IF unk.k = "none" THEN Ones(cross) ELSE unk>>)

(* normalised(): integral over the binning = 1.  cls = "nz": data / sum(dz data);
   cls = "hist": density data / (dz sum(data)).  Edge units: dz = edge difference *)
Dz(a, b) == a.edges[b + 1] - a.edges[b]
NormaliseOf(a, cls) ==
    LET nb == NB(a)
        norm == IF cls = "nz" THEN RSumF([b \in 1..nb |-> RMul(RInt(Dz(a, b)), a.data[b])], nb)
                ELSE IF "HistNormBeforeWidth" \in Deviations   \* hypothetical, see below
                THEN RDiv(RMul(RInt(nb), RSumF([b \in 1..nb |-> RMul(RInt(Dz(a, b)), a.data[b])], nb)),
                          RInt(a.edges[nb + 1] - a.edges[1]))
                ELSE RSumF(a.data, nb)
        f(x, b) == IF cls = "nz" THEN RDiv(x, norm) ELSE RDiv(x, RMul(RInt(Dz(a, b)), norm))
    IN  IF ~IsDef(norm) \/ norm[1] = 0 THEN ROpen(Null, {})
        ELSE RVal([a EXCEPT !.data = [b \in 1..nb |-> f(a.data[b], b)],
                            !.samples = [s \in 1..Len(a.samples) |-> [b \in 1..nb |->
                                            f(a.samples[s][b], b)]]])
Integral(a) == RSumF([b \in 1..NB(a) |-> RMul(RInt(Dz(a, b)), a.data[b])], NB(a))

---------------------------------------------------------------------------
(* fresh second operands derived from a container (built by the driver
   through the public constructors) *)
VariantOf(a, var) ==
    CASE var = "copy"   -> a
      [] var = "fresh"  -> a     \* an equal container built anew through the constructors (not a copy of the object)
      [] var = "counts" ->
            IF a.k \in DataLevels THEN [a EXCEPT !.data[1] = RAdd(@, RInt(1))]
            ELSE IF a.k = "SW" THEN [a EXCEPT !.parts[FirstM(a)].sw1[1][1] = @ + 1]
            ELSE [a EXCEPT !.parts[FirstM(a)].cnt[1][1][1] = @ + a.den]
      [] var = "samples" -> [a EXCEPT !.samples[1][1] = RAdd(@, RInt(1))]
      [] var = "edges"  -> [a EXCEPT !.edges[Len(a.edges)] = @ + 1]
      [] var = "closed" -> [a EXCEPT !.closed = IF @ = "right" THEN "left" ELSE "right"]
      [] var = "auto"   -> [a EXCEPT !.auto = ~@]
      [] var = "nbins"  ->   \* one more bin (a copy of the last one)
            LET n == NB(a) idx == [k \in 1..(n + 1) |-> IF k <= n THEN k ELSE n]
                v == SelectBins(a, idx)
            IN  [v EXCEPT !.edges = [k \in 1..(n + 2) |-> IF k <= n + 1 THEN a.edges[k]
                                                          ELSE a.edges[n + 1] + 1]]
      [] var = "npatch" ->   \* one more patch / jackknife sample (copy of the last)
            IF a.k \in DataLevels THEN [a EXCEPT !.samples = Append(@, @[Len(@)])]
            ELSE SelectPatches(a, [k \in 1..(NP(a) + 1) |-> IF k <= NP(a) THEN k ELSE NP(a)])
      [] var = "npatch1" -> \* a single patch / sample
            IF a.k \in DataLevels THEN [a EXCEPT !.samples = <<@[1]>>]
            ELSE SelectPatches(a, <<1>>)
      [] var = "sw"     -> [a EXCEPT !.parts[FirstM(a)].sw1[1][1] = @ + 1]
      [] var = "othersw" ->  \* another measurement on the same bins and patches: every member has
                             \* other pair counts AND other sums of weights
            [a EXCEPT !.parts = [m \in DOMAIN a.parts |->
                [cnt |-> [b \in 1..NB(a) |-> [i \in 1..NP(a) |-> [j \in 1..NP(a) |->
                            a.parts[m].cnt[b][i][j]
                            + (IF a.auto /\ j < i THEN 0 ELSE a.den * ((b + i + 2 * j + MI(m)) % 3))]]],
                 sw1 |-> [b \in 1..NB(a) |-> [i \in 1..NP(a) |-> a.parts[m].sw1[b][i] + 1 + ((b + i) % 2)]],
                 sw2 |-> [b \in 1..NB(a) |-> [i \in 1..NP(a) |->
                            a.parts[m].sw2[b][i] + (IF a.auto THEN 1 + ((b + i) % 2) ELSE (i % 2))]]]]]
      [] var = "mem+"   ->
            LET miss == {"dr", "rd", "rr"} \ DOMAIN a.parts
                new  == CHOOSE m \in miss : \A o \in miss : MI(m) <= MI(o)
            IN  [a EXCEPT !.parts = [m \in (DOMAIN a.parts) \cup {new} |->
                                        IF m = new THEN a.parts["dd"] ELSE a.parts[m]]]
      [] var = "mem-"   ->
            LET opt == (DOMAIN a.parts) \ {"dd"}
                del == CHOOSE m \in opt : \A o \in opt : MI(m) >= MI(o)
            IN  [a EXCEPT !.parts = [m \in (DOMAIN a.parts) \ {del} |-> a.parts[m]]]
      [] var = "type"   -> Foreign("othertype")  \* an instance of another container class
      [] var = "int1"   -> Foreign("int1")
      [] var = "pynone" -> Foreign("pynone")

VariantsFor(a) ==
    {"copy", "counts", "edges", "nbins", "npatch", "type", "int1", "pynone"}
    \cup (IF NP(a) # 1 THEN {"npatch1"} ELSE {})
    \cup (IF a.k \in {"NC", "CF"} THEN {"sw", "othersw"} ELSE {})
    \cup (IF a.k \in DataLevels THEN {"samples"} ELSE {})
    \cup (IF a.k = "CF" /\ (DOMAIN a.parts) # {"dd", "dr", "rd", "rr"} THEN {"mem+"} ELSE {})
    \cup (IF a.k = "CF" /\ Cardinality(DOMAIN a.parts) > 2 THEN {"mem-"} ELSE {})
EqVariantsFor(a) == (VariantsFor(a) \cup {"closed", "auto"} \cup (IF a.k \in PatchLevels THEN {"fresh"} ELSE {}))
                    \ (IF a.k \in DataLevels THEN {"auto"} ELSE {})

(* constructor shape classes: TRUE = must be accepted *)
ShapeClasses(lv) ==
    CASE lv = "PC" -> {"ok", "ndim2", "ndim4", "nbins", "nonsquare"}
      [] lv = "SW" -> {"ok", "ndim1", "ndim3", "ndimmixed", "shapes", "nbins"}
      [] lv = "NC" -> {"ok", "npatch", "nbins"}
      [] lv = "CF" -> {"ok", "npatch", "edges", "nooptional"}
      [] lv = "SD" -> {"ok", "datashape", "samplesndim", "samplesbins"}
      [] lv = "CD" -> {"ok", "datashape", "samplesndim", "samplesbins"}
ConstructOf(a, cls) ==
    IF cls = "ok" THEN RVal(a)
    ELSE IF a.k = "SW" /\ cls \in {"ndim1", "ndim3"} /\ "SwNdimChain" \in Deviations
         THEN ROpen(Null, {})
    ELSE RRej({IF cls = "nooptional" THEN "EstimatorError" ELSE "ValueError"})

---------------------------------------------------------------------------
(* the state machine *)

HEntryM(op, i, j, var, sel, sc, req, rmem, umem) ==
    [op |-> op, i |-> i, j |-> j, var |-> var, sel |-> sel, sc |-> sc, req |-> req,
     rmem |-> rmem, umem |-> umem]
HEntry(op, i, j, var, sel, sc, req) == HEntryM(op, i, j, var, sel, sc, req, {}, {})

Init == /\ scen \in Scenarios
        /\ ws = <<Base(scen)>>
        /\ hist = <<>>
        /\ res = RInit

(* with Focus a history is only extended below a step that produced a container
   (nothing new can be learnt after a bool / rejection: purity is checked at once)
   or handed out an array of the newest container (GetArray: the caller holds a
   view of the container's numbers; what follows uses the same container) *)
Extendable == ~Focus \/ hist = <<>> \/ res.out \in {"val", "alts", "arr", "mut"}

Step(entry, r) ==
    /\ Len(hist) < MaxDepth /\ Extendable
    /\ entry.op \in Ops
    /\ (Stages # <<>> => Len(hist) < Len(Stages) /\ entry.op \in Stages[Len(hist) + 1])
    /\ hist' = Append(hist, entry)
    /\ res' = r
    /\ ws' = IF r.out \in {"val", "alts"} THEN Append(ws, r.v)
             ELSE IF r.out = "mut" THEN [ws EXCEPT ![entry.i] = r.v] ELSE ws
    /\ UNCHANGED scen

(* the container the history goes on with: the one just produced, or the one just updated in place *)
Newest == IF hist # <<>> /\ res.out = "mut" THEN hist[Len(hist)].i ELSE Len(ws)
Focused(i, j) == ~Focus \/ i = Newest \/ j = Newest
Idx == 1..Len(ws)

Add(i, j)  == /\ Focused(i, j) /\ ws[i].k # "SW"
              /\ Step(HEntry("Add", i, j, "", NoSel, NoScalar, FALSE), AddOf(ws[i], ws[j], 1))
Sub(i, j)  == /\ Focused(i, j) /\ ws[i].k \in DataLevels
              /\ Step(HEntry("Sub", i, j, "", NoSel, NoScalar, FALSE), AddOf(ws[i], ws[j], -1))
(* x = ws[i]; x += ws[j]: the value of x afterwards *)
IAdd(i, j) == /\ Focused(i, j) /\ ws[i].k # "SW"
              /\ Step(HEntry("IAdd", i, j, "", NoSel, NoScalar, FALSE), AddOf(ws[i], ws[j], 1))
IAddVars == {"counts", "samples", "edges", "npatch", "othersw", "type"}
IAddVar(i, var) ==
    /\ Focused(i, i) /\ ws[i].k # "SW" /\ var \in VariantsFor(ws[i]) \cap IAddVars
    /\ Step(HEntry("IAddVar", i, 0, var, NoSel, NoScalar, FALSE),
            WithArgs(AddOf(ws[i], VariantOf(ws[i], var), 1), <<VariantOf(ws[i], var)>>))
(* t = 0; t += ws[i]; t += y with y = ws[j] (j > 0) or a fresh variant of ws[i] *)
AccVars == {"counts", "othersw", "npatch"}
Accumulate(i, j, var) ==
    /\ Focused(i, IF j = 0 THEN i ELSE j) /\ ws[i].k \in {"PC", "NC"}
    /\ (j = 0) # (var = "")
    /\ (j = 0 => var \in VariantsFor(ws[i]) \cap AccVars)
    /\ Step(HEntry("Accumulate", i, j, var, NoSel, NoScalar, FALSE),
            IF j # 0 THEN AddOf(ws[i], ws[j], 1)
            ELSE WithArgs(AddOf(ws[i], VariantOf(ws[i], var), 1), <<VariantOf(ws[i], var)>>))
(* rev: the fresh variant is the LEFT operand *)
AddVar(i, var, rev) ==
    /\ Focused(i, i) /\ ws[i].k # "SW" /\ var \in VariantsFor(ws[i])
    /\ (rev => var \notin {"type", "int1", "pynone"})
    /\ Step(HEntry("AddVar", i, 0, var, NoSel, NoScalar, rev),
            WithArgs(IF rev THEN AddOf(VariantOf(ws[i], var), ws[i], 1)
                     ELSE AddOf(ws[i], VariantOf(ws[i], var), 1), <<VariantOf(ws[i], var)>>))
SubVar(i, var) ==
    /\ Focused(i, i) /\ ws[i].k \in DataLevels /\ var \in VariantsFor(ws[i])
    /\ Step(HEntry("SubVar", i, 0, var, NoSel, NoScalar, FALSE),
            WithArgs(AddOf(ws[i], VariantOf(ws[i], var), -1), <<VariantOf(ws[i], var)>>))
(* left + x with left in {0, 1}; j > 0: sum([x, y]) = (0 + x) + y *)
LeftAdd(i, left, j) ==
    /\ Focused(i, j) /\ ws[i].k \in {"PC", "NC"}
    /\ (j # 0 => left = 0)
    /\ Step(HEntry("RAdd", i, j, "", IntSel(left), NoScalar, FALSE),
            IF j = 0 THEN RAddOf(ws[i], left) ELSE AddOf(ws[i], ws[j], 1))
(* sum([x, y]) with a fresh second operand y (a variant of x) *)
SumVar(i, var) ==
    /\ Focused(i, i) /\ ws[i].k \in {"PC", "NC"} /\ var \in VariantsFor(ws[i]) \cap {"copy", "counts", "sw", "othersw", "npatch"}
    /\ Step(HEntry("RAdd", i, 0, var, IntSel(0), NoScalar, FALSE),
            WithArgs(AddOf(ws[i], VariantOf(ws[i], var), 1), <<VariantOf(ws[i], var)>>))
Mul(i, sc) ==
    /\ Focused(i, i) /\ ws[i].k \in CountLevels
    /\ Step(HEntry("Mul", i, 0, "", NoSel, sc, FALSE), MulOf(ws[i], sc))
Eq(i, j) ==
    /\ Focused(i, j)
    /\ Step(HEntry("Eq", i, j, "", NoSel, NoScalar, FALSE), EqOfS(ws[i], ws[j], i = j))
(* var = "copy": a structurally identical second object (the driver deep-copies the
   real one: the very same floats, undefined ones included) must compare equal *)
EqVarOf(a, var) == IF var = "copy" THEN EqOfS(a, a, TRUE) ELSE EqOf(a, VariantOf(a, var))
EqVar(i, var) ==
    /\ Focused(i, i) /\ var \in EqVariantsFor(ws[i])
    /\ Step(HEntry("EqVar", i, 0, var, NoSel, NoScalar, FALSE),
            WithArgs(EqVarOf(ws[i], var), <<VariantOf(ws[i], var)>>))
IsCompat(i, j, req) ==
    /\ Focused(i, j)
    /\ Step(HEntry("IsCompat", i, j, "", NoSel, NoScalar, req), IsCompatOf(ws[i], ws[j], req))
IsCompatVar(i, var, req) ==
    /\ Focused(i, i) /\ var \in VariantsFor(ws[i]) \ {"int1", "pynone"}
    /\ Step(HEntry("IsCompatVar", i, 0, var, NoSel, NoScalar, req),
            WithArgs(IsCompatOf(ws[i], VariantOf(ws[i], var), req), <<VariantOf(ws[i], var)>>))
Bins(i, sel) ==
    /\ Focused(i, i) /\ sel \in Sels(NB(ws[i]))
    /\ Step(HEntry("Bins", i, 0, "", sel, NoScalar, FALSE), BinsOf(ws[i], sel))
Patches(i, sel) ==
    /\ Focused(i, i) /\ ws[i].k \in PatchLevels /\ sel \in Sels(NP(ws[i]))
    /\ Step(HEntry("Patches", i, 0, "", sel, NoScalar, FALSE), PatchesOf(ws[i], sel))
IterBins(i) ==
    /\ Focused(i, i)
    /\ Step(HEntry("IterBins", i, 0, "", NoSel, NoScalar, FALSE), IterBinsOf(ws[i]))
IterPatches(i) ==
    /\ Focused(i, i) /\ ws[i].k \in PatchLevels
    /\ Step(HEntry("IterPatches", i, 0, "", NoSel, NoScalar, FALSE), IterPatchesOf(ws[i]))
PatchSum(i) ==
    /\ Focused(i, i) /\ ws[i].k \in {"PC", "SW", "NC"}
    /\ Step(HEntry("PatchSum", i, 0, "", NoSel, NoScalar, FALSE), PatchSumOf(ws[i]))
(* set_patch_pair(p, q, counts_binned) on the PatchedCounts of member m; indices 1-based here *)
PairValue(v, b) == IF v = 0 THEN 0 ELSE v + b
SetPatchPairOf(a, m, p, q, v) ==
    RMut([a EXCEPT !.parts[m].cnt = [b \in 1..NB(a) |-> [i \in 1..NP(a) |-> [j \in 1..NP(a) |->
             IF i = p /\ j = q THEN a.den * PairValue(v, b) ELSE a.parts[m].cnt[b][i][j]]]]])
(* members whose counts are edited: the container itself, dd and the last member of a CorrFunc *)
(* (the generic quick-tier runs - small selections, no Stages - edit one pair of the first member only) *)
FewEdits == SelSet = "small" /\ Stages = <<>>
MutMembers(a) == IF a.k = "CF"
                 THEN {"dd"} \cup (IF FewEdits THEN {}
                                  ELSE {CHOOSE m \in DOMAIN a.parts : \A o \in DOMAIN a.parts : MI(m) >= MI(o)})
                 ELSE {"x"}
(* <<p, q, v>>: the lower triangle of an autocorrelation is never filled *)
MutTargets(a) == IF FewEdits THEN {<<1, NP(a), 3>>}
                 ELSE {<<1, NP(a), 3>>, <<1, 1, 0>>} \cup (IF a.auto THEN {} ELSE {<<NP(a), 1, 3>>})
(* `0 + x` IS x (NormalisedCounts / PatchedCounts.__radd__ return self): two workspace
   entries are then one object; such workspaces are not edited in place *)
NoAlias == \A k \in 1..Len(hist) : ~(hist[k].op = "RAdd" /\ hist[k].j = 0 /\ hist[k].var = "")
FocusedMut(i) ==
    \/ ~Focus \/ i = Newest
    \/ /\ hist # <<>> /\ res.out \in {"val", "alts"}
       /\ hist[Len(hist)].op \in {"PatchSum", "Sample"} /\ hist[Len(hist)].i = i
SetPatchPair(i, m, t) ==
    /\ FocusedMut(i) /\ NoAlias /\ ws[i].k \in CountLevels
    /\ m \in MutMembers(ws[i]) /\ t \in MutTargets(ws[i])
    /\ Step(HEntry("SetPatchPair", i, 0, m, [t |-> "pair", lo |-> t[1], hi |-> t[2], st |-> t[3]], NoScalar, FALSE),
            SetPatchPairOf(ws[i], m, t[1], t[2], t[3]))
(* entry.var = "m.LV", e.g. "x.PC", "x.SW", "dd.NC", "rr.SW" *)
GetArray(i, m, lv) ==
    /\ Focused(i, i) /\ ws[i].k \in PatchLevels /\ <<m, lv>> \in GaTargets(ws[i])
    /\ Step(HEntry("GetArray", i, 0, m \o "." \o lv, NoSel, NoScalar, FALSE), GetArrayOf(ws[i], m, lv))
Sample(i) ==
    /\ Focused(i, i) /\ ws[i].k = "CF"
    /\ Step(HEntry("Sample", i, 0, "", NoSel, NoScalar, FALSE), SampleOf(ws[i]))

(* RedshiftData.from_corrfuncs(cross, ref, unk): ref/unk are autocorrelation
   CorrFuncs of the shape of cross (contents: seed + 1 / + 2, members rmem / umem:
   {} = absent); the result is the n(z) ingredient triple of the three samples *)
AutoCF(a, seed, mem) == [MakeValue("CF", NB(a), NP(a), TRUE, mem, seed, a.closed, 0) EXCEPT !.edges = a.edges]
SampleOrNull(mem, cf) == IF mem = {} THEN RVal(Null) ELSE SampleOf(cf)
RedshiftCFOf(cross, s, rmem, umem) ==
    LET sc == SampleOf(cross)
        sr == SampleOrNull(rmem, AutoCF(cross, s.seed + 1, rmem))
        su == SampleOrNull(umem, AutoCF(cross, s.seed + 2, umem))
    IN  IF sc.out \in {"open"} \/ sr.out \in {"open"} \/ su.out \in {"open"}
        THEN ROpen(Null, {"TypeError", "EstimatorError"})
        ELSE IF sc.out = "alts"   \* DD/DR-1 or DD/RD-1: a 4th item = the other admissible w_sp
        THEN LET r == RedshiftCDOf(sc.v, sr.v, su.v) IN
             IF r.out = "nz" THEN RNz(Append(r.items, sc.items[2])) ELSE r
        ELSE RedshiftCDOf(sc.v, sr.v, su.v)
AutoMems == {{}, {"dr"}, {"dr", "rr"}}
RedshiftCF(i, rmem, umem) ==
    /\ Focused(i, i) /\ ws[i].k = "CF" /\ rmem \in AutoMems /\ umem \in AutoMems
    /\ Step(HEntryM("RedshiftCF", i, 0, "", NoSel, NoScalar, FALSE, rmem, umem),
            WithArgs(RedshiftCFOf(ws[i], scen, rmem, umem),
                     <<IF rmem = {} THEN Null ELSE AutoCF(ws[i], scen.seed + 1, rmem),
                       IF umem = {} THEN Null ELSE AutoCF(ws[i], scen.seed + 2, umem)>>))
(* RedshiftData.from_corrdata(ws[i], ref, unk) on data containers: j, l index ws (0 = absent)
   or a variant that must be rejected *)
RedshiftCD(i, j, l) ==
    /\ Focused(i, i) /\ ws[i].k = "CD"
    /\ (j # 0 => ws[j].k = "CD") /\ (l # 0 => ws[l].k = "CD")
    /\ Step(HEntry("RedshiftCD", i, j, "", IntSel(l), NoScalar, FALSE),
            RedshiftCDOf(ws[i], IF j = 0 THEN Null ELSE ws[j], IF l = 0 THEN Null ELSE ws[l]))
RedshiftCDVar(i, var) ==
    /\ Focused(i, i) /\ ws[i].k = "CD" /\ var \in {"counts", "edges", "nbins", "npatch"}
    /\ Step(HEntry("RedshiftCDVar", i, 0, var, NoSel, NoScalar, FALSE),
            WithArgs(RedshiftCDOf(ws[i], VariantOf(ws[i], var), Null), <<VariantOf(ws[i], var)>>))
Normalise(i, cls) ==     \* integer-valued data only (32-bit rationals)
    /\ Focused(i, i) /\ ws[i].k = "CD" /\ AllDefined(ws[i]) /\ ExactData(ws[i])
    /\ Step(HEntry("Normalise", i, 0, cls, NoSel, NoScalar, FALSE), NormaliseOf(ws[i], cls))
Construct(cls) ==
    /\ hist = <<>> /\ cls \in ShapeClasses(ws[1].k)
    /\ Step(HEntry("Construct", 1, 0, cls, NoSel, NoScalar, FALSE), ConstructOf(ws[1], cls))

SomeAdd       == \E i \in Idx, j \in Idx : Add(i, j)
SomeSub       == \E i \in Idx, j \in Idx : Sub(i, j)
SomeIAdd      == \E i \in Idx, j \in Idx : IAdd(i, j)
SomeIAddVar   == \E i \in Idx, var \in IAddVars : IAddVar(i, var)
SomeAccumulate == \E i \in Idx, j \in {0} \cup Idx, var \in {""} \cup AccVars : Accumulate(i, j, var)
SomeSetPatchPair == \E i \in Idx, m \in {"x", "dd", "dr", "rd", "rr"}, p \in 1..4, q \in 1..4, v \in {0, 3} :
                       SetPatchPair(i, m, <<p, q, v>>)
SomeAddVar    == \E i \in Idx, var \in {"copy", "counts", "edges", "nbins", "npatch", "npatch1", "sw", "othersw",
                                          "mem+", "mem-", "type", "int1", "pynone", "samples"},
                    rev \in BOOLEAN : AddVar(i, var, rev)
SomeSubVar    == \E i \in Idx, var \in {"copy", "counts", "edges", "nbins", "npatch", "npatch1",
                                          "type", "int1", "pynone", "samples"} : SubVar(i, var)
SomeRAdd      == \/ \E i \in Idx, left \in {0, 1}, j \in {0} \cup Idx : LeftAdd(i, left, j)
                 \/ \E i \in Idx, var \in {"copy", "counts", "sw", "othersw", "npatch"} : SumVar(i, var)
SomeMul       == \E i \in Idx, sc \in Scalars : Mul(i, sc)
SomeEq        == \E i \in Idx, j \in Idx : Eq(i, j)
SomeEqVar     == \E i \in Idx, var \in {"fresh", "copy", "counts", "edges", "nbins", "npatch", "npatch1", "sw", "othersw",
                                         "mem+", "mem-", "type", "int1", "pynone", "samples",
                                         "closed", "auto"} : EqVar(i, var)
SomeIsCompat  == \E i \in Idx, j \in Idx, req \in BOOLEAN : IsCompat(i, j, req)
SomeIsCompatVar == \E i \in Idx, var \in {"copy", "counts", "edges", "nbins", "npatch", "npatch1", "sw", "othersw",
                                            "mem+", "mem-", "type", "samples"},
                      req \in BOOLEAN : IsCompatVar(i, var, req)
SomeBins      == \E i \in Idx : \E sel \in Sels(NB(ws[i])) : Bins(i, sel)
SomePatches   == \E i \in Idx : ws[i].k \in PatchLevels /\ \E sel \in Sels(NP(ws[i])) : Patches(i, sel)
SomeIterBins  == \E i \in Idx : IterBins(i)
SomeIterPatches == \E i \in Idx : IterPatches(i)
SomePatchSum  == \E i \in Idx : PatchSum(i)
SomeSample    == \E i \in Idx : Sample(i)
SomeGetArray  == \E i \in Idx, m \in {"x", "dd", "dr", "rd", "rr"}, lv \in {"PC", "SW", "NC"} : GetArray(i, m, lv)
SomeRedshiftCF == \E i \in Idx, rmem \in AutoMems, umem \in AutoMems : RedshiftCF(i, rmem, umem)
SomeRedshiftCD == \E i \in Idx, j \in {0} \cup Idx, l \in {0} \cup Idx : RedshiftCD(i, j, l)
SomeRedshiftCDVar == \E i \in Idx, var \in {"counts", "edges", "nbins", "npatch"} : RedshiftCDVar(i, var)
SomeNormalise == \E i \in Idx, cls \in {"nz", "hist"} : Normalise(i, cls)
SomeConstruct == \E cls \in {"ok", "ndim1", "ndim2", "ndim3", "ndim4", "ndimmixed", "shapes", "nbins",
                              "nonsquare", "npatch", "edges", "nooptional", "datashape", "samplesndim",
                              "samplesbins"} : Construct(cls)

Done == Len(hist) = MaxDepth \/ ~Extendable

Next == \/ SomeIAdd \/ SomeIAddVar \/ SomeAccumulate \/ SomeSetPatchPair
        \/ SomeAdd \/ SomeSub \/ SomeAddVar \/ SomeSubVar \/ SomeRAdd \/ SomeMul
        \/ SomeEq \/ SomeEqVar \/ SomeIsCompat \/ SomeIsCompatVar
        \/ SomeBins \/ SomePatches \/ SomeIterBins \/ SomeIterPatches
        \/ SomePatchSum \/ SomeSample \/ SomeGetArray
        \/ SomeRedshiftCF \/ SomeRedshiftCD \/ SomeRedshiftCDVar \/ SomeNormalise
        \/ SomeConstruct
        \/ (Done /\ UNCHANGED vars)

Spec == Init /\ [][Next]_vars

---------------------------------------------------------------------------
(* the laws of the property, checked on every container of every workspace
   (second operands: the workspace and the structural variants) *)

All == {ws[i] : i \in Idx}
(* every container is examined once: in the state in which it is created *)
Containers == IF hist = <<>> \/ res.out \in {"val", "alts"} THEN {ws[Len(ws)]}
              ELSE IF res.out = "mut" THEN {ws[hist[Len(hist)].i]} ELSE {}
CountC == {a \in Containers : a.k \in CountLevels}
StructVariants == {"copy", "counts", "edges", "nbins", "npatch", "npatch1", "sw", "othersw", "mem+", "mem-", "samples"}
Partners(a) == All \cup {VariantOf(a, var) : var \in VariantsFor(a) \cap StructVariants}
Selectable(a) == {sel \in Sels(NB(a)) : BinsOf(a, sel).out = "val"}
PSelectable(a) == {sel \in Sels(NP(a)) : PatchesOf(a, sel).out = "val"}

SampledOf(a) == IF a.k = "CF" THEN SampleOf(a) ELSE PatchSumOf(a)

(* equality is reflexive and structural *)
EqReflexive == \A a \in Containers : EqOfS(a, a, TRUE).b
                                    /\ (AllDefined(a) /\ ExactData(a) => EqOf(a, VariantOf(a, "copy")).b)
EqSymmetric == \A a \in Containers : \A b \in Partners(a) : EqOf(a, b).b = EqOf(b, a).b
EqDetectsDifference ==
    \A a \in Containers : AllDefined(a) =>
        \A var \in (EqVariantsFor(a) \ {"copy", "fresh"}) : ~EqOf(a, VariantOf(a, var)).b

(* a + b: counts add, binning and patches must agree, commutative, no member lost *)
AddAddsCounts ==
    \A a \in CountC : \A b \in {c \in Partners(a) : c.k \in CountLevels} :
        LET r == AddOf(a, b, 1) IN
        /\ (r.out = "val" =>
              /\ SameBinning(a, b) /\ NP(a) = NP(b) /\ SameBinning(r.v, a) /\ NP(r.v) = NP(a)
              /\ DOMAIN r.v.parts = DOMAIN a.parts /\ DOMAIN r.v.parts = DOMAIN b.parts
              /\ \A m \in DOMAIN r.v.parts : \A bb \in 1..NB(a) : \A i \in 1..NP(a) : \A j \in 1..NP(a) :
                    r.v.parts[m].cnt[bb][i][j] * a.den * b.den =
                    r.v.den * (a.parts[m].cnt[bb][i][j] * b.den + b.parts[m].cnt[bb][i][j] * a.den)
              /\ SameWeights(a, b)
              /\ AddOf(b, a, 1).out = "val" /\ StructEq(AddOf(b, a, 1).v, r.v))
        /\ (a.k = b.k /\ (~SameBinning(a, b) \/ NP(a) # NP(b)) => r.out = "rej")
        /\ (a.k = b.k /\ DOMAIN a.parts = DOMAIN b.parts /\ ~SameWeights(a, b) => r.out = "rej")

(* k * x scales the counts; the estimate of a CorrFunc is unchanged (k # 0) *)
MulScales ==
    \A a \in CountC : \A sc \in {s \in Scalars : s.cls \in ValidScalarClasses} :
        LET r == MulOf(a, sc) IN
        /\ r.out = "val"
        /\ \A m \in DOMAIN a.parts : \A bb \in 1..NB(a) : \A i \in 1..NP(a) : \A j \in 1..NP(a) :
              r.v.parts[m].cnt[bb][i][j] * a.den * sc.den = r.v.den * a.parts[m].cnt[bb][i][j] * sc.num
        /\ (a.k = "CF" /\ sc.num # 0 /\ SampleOf(a).out = "val"
              => StructEq(SampleOf(r.v).v, SampleOf(a).v))
        /\ (a.k = "NC"
              => \A bb \in 1..NB(a) :
                    REq(PatchSumOf(r.v).v.data[bb],
                        RMul(<<sc.num, sc.den>>, PatchSumOf(a).v.data[bb])))
MulRejectsNonScalars ==
    \A a \in CountC : \A sc \in {s \in Scalars : s.cls \notin ValidScalarClasses} :
        MulOf(a, sc).out = "rej"

(* selection commutes with summation / sampling and with addition *)
BinsCommuteWithSampling ==
    \A a \in {c \in Containers : c.k \in PatchLevels} :
        SampledOf(a).out \in {"val", "alts"} =>
        \A sel \in Selectable(a) :
            /\ SampledOf(BinsOf(a, sel).v).out = SampledOf(a).out
            /\ StructEq(SampledOf(BinsOf(a, sel).v).v, BinsOf(SampledOf(a).v, sel).v)
PatchSumIsSubArraySum ==
    \A a \in {c \in Containers : c.k = "PC"} : \A sel \in PSelectable(a) :
        LET idx == SelIdx(sel, NP(a)) sub == PatchesOf(a, sel).v IN
        \A bb \in 1..NB(a) :
            PatchSumOf(sub).v.data[bb] =
              Norm(<<SumF([i \in 1..Len(idx) |-> SumF([j \in 1..Len(idx) |->
                        a.parts["x"].cnt[bb][idx[i]][idx[j]]], Len(idx))], Len(idx)), a.den>>)
SelectionCommutesWithAdd ==
    \A a \in CountC : \A b \in {c \in Partners(a) : c.k \in CountLevels} :
        AddOf(a, b, 1).out = "val" =>
          /\ \A sel \in Selectable(a) :
                StructEq(BinsOf(AddOf(a, b, 1).v, sel).v,
                         AddOf(BinsOf(a, sel).v, BinsOf(b, sel).v, 1).v)
          /\ \A sel \in PSelectable(a) :
                StructEq(PatchesOf(AddOf(a, b, 1).v, sel).v,
                         AddOf(PatchesOf(a, sel).v, PatchesOf(b, sel).v, 1).v)
IterationIsIndexing ==
    \A a \in Containers :
        /\ Len(IterBinsOf(a).items) = NB(a)
        /\ \A k \in 1..NB(a) : IterBinsOf(a).items[k] = BinsOf(a, IntSel(k - 1)).v
        /\ (a.k \in PatchLevels =>
              /\ IterPatchesOf(a).out = "list"
              /\ Len(IterPatchesOf(a).items) = NP(a)
              /\ \A k \in 1..NP(a) : IterPatchesOf(a).items[k] = PatchesOf(a, IntSel(k - 1)).v)
DataAlgebra ==
    \A a \in {c \in Containers : c.k \in DataLevels} :
        /\ AddOf(a, a, 1).out = "val" /\ AddOf(a, a, -1).out = "val"
        /\ \A bb \in 1..NB(a) : REq(AddOf(a, a, -1).v.data[bb], RInt(0)) \/ ~IsDef(a.data[bb])
        /\ \A bb \in 1..NB(a) : REq(AddOf(a, a, 1).v.data[bb], RMul(RInt(2), a.data[bb]))

(* C04: normaliser = product of the total weights (half the squared total),
   also for every leave-one-out sample; the einsum shortcut is exact *)
NormaliserLaw ==
    \A a \in {c \in Containers : c.k \in {"SW", "NC", "CF"}} : \A m \in DOMAIN a.parts :
        \A bb \in 1..NB(a) : \A k \in 0..NP(a) :
            (a.auto => a.parts[m].sw1 = a.parts[m].sw2) =>
            REq(<<WeightSum(a, m, bb, k), SwDen(a.auto)>>,
                NormaliserLawValue(a.parts[m], a.auto, bb, NP(a), k))
(* get_array: the array of a level sums (over patch pairs, also without patch k) to what
   sample_patch_sum of that level reports; the normalised counts are the counts over the
   bin's normalisation (all patches), so they sum to the normalised total only for k = 0 *)
GetArrayLaw ==
    \A a \in {c \in Containers : c.k \in PatchLevels} : \A t \in GaTargets(a) :
        LET m == t[1]  lv == t[2]  P == NP(a)
            arr == ArrOf(a, m, lv)
            view == [a EXCEPT !.k = lv]
        IN  \A bb \in 1..NB(a) :
              /\ REq(RTot(arr[bb], P, 0), PartValue(view, m, bb, 0))
              /\ (lv # "NC" => \A k \in 1..P : REq(RTot(arr[bb], P, k), PartValue(view, m, bb, k)))
              /\ (lv = "NC" => \A i \in 1..P : \A j \in 1..P :
                     \/ ~IsDef(arr[bb][i][j]) /\ WeightSum(a, m, bb, 0) = 0
                     \/ REq(RMul(arr[bb][i][j], <<WeightSum(a, m, bb, 0), SwDen(a.auto)>>),
                            ArrOf(a, m, "PC")[bb][i][j]))
JackknifeShortcut ==
    \A a \in CountC : \A m \in DOMAIN a.parts : \A bb \in 1..NB(a) : \A k \in 1..NP(a) :
        TotWithout(a.parts[m].cnt[bb], NP(a), k) = TotTrick(a.parts[m].cnt[bb], NP(a), k)
(* estimator selection *)
EstimatorLaw ==
    \A a \in {c \in Containers : c.k = "CF"} :
        LET M == DOMAIN a.parts r == SampleOf(a)
            V(m, b) == PartValue([a EXCEPT !.k = "NC"], m, b, 0)
        IN  \A bb \in 1..NB(a) :
              /\ ("rr" \in M /\ "dr" \in M /\ "rd" \in M =>
                    r.v.data[bb] = LS(V("dd", bb), V("dr", bb), V("rd", bb), V("rr", bb)))
              /\ ("rr" \in M /\ "dr" \in M /\ "rd" \notin M =>
                    r.v.data[bb] = LS(V("dd", bb), V("dr", bb), V("dr", bb), V("rr", bb)))
              /\ ("rr" \notin M /\ "rd" \notin M => r.v.data[bb] = DP(V("dd", bb), V("dr", bb)))
              /\ ("rr" \notin M /\ "dr" \notin M => r.v.data[bb] = DP(V("dd", bb), V("rd", bb)))
              /\ ("rr" \notin M /\ "dr" \in M /\ "rd" \in M => r.out = "alts")
              /\ ("rr" \in M /\ "dr" \notin M => r.out = "open")
IntegralIsOne ==
    \A a \in {c \in Containers : c.k = "CD" /\ AllDefined(c) /\ ExactData(c)} : \A cls \in {"nz", "hist"} :
        NormaliseOf(a, cls).out = "val" => Integral(NormaliseOf(a, cls).v) = RInt(1)
(* n(z): an absent autocorrelation enters as 1; all three share binning and samples *)
RedshiftLaw ==
    (res.out = "nz") =>
        /\ SameBinning(res.items[1], res.items[2]) /\ SameBinning(res.items[1], res.items[3])
        /\ NP(res.items[2]) = NP(res.items[1]) /\ NP(res.items[3]) = NP(res.items[1])
        /\ LET h == hist[Len(hist)] IN
           /\ (h.op = "RedshiftCF" /\ h.rmem = {} => res.items[2] = Ones(res.items[1]))
           /\ (h.op = "RedshiftCF" /\ h.umem = {} => res.items[3] = Ones(res.items[1]))
           /\ (h.op = "RedshiftCD" /\ h.j = 0 => res.items[2] = Ones(res.items[1]))
           /\ (h.op = "RedshiftCD" /\ h.sel.lo = 0 => res.items[3] = Ones(res.items[1]))

(* an independent statement of which operations the property wants accepted
   ("valid"), rejected with an error ("invalid") or leaves open ("open") *)
BinaryValidity(a, b) ==
    IF MixedData(a, b) THEN "open"
    ELSE IF ~IsContainer(b) \/ ~SameType(a, b) \/ a.k = "SW" THEN "invalid"
    ELSE IF ~SameBinning(a, b) \/ NP(a) # NP(b) \/ DOMAIN a.parts # DOMAIN b.parts THEN "invalid"
    ELSE IF ~SameWeights(a, b) THEN "invalid"
    ELSE "valid"
CompatValidity(a, b, req) ==
    IF MixedData(a, b) THEN "open"
    ELSE IF ~req THEN "valid"
    ELSE IF IsContainer(b) /\ SameType(a, b) /\ SameBinning(a, b) /\ NP(a) = NP(b) THEN "valid"
    ELSE "invalid"
SelValidity(sel, n) ==
    IF IsIdx(sel) THEN (IF IntInRange(sel, n) THEN "valid" ELSE "invalid")
    ELSE IF Len(SelIdx(sel, n)) = 0 THEN "open" ELSE "valid"
SampleValidity(M) == IF "rr" \in M /\ "dr" \notin M THEN "open" ELSE "valid"
AutoValidity(mem) == IF mem = {} THEN "valid" ELSE SampleValidity({"dd"} \cup mem)

Validity(h) ==
    LET a == ws[h.i] IN
    CASE h.op \in {"Add", "Sub", "IAdd"} -> BinaryValidity(a, ws[h.j])
      [] h.op \in {"AddVar", "SubVar", "IAddVar"} -> BinaryValidity(a, VariantOf(a, h.var))
      [] h.op = "Accumulate" -> BinaryValidity(a, IF h.j # 0 THEN ws[h.j] ELSE VariantOf(a, h.var))
      [] h.op = "SetPatchPair" -> "valid"
      [] h.op = "RAdd" -> IF h.var # "" THEN BinaryValidity(a, VariantOf(a, h.var))
                          ELSE IF h.j # 0 THEN BinaryValidity(a, ws[h.j])
                          ELSE IF h.sel.lo = 0 THEN "valid" ELSE "invalid"
      [] h.op = "Mul" -> IF h.sc.cls \in ValidScalarClasses THEN "valid" ELSE "invalid"
      [] h.op \in {"IterBins", "IterPatches", "PatchSum", "GetArray"} -> "valid"
      [] h.op = "Eq" -> IF EqOfS(a, ws[h.j], h.i = h.j).out = "open" THEN "open" ELSE "valid"
      [] h.op = "EqVar" -> IF h.var # "copy" /\ EqOf(a, VariantOf(a, h.var)).out = "open" THEN "open" ELSE "valid"
      [] h.op = "IsCompat" -> CompatValidity(a, ws[h.j], h.req)
      [] h.op = "IsCompatVar" -> CompatValidity(a, VariantOf(a, h.var), h.req)
      [] h.op = "Bins" -> SelValidity(h.sel, NB(a))
      [] h.op = "Patches" -> SelValidity(h.sel, NP(a))
      [] h.op = "Sample" -> SampleValidity(DOMAIN a.parts)
      [] h.op = "RedshiftCF" ->
            IF "open" \in {SampleValidity(DOMAIN a.parts), AutoValidity(h.rmem), AutoValidity(h.umem)}
            THEN "open" ELSE "valid"
      [] h.op = "RedshiftCD" ->
            IF /\ (h.j # 0 => SameBinning(a, ws[h.j]) /\ NP(a) = NP(ws[h.j]))
               /\ (h.sel.lo # 0 => SameBinning(a, ws[h.sel.lo]) /\ NP(a) = NP(ws[h.sel.lo]))
            THEN "valid" ELSE "invalid"
      [] h.op = "RedshiftCDVar" ->
            IF SameBinning(a, VariantOf(a, h.var)) /\ NP(a) = NP(VariantOf(a, h.var))
            THEN "valid" ELSE "invalid"
      [] h.op = "Normalise" -> IF NormaliseOf(a, h.var).out = "open" THEN "open" ELSE "valid"
      [] h.op = "Construct" -> IF h.var = "ok" THEN "valid" ELSE "invalid"

AcceptIffValid ==
    hist # <<>> =>
        LET v == Validity(hist[Len(hist)]) IN
        /\ (v = "valid" => res.out \notin {"rej", "open"})
        /\ (v = "invalid" => res.out = "rej")
        /\ (v = "open" => res.out = "open")

TypeOK == /\ Len(hist) <= MaxDepth
          /\ Len(ws) <= MaxDepth + 1
          /\ \A a \in All : IsContainer(a) /\ NB(a) >= 1
                 /\ \A m \in DOMAIN a.parts : a.parts[m].cnt = <<>> \/ Len(a.parts[m].cnt) = NB(a)

(* every step is printed for the replay driver *)
PrintStep == Emit => IF hist = <<>> THEN PrintT(<<"init", scen, ws[1]>>)
                     ELSE PrintT(<<"step", scen, hist, res>>)
=============================================================================
