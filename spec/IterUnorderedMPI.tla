-------------------------- MODULE IterUnorderedMPI --------------------------
(***************************************************************************)
(* utils/parallel.py: iter_unordered under MPI                             *)
(*   _mpi_iter_unordered / _mpi_root_task / _mpi_worker_task               *)
(*                                                                         *)
(* root (rank 0):                                                          *)
(*   for rank in 1..Size-1:                       "first"                  *)
(*       if rank in ranks and tasks left: send(task, rank, tag 1); active++*)
(*       else:                            send(EndOfQueue, rank, tag 1)    *)
(*   while active > 0:                            "loop"                   *)
(*       (w, result) = recv(ANY_SOURCE, tag 2); yield result               *)
(*       if tasks left: send(task, w, tag 1)      "reply"                  *)
(*       else:          send(EndOfQueue, w, tag 1); active--               *)
(*   Barrier                                                               *)
(* worker r:                                                               *)
(*   while (arg := recv(0, tag 1)) is not EndOfQueue:     "wrecv"          *)
(*       send((r, func(arg)), 0, tag 2)                   "wsend"          *)
(*   Barrier                                                               *)
(*                                                                         *)
(* ranks = set(range(min(max_workers or Size, Size)))  - or, with          *)
(* rank0_node_only, the first max_workers ranks on the root's node.  The   *)
(* root never works itself, so the workers are ranks \ {0}.                *)
(*                                                                         *)
(* Deviation "NoEligibleWorker" (the code as found): with max_workers = 1  *)
(* (or a root alone on its node) the worker set is empty, every rank gets  *)
(* EndOfQueue and NO task is executed.  The ideal design guarantees at     *)
(* least one worker.                                                       *)
(***************************************************************************)
EXTENDS MPISem, TLC

CONSTANTS Size,        \* world size >= 2
          NT,          \* number of tasks
          MaxWorkers,  \* 0 = None
          NodeOnly,    \* rank0_node_only
          RemoteRanks, \* ranks on another node than rank 0
          SendModes,   \* subset of {"eager", "sync"}
          Deviations

VARIABLES pc, ret, chan, kfirst, active, next, cur, executed, collected, arrived

vars == <<pc, ret, chan, kfirst, active, next, cur, executed, collected, arrived>>

Ranks == 0..(Size - 1)
Min(a, b) == IF a < b THEN a ELSE b
MW == IF MaxWorkers = 0 THEN Size ELSE Min(MaxWorkers, Size)   \* get_size(max_workers)

SameNode == Ranks \ RemoteRanks
FirstOf(S, n) == { r \in S : Cardinality({ q \in S : q < r }) < n }
RankSet == IF NodeOnly THEN FirstOf(SameNode, MW) ELSE 0..(MW - 1)

Eligible == IF (RankSet \ {0}) = {} /\ "NoEligibleWorker" \notin Deviations
              THEN {1}
              ELSE RankSet \ {0}

Init == /\ pc = [r \in Ranks |-> IF r = 0 THEN "first" ELSE "wrecv"]
        /\ ret = [r \in Ranks |-> "none"]
        /\ chan = EmptyChan(Ranks)
        /\ kfirst = 1 /\ active = 0 /\ next = 1
        /\ cur = [r \in Ranks |-> 0]
        /\ executed = [t \in 1..NT |-> 0]
        /\ collected = <<>>
        /\ arrived = {}

(* standard-mode send from r to d; continues at pc value `after` *)
Send(r, d, tag, cls, arg, after) ==
    \E mode \in SendModes :
        /\ chan' = Enq(chan, r, d, Msg(tag, cls, arg, mode = "sync"))
        /\ IF mode = "sync"
             THEN pc' = [pc EXCEPT ![r] = "swait"] /\ ret' = [ret EXCEPT ![r] = after]
             ELSE pc' = [pc EXCEPT ![r] = after] /\ UNCHANGED ret

SyncDone(r) ==
    /\ pc[r] = "swait" /\ ~SyncPending(chan, r)
    /\ pc' = [pc EXCEPT ![r] = ret[r]]
    /\ UNCHANGED <<ret, chan, kfirst, active, next, cur, executed, collected, arrived>>

RootFirst ==
    /\ pc[0] = "first" /\ kfirst <= Size - 1
    /\ IF kfirst \in Eligible /\ next <= NT
         THEN /\ Send(0, kfirst, 1, "Task", next, "first")
              /\ active' = active + 1 /\ next' = next + 1
         ELSE /\ Send(0, kfirst, 1, "EOQ", 0, "first")
              /\ UNCHANGED <<active, next>>
    /\ kfirst' = kfirst + 1
    /\ UNCHANGED <<cur, executed, collected, arrived>>

RootFirstEnd ==
    /\ pc[0] = "first" /\ kfirst = Size
    /\ pc' = [pc EXCEPT ![0] = "loop"]
    /\ UNCHANGED <<ret, chan, kfirst, active, next, cur, executed, collected, arrived>>

RootRecv(w) ==
    /\ pc[0] = "loop" /\ active > 0
    /\ w \in Sources(chan, Ranks, 0, 2)
    /\ collected' = Append(collected, Matched(chan, w, 0, 2).arg)
    /\ cur' = [cur EXCEPT ![0] = w]
    /\ chan' = Deq(chan, w, 0, 2)
    /\ pc' = [pc EXCEPT ![0] = "reply"]
    /\ UNCHANGED <<ret, kfirst, active, next, executed, arrived>>

RootReply ==
    /\ pc[0] = "reply"
    /\ IF next <= NT
         THEN /\ Send(0, cur[0], 1, "Task", next, "loop")
              /\ next' = next + 1 /\ UNCHANGED active
         ELSE /\ Send(0, cur[0], 1, "EOQ", 0, "loop")
              /\ active' = active - 1 /\ UNCHANGED next
    /\ UNCHANGED <<kfirst, cur, executed, collected, arrived>>

RootLoopExit ==
    /\ pc[0] = "loop" /\ active = 0
    /\ pc' = [pc EXCEPT ![0] = "barrier"]
    /\ UNCHANGED <<ret, chan, kfirst, active, next, cur, executed, collected, arrived>>

WRecv(r) ==
    /\ r # 0 /\ pc[r] = "wrecv" /\ HasMatch(chan, 0, r, 1)
    /\ LET m == Matched(chan, 0, r, 1) IN
         IF m.cls = "EOQ"
           THEN /\ pc' = [pc EXCEPT ![r] = "barrier"]
                /\ UNCHANGED <<cur, executed>>
           ELSE /\ pc' = [pc EXCEPT ![r] = "wsend"]
                /\ cur' = [cur EXCEPT ![r] = m.arg]
                /\ executed' = [executed EXCEPT ![m.arg] = @ + 1]
    /\ chan' = Deq(chan, 0, r, 1)
    /\ UNCHANGED <<ret, kfirst, active, next, collected, arrived>>

WSend(r) ==
    /\ r # 0 /\ pc[r] = "wsend"
    /\ Send(r, 0, 2, "Result", cur[r], "wrecv")
    /\ UNCHANGED <<kfirst, active, next, cur, executed, collected, arrived>>

BarrierArrive(r) ==
    /\ pc[r] = "barrier"
    /\ arrived' = arrived \cup {r}
    /\ pc' = [pc EXCEPT ![r] = "bwait"]
    /\ UNCHANGED <<ret, chan, kfirst, active, next, cur, executed, collected>>

BarrierPass(r) ==
    /\ pc[r] = "bwait" /\ arrived = Ranks
    /\ pc' = [pc EXCEPT ![r] = "done"]
    /\ UNCHANGED <<ret, chan, kfirst, active, next, cur, executed, collected, arrived>>

Done == \A r \in Ranks : pc[r] = "done"

SomeSyncDone == \E r \in Ranks : SyncDone(r)
SomeRootRecv == \E w \in Ranks : RootRecv(w)
SomeWRecv == \E r \in Ranks : WRecv(r)
SomeWSend == \E r \in Ranks : WSend(r)
SomeBarrierArrive == \E r \in Ranks : BarrierArrive(r)
SomeBarrierPass == \E r \in Ranks : BarrierPass(r)

Next == \/ RootFirst \/ RootFirstEnd \/ SomeRootRecv \/ RootReply \/ RootLoopExit
        \/ SomeWRecv \/ SomeWSend \/ SomeSyncDone
        \/ SomeBarrierArrive \/ SomeBarrierPass
        \/ (Done /\ UNCHANGED vars)     \* terminal stuttering: a TLC deadlock is a real one

Spec == Init /\ [][Next]_vars /\ WF_vars(Next)

---------------------------------------------------------------------------
Termination == <>Done

(* C06: every task is executed exactly once ... *)
ExecutedExactlyOnce == Done => \A t \in 1..NT : executed[t] = 1
NeverTwice == \A t \in 1..NT : executed[t] <= 1

(* ... and the root's iterator yields every result exactly once *)
CollectedExactlyOnce ==
    Done => /\ Len(collected) = NT
            /\ \A t \in 1..NT : \E i \in 1..Len(collected) : collected[i] = t

NoLeftover == Done => AllEmpty(chan)

ActiveBounded == active <= Cardinality(Eligible)

TypeOK == /\ active \in 0..Size /\ next \in 1..(NT + 1) /\ kfirst \in 1..Size
          /\ \A r \in Ranks : pc[r] \in {"first", "loop", "reply", "wrecv", "wsend", "swait", "barrier", "bwait", "done"}
=============================================================================
